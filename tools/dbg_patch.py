#!/venv/bin/python
"""Debug aid: failed obligations (with detail) of one property on the tree with a patch overlaid.
   tools/dbg_patch.py <patch.diff> <Cxx> [qualname-to-unparse ...]"""
import ast
import os
import sys
import warnings
warnings.simplefilter("ignore")
sys.path.insert(0, os.path.dirname(os.path.dirname(os.path.abspath(__file__))))
from wv import patchlib, report  # noqa
from wv.model import Program  # noqa
from wv import rules  # noqa

patch, prop = sys.argv[1], sys.argv[2]
ov = patchlib.overlay_for("/repo/src", open(patch).read()) if patch != "-" else None
prog = Program("/repo/src", overlay=ov)
for q in sys.argv[3:]:
    cls, _, m = q.rpartition(".")
    f = prog.method(cls, m, inherited=False)
    print(ast.unparse(f.node))
ctx, _ = report.run_rules(prog, prop, "quick")
for o in ctx.obligations:
    if not o.ok:
        print(o.rule.full, o.key, "--", getattr(o, "detail", ""))
