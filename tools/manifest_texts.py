# per-property texts for MANIFEST.json (exec'd by gen_manifest.py)
LEVEL["C02"] = ("All-paths ordering argument over the control-flow graph of every writer's commit(): segment "
                "finished before TOC.write, TOC written under an invisible temp name and published by rename as "
                "the last step, clean-up only afterwards and only of files the new TOC does not list, and a "
                "who-may-delete table over all call sites. A CFG ordering rule quantifies over every crash point "
                "at once, which no sampled crash test does.")
NOTE["C02"] = ("Not decided: durability of individual writes (no fsync exists), OS rename semantics, readability of "
               "partially written files. Exceptions thrown by callees are treated as crash points. Function values "
               "(merge policies) are resolved through a frozen table.")
LEVEL["C03"] = ("Value-flow and sibling-agreement rules over the reader-opening code: the reader's segment list is the "
                "TOC's, up_to_date()/refresh() share one definition of 'current', the TOC read sits inside the retry "
                "loop and a vanished file stays an IOError all the way up, nothing on the read side mutates storage.")
NOTE["C03"] = ("Not decided: OS semantics of unlinked/mmapped files, lazily opened column files vanishing under a held "
               "reader. One genuine defect (refresh() carrying over merged-away segments) is pinned by an existing test "
               "and listed in known_findings.jsonl.")
LEVEL["C04"] = ("All-paths rules on the CFG of the writer constructor (lock acquired before the TOC read; generation = "
                "that read + 1) and of every writer's commit()/cancel() (lock released on every path, after the last "
                "index-file effect), a who-may-skip-the-lock table, and an interface rule that every Storage's lock "
                "is non-blocking by default so a second writer gets LockError instead of hanging.")
NOTE["C04"] = ("Not decided: fairness/timing of try_for, flock semantics across processes, lock leak when commit() itself "
               "raises. stdlib lock defaults come from a 6-entry table.")
LEVEL["C01"] = ("Typestate/CFG rules over every composite matcher class and every mutator it defines or inherits "
                "(a cursor move is followed by the class's realignment step on every path; helper preconditions are "
                "established at every call site), deletion filtering at every posting source and document iterator, "
                "and segment-offset value flow in docs_for_query / MultiMatcher / all collectors. These are the "
                "structural ways a wrong document enters or leaves a result set on paths (limited search, quality "
                "skips, multi-segment) that the tests never take.")
NOTE["C01"] = ("Not decided: arithmetic inside the alignment helpers, phrase/slop semantics, wildcard/regex/fuzzy "
               "expansion, range term enumeration (value-level). Alignment specs per matcher base class are a frozen "
               "table (wv/matchers.py). NestedChildMatcher is not covered by R1 (conditional realignment on own cursors).")
LEVEL["C11"] = ("Per-method obligations over the whole Matcher hierarchy (37 classes): interface completeness, "
                "reconstruction completeness of copy()/replace() against every concrete constructor, advance=>realign "
                "typestate, guarded child reads, skip_to() early-return guard, reset() must-write set >= the write set "
                "of the cursor moves. Per-method rules hold for every call sequence, which sampled sequences cannot show.")
NOTE["C11"] = ("Not decided: equivalence with the list model itself (values of ids/scores). Classes never referenced "
               "anywhere (SingleTermMatcher, PreloadedUnionMatcher) are outside the quantifier. Missing copy()/reset() "
               "implementations are listed as known findings.")
LEVEL["C09"] = ("Guard-fact dataflow over every union/leader-follower matcher: a child's score/weight/value/spans is read "
                "only where dominating tests put that child on the current document; documented score shapes per "
                "query kind; boosts and global statistics reach the scorer (value-flow rules).")
NOTE["C09"] = ("Not decided: the numeric formulas of the weighting models. Non-negativity of term scores is assumed by the "
               "shape ordering.")
LEVEL["C05"] = ("Shape-algebra rules over every replace()/skip_to_quality(): the threshold handed to a child is the "
                "parent's threshold minus max_quality of every other contributing child (or / boost); comparisons discard "
                "only on bound < threshold; heap order key = result order key; the collector passes thresholds only under "
                "quality support; plus the alignment (C01-R1/R2) and bound-dominance (C12-R1) rules. These are exactly "
                "the facts the limited-search path relies on and that the tests (tiny single-block indexes) never reach.")
NOTE["C05"] = ("Not decided: correctness of stored block statistics (C10/C12), float round-off, final() hooks. "
               "Known findings: unaligned block skipping in Union/Intersection/AndMaybe.skip_to_quality (design flaw), "
               "WrappingMatcher.replace ignoring the boost (pinned by test_quality::test_replacements). "
               "CoordMatcher's transformed threshold is outside the algebra (noted, not armed).")
LEVEL["C12"] = ("Symbolic shape comparison: for every composite matcher and every activity configuration the returned "
                "max_quality/block_quality shape structurally dominates every score shape; every scorer's bounds are its "
                "score formula at (max weight, min length), and a monotonicity abstract domain derives that the formula "
                "is increasing in weight and decreasing in length before the scorer may claim quality support.")
NOTE["C12"] = ("Assumes term scores >= 0 and positive model parameters. Not decided: tightness, float rounding, that stored "
               "block statistics are true aggregates (partly C10-R4).")
LEVEL["C10"] = ("Sibling-agreement rules between every on-disk writer and its reader in the posting path: block info "
                "tuple vs _goto unpacking, last-block marker, data tuple indices, delta/compression/compact-weight cases "
                "applied and undone under the same condition; W3TermInfo struct layout vs pack order, unpack indices and "
                "the four direct-offset readers (offsets computed from the format string); Format.encode headers vs every "
                "decoder per concrete class; must-update analysis of the term statistics; resolved calls on typed receivers.")
NOTE["C10"] = ("Not decided: value equality itself, float32 rounding, zlib. Constant sizes are folded from whoosh/system.py "
               "with struct.calcsize on the literal formats.")
LEVEL["C14"] = ("Sibling agreement of the filter predicate across the collecting and the counting path, len(results) "
                "routing through the outermost match-set-changing collector, sort-then-slice order with (key, docnum) "
                "pairs, collector stacking order, cache-value independence from per-search parameters, and sortedness "
                "typestate of the collapse lists.")
NOTE["C14"] = ("Not decided: ResultsPage arithmetic, facet key values, column- vs posting-backed categorizer agreement "
               "(value-level). CollapseCollector's count path is a known finding (two entries). Wrapping collectors "
               "capturing child.matcher before replace() (design C14-R4) is not armed: no witness found.")
LEVEL["C15"] = ("Constructor/equality completeness over the 52 query classes: match-relevant constructor parameters are "
                "compared or hashed (normalize() de-duplicates through a set) and are passed on by every "
                "self.__class__(...) in normalize/apply/with_boost/_rewrap/simplify, checked per concrete subclass that "
                "inherits the method; clause absorption and range merging must be conditioned on the operator; "
                "normalize() has no explicit raise and only calls what every query class defines.")
NOTE["C15"] = ("Not decided: semantic equivalence on data, idempotence, estimate_size bounds. Score-only parameters "
               "(scale, tiebreak, per_parent_limit, score_fn, ...) are outside the match-set property. Operator-blind "
               "absorption/merge in normalize() are genuine defects pinned by tests (known findings).")
LEVEL["C16"] = ("Escape-by-enumeration: every explicit raise in parse-time code is QueryParserError or a reviewed "
                "unreachable check; every call into a field's parse hook is fenced by a catch-all that yields an error "
                "query; matcher-building code raises only QueryError and looks fields up after a membership test "
                "(interprocedurally through matcher()); the operator table is in the documented binding order; tagging is total.")
NOTE["C16"] = ("Not decided: that the parsed tree selects the intended documents; implicit exceptions (IndexError, "
               "TypeError from arithmetic on node lists) are invisible to this analysis -- e.g. the pre-existing "
               "'NOT NOT x' IndexError and value-level operator tables such as GtLtPlugin.make_range are out of reach.")
LEVEL["C13"] = ("Mirror-pipeline rules: each sortable encoder/decoder pair is normalised to a list of steps on one "
                "running value and the decoder must be the reversed, inverted list; range checks dominate every encode; "
                "index-time tiers and query-time tiers receive the same parameters by name; parse_range forwards "
                "exclusivity and boost.")
NOTE["C13"] = ("Not decided: split_ranges coverage of [start, end] (pure 2^64-domain arithmetic, not a shape fact), "
               "Decimal scaling, float edge cases, date parsing.")
LEVEL["C17"] = ("Who-may-pick-a-mode table over every literal analysis mode in the package, typestate over every "
                "tokenizer (position/offset assigned before each yield when requested), format<->token attribute "
                "agreement (C10-R3), subset relation of query-time n-gram sizes, and a container-aliasing rule for the "
                "per-hit highlight data.")
NOTE["C17"] = ("Not decided: the findability relation itself, stemmer behaviour, highlight substring arithmetic. "
               "C17-R4 recognises only the listed normal forms of the clamped gram size.")
LEVEL["C08"] = ("Writer/reader sibling agreement for every column type (factory arguments, struct byte order, VarBytes "
                "trailer layout and its distances from the end, buffers written only after the final fill, lengths and "
                "offsets padded together), default-elision agreement, codec internal-column identity, value flow of the "
                "_stored_ override in add_document, per-row column copy during merges, multi-segment column coverage.")
NOTE["C08"] = ("Not decided: behaviour at the 256/65536/2^31 thresholds, pickle/zlib round-trips, mmap. The vector-length "
               "column is written as 'i' and read as 'I' (same width; benign for non-negative lengths) and is accepted "
               "as byte-compatible.")
LEVEL["C06"] = ("Value-flow rules over the merge path: docmap creation and use, base document number captured before "
                "the per-document copy and passed with the docmap to the postings copy (single- and multi-process), "
                "merge policies as exclusive partitions of the segment list, one offsets recurrence (over ALL documents) "
                "and one bisect locator shared by every multi-segment view, groups never split across sub-writers, per-row "
                "copy of lengths/vectors/columns.")
NOTE["C06"] = ("Not decided: equality of the logical dumps themselves, score equality across layouts, external-sort "
               "correctness (C20).")
LEVEL["C07"] = ("Deletion filtering at every posting source and iterator (C01-R3), deletions recorded on the writer's own "
                "unpickled segments and published only by TOC.write (cancel never reaches it), update = per-unique-field "
                "lookup, delete all hits, then one add, delete_by_query deletes and counts exactly the yielded documents, "
                "writer offsets over all segments (C06-R3), resolved calls on the deleted-document set (C10-R5).")
NOTE["C07"] = ("Not decided: unique-key lookup correctness on analysed fields, InverseMatcher's arithmetic when the child "
               "is exhausted next to a deleted document (value-level; reported by a seeding agent, see notes).")
LEVEL["C18"] = ("Layering (raw file-system mutation only in the storage layer), interface completeness of every Storage "
                "and every writer front-end, and CFG ordering of BufferedWriter.commit (underlying writer committed on "
                "every path, RAM reader swapped under one lock) and MpWriter._commit (flush, sentinels, join, collect, "
                "publish), plus the multi-process merge renumbering (C06-R1/R4).")
NOTE["C18"] = ("Not decided: equality of dumps across configurations, queue timing, a sub-writer result lost on queue.Empty.")
LEVEL["C19"] = ("Sibling agreement between the two terms_within implementations (edit-operation set extracted from the "
                "automaton's transition templates vs the distance function the brute-force path resolves to; prefix; "
                "acceptance threshold; every expanded term is measured), dominating-fact rules on the suggestion heap, "
                "and a dependence rule on the suggestion score.")
NOTE["C19"] = ("Not decided: equality with the distance definition on all word pairs. Four genuine defects are known findings "
               "(no transposition in the automaton, queried word returned, constant distance in the rank).")
LEVEL["C20"] = ("Writer/reader sibling agreement for the low-level containers: StructFile typed accessors (struct aliases "
                "resolved through whoosh/system.py; read size = calcsize), hash-file header/bucket/slot/trailer arithmetic, "
                "compound-file directory layout, SubFile seek-before-read typestate on the shared parent file, external "
                "sort ordering (sort before run, all runs merged, run removed in finally), DocIdSet interface completeness, "
                "varint/delta mirror constants.")
NOTE["C20"] = ("Not decided: the algebraic set laws on data (e.g. BitSet._logic), growable-array thresholds, base85. The "
               "interface gaps of MultiIdSet/ReverseIdSet/RoaringIdSet/OnDiskBitSet are known findings.")

# ---- second session: additions to the texts above ----
_ADD_LEVEL = {
    "C01": " Added: InverseMatcher and NestedChildMatcher never rest on a document their deletion predicate rejects "
           "(typestate over _find_next / next), term-range clusivity (a lexicon term is dropped only for the documented "
           "reasons, judged per incoming path), MultiMatcher.skip_to re-tests the target after switching segment, query "
           "objects are immutable (no state leaks from one segment to the next).",
    "C03": " Added: read APIs keep no per-call state on the shared reader object (reviewed table of lazy caches).",
    "C04": " Added: lock operations never unlink/rename the lock file; AsyncWriter binds its writer only in the constructor.",
    "C06": " Added: every path of every commit() to _commit_toc finalized/assembled the current segment or established "
           "that nothing was added.",
    "C08": " Added: per-document buffers are fresh at the start of every document.",
    "C10": " Added: postings are inlined only if nothing of the term was written; add_posting flushes a full block before "
           "recording anything of the new posting; every array read/write path byteswaps (C20-R1).",
    "C11": " Added: whole blocks are skipped by id only when the target lies strictly beyond them; MultiMatcher.skip_to / "
           "max_quality cover all remaining sub-matchers.",
    "C14": " Added: the reverse flag is consulted on every path of column_reader; page offsets derive from the clamped page number; "
           "the filter collector's two code paths apply one predicate (compared as functions of the global docnum).",
    "C15": " Added: queries are immutable (no method outside the constructor writes to self), replace() substitutes only under "
           "field and text equality in every sibling, binary operators' NullQuery cases are evaluated path by path against a table.",
    "C16": " Added: calls into a field's text analysis are dominated by the preconditions derived from FieldType.tokenize/"
           "process_text or fenced; group nodes never index self.nodes[k] without a size test, contain no assert and never wrap a "
           "missing sub-query; the two bounds of a range are analysed independently.",
    "C17": " Added: a pickled analysis component keeps every configured attribute or rebuilds it unconditionally.",
    "C20": " Added: the hash probe loop advances on every iteration; array byte order on every path.",
}
for _k, _v in _ADD_LEVEL.items():
    LEVEL[_k] = LEVEL[_k] + _v
# ---- third session: rule families added after the third seeding round (DESIGN.md C9) ----
_ADD_LEVEL3 = {
    "C01": " Added: collections of segment-local numbers (list(self.matches())) are tracked to their sinks like single numbers.",
    "C02": " Added: FileStorage.rename_file, the publishing step, has no file-system effect besides exists/remove/one rename.",
    "C04": " Added: every _finish()/lock release in the segment writers is dominated by _check_state() (for private helpers: at "
           "every call site); a descriptor handed to os.close() is not kept in the lock object.",
    "C08": " Added: column_reader consults `translate` on every returning path.",
    "C09": " Added: no object takes over another object's __dict__; SearchContext.set() writes only to a copy; quantities for which 0 "
           "is a value are never tested by truthiness (C10-R7).",
    "C10": " Added: zero-is-a-value discipline (reviewed attribute table, None-initialised numeric locals, `get(k) or numeric default`); "
           "every format's word_values scales the emitted weight by field_boost; the ordered-hash typecode -> getter table (C20-R8).",
    "C11": " Added: re-construction completeness for settings (every self.__class__(...) binds every stateful constructor parameter, per "
           "concrete class); whatever copy() calls receives copies of the children.",
    "C14": " Added: per-segment hooks never keep the previous segment's state conditionally on that state; the eviction rule is stated on "
           "branch facts (disjunctive) instead of one spelling.",
    "C15": " Added: re-construction completeness over every query class (normalize/apply/simplify/...), argument names agree with the "
           "parameter they are bound to (whole program), __eq__ demands class identity, estimate_size() is monotone in the upper bounds "
           "it is computed from.",
    "C16": " Added: nothing outside whoosh.fields reads a Schema's private field tables (dynamic fields are only visible through the interface).",
    "C17": " Added: every tokenize()/process_text() call in the query parser passes mode=\"query\" (per call, not per function).",
    "C18": " Added: no IndexWriter operation, as resolved for AsyncWriter, consults the index when it is called.",
    "C19": " Added: ReaderCorrector asks terms_within about the field's spelling_fieldname().",
    "C20": " Added: typecode -> StructFile getter table of the ordered hash reader, computed case by case.",
}
for _k, _v in _ADD_LEVEL3.items():
    LEVEL[_k] = LEVEL[_k] + _v
# ---- after the fourth seeding round (DESIGN.md C12) ----
_ADD_LEVEL4 = {
    "C05": " Added: a local alias of an attribute is not advanced/mutated after the attribute was re-bound (stale alias); results of "
           "copy-on-write calls are used (C09-R6).",
    "C09": " Added: the result of SearchContext.set()/Query.with_boost()/... is never dropped.",
    "C11": " Added: every attribute read from a matcher's public methods is bound along the constructor chain that building it runs.",
    "C12": " Added: a freshly constructed scorer's parameters are not overwritten after its constructor derived bounds from them.",
    "C15": " Added: no one-shot iterator kept as query state, no mutated mutable default argument.",
    "C16": " Added: sibling-inferred cache invalidation (every mutator of what a cache is computed from resets it); end-indexing of a "
           "group being built is dominated by a non-emptiness test.",
    "C08": " Added: every attribute a column type's public methods read is bound somewhere (a column type without a default raises on the "
           "first segment that lacks the column).",
    "C18": " Added: attribute definedness for every writer front-end.",
}
for _k, _v in _ADD_LEVEL4.items():
    LEVEL[_k] = LEVEL[_k] + _v
# ---- after the fifth seeding round (DESIGN.md C13) ----
_ADD_LEVEL5 = {
    "C08": " Added: a column writer's row counter advances only on paths that emit the row (path rule).",
    "C11": " Added: a wrapper that realigns in its own next()/skip_to() does not inherit the child's unfiltered all_ids().",
    "C13": " Added: column row counter / emission pairing (C08-R9).",
    "C15": " Added: no query class body defines __eq__ without __hash__; Not(NullQuery).normalize (known finding).",
    "C16": " Added: lower bounds on the length of the parser's stacks (x[-1], x[0], pop() only where the bound is >= 1).",
    "C19": " Added: the fuzzy prefix is clamped to the word length; every corrector yields (score, word) pairs; the list corrector's "
           "lookup cursor moves only to a bisection result.",
}
for _k, _v in _ADD_LEVEL5.items():
    LEVEL[_k] = LEVEL[_k] + _v
# ---- after the sixth seeding round (DESIGN.md C14) ----
_ADD_LEVEL6 = {
    "C02": " Added: the segment-id alphabet lies inside the id class of the clean-up pattern.",
    "C03": " Added: no finalizer on reader classes.",
    "C04": " Added: the in-memory write lock is not re-entrant.",
    "C06": " Added: the term merge's single-iterator shortcut yields the head it already pulled.",
    "C07": " Added: a writer opens a fresh reader per lookup; matchers that count document numbers themselves are given the reader's "
           "deletion predicate.",
    "C09": " Added: the field boost reaches every posting (dominator rule); averages and idf are normalised by one population.",
    "C12": " Added: skip_to_quality returns a count on every path.",
    "C14": " Added: per-search counters accumulate across segments; at most one layer of a collector chain drives the documents itself "
           "(known finding: filter/mask bypasses collapse).",
    "C16": " Added: every plugin filter descends into nested groups; user patterns are compiled under a QueryError handler; text-to-date "
           "conversions are fenced by a catch-all; a field prefix reaches every node of its group.",
    "C17": " Added: an escaping formatter escapes the matched words too.",
}
for _k, _v in _ADD_LEVEL6.items():
    LEVEL[_k] = LEVEL[_k] + _v
_ADD_LEVEL6B = {
    "C01": " Added: fielded Every shortcuts keep the field; replace() activity tables of the binary matchers.",
    "C03": " Added: a reader is re-used for a segment only under a comparison of the segments' deleted documents.",
    "C08": " Added: the merge path copies raw column values.",
    "C11": " Added: replace() of a binary matcher with an exhausted side keeps exactly what the operator still matches.",
    "C18": " Added: a terms reader that sorts in terms_from() sorts in terms(); per-document data of the memory codec lives on the shared "
           "segment (known finding: BufferedWriter loses column values).",
    "C20": " Added: the ordered hash writers refuse an out-of-order key before recording anything of it.",
}
for _k, _v in _ADD_LEVEL6B.items():
    LEVEL[_k] = LEVEL[_k] + _v
_ADD_LEVEL7 = {
    "C03": " Added: a refreshed reader takes its segments from the TOC; a segment of the reused reader is carried over only if its "
           "reader was never opened from a TOC.",
    "C11": " Added: a private alignment helper of the binary matchers reads a sub-matcher's id() only where it is known active "
           "(also run for C01).",
    "C12": " Added: every composite skip_to_quality loop continues while the bound is <= the threshold and leaves when no "
           "sub-matcher moved (also run for C05).",
    "C13": " Added: the trie split stops when the next tier's bounds have crossed or wrapped; a range emptied by its exclusive "
           "bounds yields no tier.",
    "C15": " Added: Wildcard.normalize rewrites to Term/Prefix only a text free of every metacharacter the class declares; the boost "
           "of a clause taken from a clause list is read only where the clause is known to have one.",
    "C18": " Added: a list matcher that is given a scorer is given the term's statistics too (also run for C05, C12).",
    "C20": " Added: a rewound, never truncated buffer is read back only up to its cursor (also run for C06, C08, C18); every "
           "offset-table lookup is bisect_right(offsets, n) - 1 (also C01, C08, C10); the stride of a hand-addressed index element is "
           "the item size of its typecode.",
}
for _k, _v in _ADD_LEVEL7.items():
    LEVEL[_k] = LEVEL[_k] + _v
_ADD_LEVEL8 = {
    "C02": " Added: create_compound_file() (which deletes the loose files it packs) is applied only to the writer's own unpublished "
           "segment; the clean-up pattern of an index does not match the files of an index whose name extends it (also run for C03).",
    "C08": " Added: the default a field type hands to its column is a value of the column's own (converted) domain; in add_document every "
           "conversion of a user value precedes every effect on the pool and the per-document writer (a known finding: it does not).",
    "C10": " Added: a parameter that some call site fills with a generator is stored in long-lived state only after it has been "
           "materialised (also run for C08, C18).",
    "C11": " Added: reset() rewinds every sub-matcher the cursor moves advance; every write of MultiMatcher's segment cursor is followed by "
           "_next_matcher() before the method returns (also run for C01, C06).",
    "C15": " Added: only a disjunction drops a clause that matches nothing (every NullQuery filter of whoosh.query outside CompoundQuery.normalize "
           "lies in a class whose matcher is a union).",
    "C13": " Added: the decimal scaling of prepare_number is undone arithmetically (division by the same power of ten), not by cutting the "
           "digit string (also run for C08).",
}
for _k, _v in _ADD_LEVEL8.items():
    LEVEL[_k] = LEVEL[_k] + _v
for _k in list(LEVEL):
    LEVEL[_k] = LEVEL[_k] + (" Generic families over the property's anchor files: G1 no argument bound to the slot of another, same-named "
                             "parameter of the resolved callee; G2 no parameter dropped on the way to the callee that takes it; G3 no attribute "
                             "name read that nothing in the package or the standard library defines; G4 no constructor parameter replaced by a "
                             "constant under its own name; G5 every attribute a concrete class reads through self is bound in its hierarchy; G6 a numeric parameter is not replaced "
                             "by a non-zero fallback through `or`; G7 every global name a function reads is bound by its module; G8 the live "
                             "document count is never a bound or table size for document numbers; G9 file/struct bytes are never concatenated with a "
                             "str literal; G10 a get-or-create tests the container it fills; G11 strip() is not used to cut a literal affix; G12 a pure "
                             "delegation returns what it delegates; G13 a number is compared strictly with the next entry of an offsets table "
                             "(segment ranges are half-open); G14 a memo filled inside a loop is keyed by everything that varies in what it remembers.")
for _k in list(NOTE):
    NOTE[_k] = NOTE[_k] + (" All rules are invariant under the behaviour-preserving whole-tree transformations of tools/robust.py "
                           "and silent on the 395 confirmed refactorings under benign/ (four more under benign_open/ -- C097, C09A, C10A, C20A -- are recorded open false alarms) (thorough tier). Independent seeding rounds: an unseen "
                           "regression was caught in 19/40, 20/60, 23/60, 25/60, 21/60, 21/60, 24/60 and 17/40 cases before the rules were strengthened; an unseen refactoring "
                           "raised a false alarm in 27/80, 27/57, 15/60, 15/60, 16/60, 13/50 and 11/40 cases before the machinery was corrected (DESIGN.md C2, C8, C12, C13, C14, C15, C16). "
                           "The transformations are now 24.")
