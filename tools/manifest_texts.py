# per-property texts for MANIFEST.json (exec'd by gen_manifest.py)
LEVEL["C02"] = ("All-paths ordering argument over the control-flow graph of every writer's commit(): segment "
                "finished before TOC.write, TOC written under an invisible temp name and published by rename as "
                "the last step, clean-up only afterwards and only of files the new TOC does not list, and a "
                "who-may-delete table over all call sites. A CFG ordering rule quantifies over every crash point "
                "at once, which no sampled crash test does.")
NOTE["C02"] = ("Not decided: durability of individual writes (no fsync exists), OS rename semantics, readability of "
               "partially written files. Exceptions thrown by callees are treated as crash points. Function values "
               "(merge policies) are resolved through a frozen table.")
