#!/venv/bin/python
"""Must-stay-silent harness: apply behaviour-preserving whole-tree transformations
to the whoosh sources (in memory, or written to a scratch directory with --write so
that the test suite can confirm they preserve behaviour) and compare every
property's findings with the findings on the untransformed tree.

  tools/robust.py [unparse|rename|augassign|ifswap|all] [--write DIR]

A difference (new finding, lost finding, ANALYSIS-ERROR) is printed; the checks are
supposed to be invariant under all of these.
"""
import ast
import builtins
import os
import sys
import warnings
from concurrent.futures import ProcessPoolExecutor

warnings.simplefilter("ignore")
HERE = os.path.dirname(os.path.dirname(os.path.abspath(__file__)))
sys.path.insert(0, HERE)

SRC = os.environ.get("WV_SRC_ROOT", "/repo/src")
PROPS = ["C%02d" % i for i in range(1, 21)]


def sources():
    out = {}
    for dp, dn, fn in os.walk(os.path.join(SRC, "whoosh")):
        for f in fn:
            if f.endswith(".py"):
                p = os.path.join(dp, f)
                rel = os.path.relpath(p, SRC)
                with open(p, "rb") as fh:
                    out[rel] = fh.read().decode("utf-8", "replace").replace("\r\n", "\n")
    return out


# ---- T1: reformat -----------------------------------------------------------

def t_unparse(src):
    return ast.unparse(ast.parse(src)) + "\n"


# ---- T2: alpha-rename function locals ---------------------------------------

class _Binder(ast.NodeVisitor):
    """names bound in one function scope (not descending into nested scopes)."""

    def __init__(self):
        self.bound = set()
        self.declared = set()
        self.bad = False

    def visit_FunctionDef(self, n):
        self.bound.add(n.name)  # nested def binds its name; do not rename it (may be looked up by name)
        self.declared.add(n.name)

    visit_AsyncFunctionDef = visit_FunctionDef

    def visit_ClassDef(self, n):
        self.bad = True

    def visit_Lambda(self, n):
        pass

    def _comp(self, n):
        # the first iterable is evaluated in the enclosing scope
        self.visit(n.generators[0].iter)

    visit_ListComp = visit_SetComp = visit_DictComp = visit_GeneratorExp = _comp

    def visit_Global(self, n):
        self.declared.update(n.names)

    visit_Nonlocal = visit_Global

    def visit_Name(self, n):
        if isinstance(n.ctx, (ast.Store, ast.Del)):
            self.bound.add(n.id)
        if n.id in ("locals", "vars", "eval", "exec", "dir"):
            self.bad = True

    def visit_Import(self, n):
        for a in n.names:
            self.declared.add((a.asname or a.name).split(".")[0])

    visit_ImportFrom = visit_Import

    def visit_ExceptHandler(self, n):
        if n.name:
            self.declared.add(n.name)  # keep simple: do not rename
        self.generic_visit(n)

    def visit_NamedExpr(self, n):
        self.bad = True


def _params(fn):
    a = fn.args
    names = [x.arg for x in a.posonlyargs + a.args + a.kwonlyargs]
    if a.vararg:
        names.append(a.vararg.arg)
    if a.kwarg:
        names.append(a.kwarg.arg)
    return set(names)


class _Renamer(ast.NodeTransformer):
    def __init__(self, suffix):
        self.suffix = suffix
        self.env = [{}]  # stack of {old: new}

    def cur(self, name):
        for d in reversed(self.env):
            if name in d:
                return d[name]
        return name

    def _func(self, n):
        b = _Binder()
        for s in n.body:
            b.visit(s)
        params = _params(n)
        # defaults/decorators evaluated outside
        n.args.defaults = [self.visit(d) for d in n.args.defaults]
        n.args.kw_defaults = [self.visit(d) if d is not None else None for d in n.args.kw_defaults]
        n.decorator_list = [self.visit(d) for d in n.decorator_list]
        m = {}
        # names bound here shadow outer renames
        for nm in b.bound | params | b.declared:
            m[nm] = nm
        if not b.bad:
            for nm in b.bound - params - b.declared:
                if nm.startswith("__") or hasattr(builtins, nm):
                    continue
                m[nm] = nm + self.suffix
        self.env.append(m)
        n.body = [self.visit(s) for s in n.body]
        self.env.pop()
        return n

    visit_FunctionDef = _func
    visit_AsyncFunctionDef = _func

    def visit_Lambda(self, n):
        n.args.defaults = [self.visit(d) for d in n.args.defaults]
        self.env.append({p: p for p in _params(n)})
        n.body = self.visit(n.body)
        self.env.pop()
        return n

    def _comp(self, n):
        # comprehension targets are local to the comprehension: shadow them
        tg = set()
        for g in n.generators:
            for x in ast.walk(g.target):
                if isinstance(x, ast.Name):
                    tg.add(x.id)
        first = self.visit(n.generators[0].iter)
        self.env.append({t: t for t in tg})
        n.generators[0].iter = first
        for i, g in enumerate(n.generators):
            g.target = self.visit(g.target)
            if i:
                g.iter = self.visit(g.iter)
            g.ifs = [self.visit(x) for x in g.ifs]
        if isinstance(n, ast.DictComp):
            n.key = self.visit(n.key)
            n.value = self.visit(n.value)
        else:
            n.elt = self.visit(n.elt)
        self.env.pop()
        return n

    visit_ListComp = visit_SetComp = visit_DictComp = visit_GeneratorExp = _comp

    def visit_ClassDef(self, n):
        # class body: a scope of its own; names are attributes -> never renamed; nested functions see outer env
        n.bases = [self.visit(b) for b in n.bases]
        n.decorator_list = [self.visit(d) for d in n.decorator_list]
        b = _Binder()
        for s in n.body:
            if not isinstance(s, (ast.FunctionDef, ast.ClassDef)):
                b.visit(s)
        # class-level names are NOT visible in methods; but at class level they shadow
        new_body = []
        for s in n.body:
            if isinstance(s, (ast.FunctionDef, ast.AsyncFunctionDef, ast.ClassDef)):
                new_body.append(self.visit(s))
            else:
                self.env.append({nm: nm for nm in b.bound | b.declared})
                new_body.append(self.visit(s))
                self.env.pop()
        n.body = new_body
        return n

    def visit_Name(self, n):
        n.id = self.cur(n.id)
        return n


def t_rename(src, suffix="_rn"):
    tree = ast.parse(src)
    tree = _Renamer(suffix).visit(tree)
    ast.fix_missing_locations(tree)
    return ast.unparse(tree) + "\n"


# ---- T3: x += e  <->  x = x + e  (plain names of int-like counters only when e is a literal) ----

class _Aug(ast.NodeTransformer):
    def visit_AugAssign(self, n):
        self.generic_visit(n)
        if isinstance(n.target, ast.Name) and isinstance(n.op, (ast.Add, ast.Sub)) and isinstance(n.value, ast.Constant) \
                and isinstance(n.value.value, int):
            return ast.copy_location(ast.Assign(targets=[ast.Name(id=n.target.id, ctx=ast.Store())],
                                                value=ast.BinOp(left=ast.Name(id=n.target.id, ctx=ast.Load()), op=n.op, right=n.value)), n)
        return n


def t_augassign(src):
    tree = _Aug().visit(ast.parse(src))
    ast.fix_missing_locations(tree)
    return ast.unparse(tree) + "\n"


# ---- T4: if c: A else: B  ->  if not c: B else: A  (only when both branches non-empty, no elif chain) ----

class _IfSwap(ast.NodeTransformer):
    def visit_If(self, n):
        self.generic_visit(n)
        if n.orelse and not (len(n.orelse) == 1 and isinstance(n.orelse[0], ast.If)) and \
                not (len(n.body) == 1 and isinstance(n.body[0], ast.If)):
            t = n.test
            if isinstance(t, ast.UnaryOp) and isinstance(t.op, ast.Not):
                nt = t.operand
            else:
                nt = ast.UnaryOp(op=ast.Not(), operand=t)
            return ast.copy_location(ast.If(test=nt, body=n.orelse, orelse=n.body), n)
        return n


def t_ifswap(src):
    tree = _IfSwap().visit(ast.parse(src))
    ast.fix_missing_locations(tree)
    return ast.unparse(tree) + "\n"


# ---- T5: return-early normalisation: trailing `else:` after a branch that returns is unindented ----

def _terminates(body):
    return bool(body) and isinstance(body[-1], (ast.Return, ast.Raise, ast.Continue, ast.Break))


class _ElseDrop(ast.NodeTransformer):
    def _block(self, stmts):
        out = []
        for s in stmts:
            s = self.visit(s)
            if isinstance(s, ast.If) and s.orelse and _terminates(s.body) and \
                    not (len(s.orelse) == 1 and isinstance(s.orelse[0], ast.If)):
                tail = s.orelse
                s.orelse = []
                out.append(s)
                out.extend(tail)
            else:
                out.append(s)
        return out

    def generic_visit(self, node):
        for field in ("body", "orelse", "finalbody"):
            v = getattr(node, field, None)
            if isinstance(v, list) and v and isinstance(v[0], ast.stmt):
                setattr(node, field, self._block(v))
        if isinstance(node, ast.Try):
            for h in node.handlers:
                h.body = self._block(h.body)
        for field, v in ast.iter_fields(node):
            if field in ("body", "orelse", "finalbody", "handlers"):
                continue
            if isinstance(v, list):
                for i, x in enumerate(v):
                    if isinstance(x, ast.AST):
                        v[i] = self.visit(x)
            elif isinstance(v, ast.AST):
                setattr(node, field, self.visit(v))
        return node


def t_elsedrop(src):
    tree = _ElseDrop().visit(ast.parse(src))
    ast.fix_missing_locations(tree)
    return ast.unparse(tree) + "\n"


# ---- T6: insert a no-op statement at the start of every block ----

class _PassIns(ast.NodeTransformer):
    def generic_visit(self, node):
        super().generic_visit(node)
        for field in ("body", "orelse", "finalbody"):
            v = getattr(node, field, None)
            if isinstance(v, list) and v and isinstance(v[0], ast.stmt) and not isinstance(node, (ast.Module, ast.ClassDef)):
                # keep docstrings first
                i = 1 if (field == "body" and isinstance(node, (ast.FunctionDef, ast.AsyncFunctionDef)) and isinstance(v[0], ast.Expr)
                          and isinstance(v[0].value, ast.Constant) and isinstance(v[0].value.value, str)) else 0
                if field == "orelse" and len(v) == 1 and isinstance(v[0], ast.If):
                    continue  # keep elif chains
                v.insert(i, ast.Pass())
        if isinstance(node, ast.Try):
            for h in node.handlers:
                h.body.insert(0, ast.Pass())
        return node


class _NoiseIns(_PassIns):
    pass


def t_noise(src):
    """like passins, but with a pure call statement the normaliser cannot drop (stands for logging / assertions)."""
    tree = _PassIns().visit(ast.parse(src))

    class R(ast.NodeTransformer):
        def visit_Pass(self, n):
            return ast.copy_location(ast.Expr(value=ast.Call(func=ast.Name(id="isinstance", ctx=ast.Load()),
                                                             args=[ast.Constant(value=0), ast.Name(id="int", ctx=ast.Load())], keywords=[])), n)
    # only the inserted ones: original `pass` statements are sole statements of their block and are kept by _PassIns as second statements
    tree = R().visit(tree)
    ast.fix_missing_locations(tree)
    return ast.unparse(tree) + "\n"


def t_passins(src):
    tree = _PassIns().visit(ast.parse(src))
    ast.fix_missing_locations(tree)
    return ast.unparse(tree) + "\n"


# ---- T7: flip comparisons / swap == operands (pure operands only) ----

def _pure(e):
    return all(isinstance(x, (ast.Name, ast.Attribute, ast.Constant, ast.Subscript, ast.Load, ast.Slice, ast.UnaryOp, ast.USub, ast.Tuple))
               for x in ast.walk(e))


class _CmpFlip(ast.NodeTransformer):
    FL = {ast.Lt: ast.Gt, ast.Gt: ast.Lt, ast.LtE: ast.GtE, ast.GtE: ast.LtE, ast.Eq: ast.Eq, ast.NotEq: ast.NotEq}

    def visit_Compare(self, n):
        self.generic_visit(n)
        if len(n.ops) == 1 and type(n.ops[0]) in self.FL and _pure(n.left) and _pure(n.comparators[0]):
            return ast.copy_location(ast.Compare(left=n.comparators[0], ops=[self.FL[type(n.ops[0])]()], comparators=[n.left]), n)
        return n


def t_cmpflip(src):
    tree = _CmpFlip().visit(ast.parse(src))
    ast.fix_missing_locations(tree)
    return ast.unparse(tree) + "\n"


# ---- T8: inline single-assignment path aliases (x = self.a ... x.f()  ->  self.a.f()) when nothing on the path is rebound ----

_MA = None


def _mutable_attrs():
    """attribute names assigned anywhere outside an __init__ (package-wide): aliases of those are not inlined;
    also method names (an alias of a bound method is fine to inline, but keep it simple) are allowed."""
    global _MA
    if _MA is None:
        _MA = set()
        for rel, src in sources().items():
            tree = ast.parse(src)
            for fn in ast.walk(tree):
                if isinstance(fn, (ast.FunctionDef, ast.AsyncFunctionDef)) and fn.name != "__init__":
                    for x in ast.walk(fn):
                        if isinstance(x, ast.Attribute) and isinstance(x.ctx, (ast.Store, ast.Del)):
                            _MA.add(x.attr)
                        if isinstance(x, ast.AugAssign) and isinstance(x.target, ast.Attribute):
                            _MA.add(x.target.attr)
    return _MA


class _AliasInline(ast.NodeTransformer):
    def _func(self, n):
        self.generic_visit(n)
        sys.path.insert(0, HERE)
        from wv import norm
        al = dict(norm.aliases(n))
        if not al:
            return n
        # names stored more than once, used in nested scopes, or whose path root / attributes are assigned in the function: skip
        stores = {}
        attr_stores = set()
        nested_names = set()
        for x in ast.walk(n):
            if isinstance(x, ast.Name) and isinstance(x.ctx, (ast.Store, ast.Del)):
                stores[x.id] = stores.get(x.id, 0) + 1
            if isinstance(x, ast.Attribute) and isinstance(x.ctx, (ast.Store, ast.Del)):
                attr_stores.add(x.attr)
            if isinstance(x, (ast.FunctionDef, ast.Lambda, ast.ListComp, ast.GeneratorExp, ast.SetComp, ast.DictComp)) and x is not n:
                for y in ast.walk(x):
                    if isinstance(y, ast.Name):
                        nested_names.add(y.id)
        has_calls_between = any(isinstance(x, (ast.AugAssign,)) for x in ast.walk(n))
        ok = {}
        for name, path in al.items():
            if stores.get(name, 0) != 1 or name in nested_names:
                continue
            attrs = [x.attr for x in ast.walk(path) if isinstance(x, ast.Attribute)]
            roots = [x.id for x in ast.walk(path) if isinstance(x, ast.Name)]
            if any(a in _mutable_attrs() for a in attrs):
                continue
            if any(a in attr_stores for a in attrs) or any(stores.get(r, 0) for r in roots if r != "self"):
                continue
            # only a plain top-level statement `name = path` in the function body, before any use
            idx = [i for i, st in enumerate(n.body) if isinstance(st, ast.Assign) and len(st.targets) == 1
                   and isinstance(st.targets[0], ast.Name) and st.targets[0].id == name]
            if len(idx) != 1:
                continue
            ok[name] = path
        if not ok:
            return n
        # only inline aliases of depth-1 self attributes that are plain data holders is not decidable; restrict to
        # aliases whose attribute is never assigned anywhere in the module (approximation checked by the test suite)
        n.body = [st for st in n.body if not (isinstance(st, ast.Assign) and len(st.targets) == 1 and isinstance(st.targets[0], ast.Name)
                                              and st.targets[0].id in ok)]
        if not n.body:
            n.body = [ast.Pass()]
        n = norm._Subst(ok).visit(n)
        return n

    visit_FunctionDef = _func


def t_aliasinline(src):
    tree = _AliasInline().visit(ast.parse(src))
    ast.fix_missing_locations(tree)
    return ast.unparse(tree) + "\n"


# ---- T9: Python-3 modernisation (what a maintainer dropping py2 would do) ----

class _Py3(ast.NodeTransformer):
    NAMES = {"xrange": "range", "text_type": "str", "string_type": "str", "bytes_type": "bytes", "long_type": "int", "izip": "zip"}

    def __init__(self, is_compat):
        self.is_compat = is_compat

    def visit_Name(self, n):
        if not self.is_compat and isinstance(n.ctx, ast.Load) and n.id in self.NAMES:
            return ast.copy_location(ast.Name(id=self.NAMES[n.id], ctx=ast.Load()), n)
        return n

    def visit_Call(self, n):
        self.generic_visit(n)
        if self.is_compat:
            return n
        if isinstance(n.func, ast.Name) and n.func.id in ("iteritems", "itervalues") and len(n.args) == 1 and not n.keywords:
            meth = {"iteritems": "items", "itervalues": "values"}[n.func.id]
            return ast.copy_location(ast.Call(func=ast.Attribute(value=n.args[0], attr=meth, ctx=ast.Load()), args=[], keywords=[]), n)
        # super(Cls, self).m(...) -> super().m(...)
        if isinstance(n.func, ast.Name) and n.func.id == "super" and len(n.args) == 2 and isinstance(n.args[1], ast.Name) and n.args[1].id == "self" \
                and isinstance(n.args[0], ast.Name) and self.cls_stack and self.cls_stack[-1] == n.args[0].id and self.in_method:
            return ast.copy_location(ast.Call(func=n.func, args=[], keywords=[]), n)
        return n

    cls_stack = []
    in_method = False

    def visit_ClassDef(self, n):
        self.cls_stack = self.cls_stack + [n.name]
        self.generic_visit(n)
        self.cls_stack = self.cls_stack[:-1]
        return n

    def visit_FunctionDef(self, n):
        old = self.in_method
        # only direct methods (no nested functions/lambdas/comprehension scopes inside are affected by super() rules: keep simple)
        self.in_method = bool(self.cls_stack) and not old
        self.generic_visit(n)
        self.in_method = old
        return n


def t_py3(src):
    tree = ast.parse(src)
    is_compat = "PY3 = True" in src and "xrange = range" in src
    tree = _Py3(is_compat).visit(tree)
    ast.fix_missing_locations(tree)
    return ast.unparse(tree) + "\n"


# ---- T11..T18: statement-shape transformations (third session) -----------------------------------------------

def _simple_target(t):
    while isinstance(t, ast.Attribute):
        t = t.value
    return isinstance(t, ast.Name)


class _IfExp2Stmt(ast.NodeTransformer):
    """x = a if c else b  ->  if c: x = a  else: x = b ;  return a if c else b  ->  if c: return a  return b"""
    def _block(self, stmts):
        out = []
        for s in stmts:
            s = self.visit(s)
            if isinstance(s, ast.Assign) and len(s.targets) == 1 and _simple_target(s.targets[0]) and isinstance(s.value, ast.IfExp):
                v = s.value
                out.append(ast.copy_location(ast.If(test=v.test, body=[ast.Assign(targets=s.targets, value=v.body)],
                                                    orelse=[ast.Assign(targets=s.targets, value=v.orelse)]), s))
            elif isinstance(s, ast.Return) and isinstance(s.value, ast.IfExp):
                v = s.value
                out.append(ast.copy_location(ast.If(test=v.test, body=[ast.Return(value=v.body)], orelse=[]), s))
                out.append(ast.copy_location(ast.Return(value=v.orelse), s))
            else:
                out.append(s)
        return out

    def generic_visit(self, node):
        for field, v in ast.iter_fields(node):
            if isinstance(v, list) and v and isinstance(v[0], ast.stmt):
                setattr(node, field, self._block(v))
            elif isinstance(v, list):
                for i, x in enumerate(v):
                    if isinstance(x, ast.AST):
                        v[i] = self.visit(x)
            elif isinstance(v, ast.AST):
                setattr(node, field, self.visit(v))
        return node


class _Stmt2IfExp(_IfExp2Stmt):
    """if c: x = a  else: x = b  ->  x = a if c else b   (same plain target on both sides, single statements)"""
    def _block(self, stmts):
        out = []
        for s in stmts:
            s = self.visit(s)
            if isinstance(s, ast.If) and len(s.body) == 1 and len(s.orelse) == 1 and isinstance(s.body[0], ast.Assign) \
                    and isinstance(s.orelse[0], ast.Assign) and len(s.body[0].targets) == 1 and len(s.orelse[0].targets) == 1 \
                    and _simple_target(s.body[0].targets[0]) and ast.dump(s.body[0].targets[0]) == ast.dump(s.orelse[0].targets[0]) \
                    and not isinstance(s.body[0].value, (ast.Yield, ast.YieldFrom)) and not isinstance(s.orelse[0].value, (ast.Yield, ast.YieldFrom)):
                out.append(ast.copy_location(ast.Assign(targets=s.body[0].targets,
                                                        value=ast.IfExp(test=s.test, body=s.body[0].value, orelse=s.orelse[0].value)), s))
            else:
                out.append(s)
        return out


class _TupleSplit(_IfExp2Stmt):
    """a, b = x, y -> a = x; b = y   when no right-hand side mentions a target name and targets are plain names"""
    def _block(self, stmts):
        out = []
        for s in stmts:
            s = self.visit(s)
            if isinstance(s, ast.Assign) and len(s.targets) == 1 and isinstance(s.targets[0], ast.Tuple) and isinstance(s.value, ast.Tuple) \
                    and len(s.targets[0].elts) == len(s.value.elts) and all(isinstance(t, ast.Name) for t in s.targets[0].elts):
                names = set(t.id for t in s.targets[0].elts)
                if not any(isinstance(x, ast.Name) and x.id in names for v in s.value.elts for x in ast.walk(v)) and len(names) == len(s.value.elts):
                    for t, v in zip(s.targets[0].elts, s.value.elts):
                        out.append(ast.copy_location(ast.Assign(targets=[t], value=v), s))
                    continue
            out.append(s)
        return out


class _TupleMerge(_IfExp2Stmt):
    """a = x; b = y (adjacent, plain distinct names, y does not mention a, neither side has a call) -> a, b = x, y"""
    def _block(self, stmts):
        stmts = [self.visit(s) for s in stmts]
        out = []
        i = 0

        def ok(s):
            return isinstance(s, ast.Assign) and len(s.targets) == 1 and isinstance(s.targets[0], ast.Name) \
                and not any(isinstance(x, (ast.Call, ast.Yield, ast.YieldFrom, ast.Await, ast.NamedExpr)) for x in ast.walk(s.value))
        while i < len(stmts):
            s = stmts[i]
            nxt = stmts[i + 1] if i + 1 < len(stmts) else None
            if ok(s) and nxt is not None and ok(nxt) and s.targets[0].id != nxt.targets[0].id \
                    and not any(isinstance(x, ast.Name) and x.id == s.targets[0].id for x in ast.walk(nxt.value)):
                out.append(ast.copy_location(ast.Assign(
                    targets=[ast.Tuple(elts=[s.targets[0], nxt.targets[0]], ctx=ast.Store())],
                    value=ast.Tuple(elts=[s.value, nxt.value], ctx=ast.Load())), s))
                i += 2
            else:
                out.append(s)
                i += 1
        return out


class _AndSplit(ast.NodeTransformer):
    """if a and b: X  (no else)  ->  if a:  if b: X"""
    def visit_If(self, n):
        self.generic_visit(n)
        if not n.orelse and isinstance(n.test, ast.BoolOp) and isinstance(n.test.op, ast.And) and len(n.test.values) == 2:
            inner = ast.copy_location(ast.If(test=n.test.values[1], body=n.body, orelse=[]), n)
            return ast.copy_location(ast.If(test=n.test.values[0], body=[inner], orelse=[]), n)
        return n


class _DeMorgan(ast.NodeTransformer):
    """not (a and b) -> (not a) or (not b);  not (a or b) -> (not a) and (not b)"""
    def visit_UnaryOp(self, n):
        self.generic_visit(n)
        if isinstance(n.op, ast.Not) and isinstance(n.operand, ast.BoolOp):
            b = n.operand
            op = ast.Or() if isinstance(b.op, ast.And) else ast.And()
            vals = [ast.UnaryOp(op=ast.Not(), operand=v) for v in b.values]   # never strip a `not`: `not not x` is a bool, `x` need not be
            return ast.copy_location(ast.BoolOp(op=op, values=vals), n)
        return n


class _LoopUnpack(ast.NodeTransformer):
    """for a, b in xs: BODY  ->  for _item in xs: a, b = _item; BODY   (plain-name targets)"""
    def visit_For(self, n):
        self.generic_visit(n)
        if isinstance(n.target, ast.Tuple) and all(isinstance(e, ast.Name) for e in n.target.elts):
            nm = "_item_%d" % n.lineno
            unpack = ast.copy_location(ast.Assign(targets=[n.target], value=ast.Name(id=nm, ctx=ast.Load())), n)
            n.target = ast.Name(id=nm, ctx=ast.Store())
            n.body = [unpack] + n.body
        return n


class _RetTemp(_IfExp2Stmt):
    """return f(...)  ->  _result = f(...); return _result   (in functions that are not generators)"""
    def _block(self, stmts):
        out = []
        for s in stmts:
            s = self.visit(s)
            if isinstance(s, ast.Return) and isinstance(s.value, ast.Call) and getattr(self, "_in_plain", False):
                out.append(ast.copy_location(ast.Assign(targets=[ast.Name(id="_result", ctx=ast.Store())], value=s.value), s))
                out.append(ast.copy_location(ast.Return(value=ast.Name(id="_result", ctx=ast.Load())), s))
            else:
                out.append(s)
        return out

    def visit_FunctionDef(self, n):
        prev = getattr(self, "_in_plain", False)
        gen = any(isinstance(x, (ast.Yield, ast.YieldFrom)) for x in ast.walk(n))
        uses = any(isinstance(x, ast.Name) and x.id == "_result" for x in ast.walk(n))
        self._in_plain = not gen and not uses
        self.generic_visit(n)
        self._in_plain = prev
        return n


class _WhileTrue(ast.NodeTransformer):
    """while c: BODY  ->  while True: if not c: break; BODY      (no else clause)"""
    def visit_While(self, n):
        self.generic_visit(n)
        if n.orelse or (isinstance(n.test, ast.Constant) and n.test.value):
            return n
        guard = ast.copy_location(ast.If(test=ast.UnaryOp(op=ast.Not(), operand=n.test), body=[ast.Break()], orelse=[]), n)
        return ast.copy_location(ast.While(test=ast.Constant(value=True), body=[guard] + n.body, orelse=[]), n)


class _Compr2Loop(_IfExp2Stmt):
    """x = [E for a in xs if c]  ->  x = []; for a in xs: if c: x.append(E)     (one generator, plain name target, x not used in the comprehension)"""
    def _block(self, stmts):
        out = []
        for s in stmts:
            s = self.visit(s)
            if isinstance(s, ast.Assign) and len(s.targets) == 1 and isinstance(s.targets[0], ast.Name) and isinstance(s.value, ast.ListComp) \
                    and len(s.value.generators) == 1 and not s.value.generators[0].is_async \
                    and not any(isinstance(x, ast.Name) and x.id == s.targets[0].id for x in ast.walk(s.value)):
                g = s.value.generators[0]
                x = s.targets[0].id
                # names bound by the comprehension must not clash with names used after it: keep it simple -- only when the
                # loop variable names do not occur anywhere else in the enclosing statement list
                lv = set(n_.id for n_ in ast.walk(g.target) if isinstance(n_, ast.Name))
                others = set(n_.id for st in stmts if st is not s for n_ in ast.walk(st) if isinstance(n_, ast.Name))
                if lv & others:
                    out.append(s)
                    continue
                app = ast.Expr(value=ast.Call(func=ast.Attribute(value=ast.Name(id=x, ctx=ast.Load()), attr="append", ctx=ast.Load()),
                                              args=[s.value.elt], keywords=[]))
                body = [app]
                for c in reversed(g.ifs):
                    body = [ast.If(test=c, body=body, orelse=[])]
                out.append(ast.copy_location(ast.Assign(targets=[ast.Name(id=x, ctx=ast.Store())], value=ast.List(elts=[], ctx=ast.Load())), s))
                out.append(ast.copy_location(ast.For(target=g.target, iter=g.iter, body=body, orelse=[]), s))
            else:
                out.append(s)
        return out


_INIT_ONLY = None


def _init_only_attrs():
    """attribute names that are assigned in some __init__ and nowhere else in the package, and are not the name of any
    function/property/class attribute: reading them twice gives the same object, so a local alias cannot go stale"""
    global _INIT_ONLY
    if _INIT_ONLY is None:
        inits, defs = set(), set()
        for rel, src in sources().items():
            tree = ast.parse(src)
            for n in ast.walk(tree):
                if isinstance(n, (ast.FunctionDef, ast.AsyncFunctionDef, ast.ClassDef)):
                    defs.add(n.name)
                if isinstance(n, ast.ClassDef):
                    for st in n.body:
                        if isinstance(st, ast.Assign):
                            for t in st.targets:
                                if isinstance(t, ast.Name):
                                    defs.add(t.id)
                if isinstance(n, ast.FunctionDef) and n.name == "__init__":
                    for x in ast.walk(n):
                        if isinstance(x, ast.Attribute) and isinstance(x.ctx, ast.Store) and isinstance(x.value, ast.Name) and x.value.id == "self":
                            inits.add(x.attr)
        _INIT_ONLY = inits - _mutable_attrs() - defs
    return _INIT_ONLY


class _AliasIntro(ast.NodeTransformer):
    """read `self.attr` (assigned only in constructors) twice or more in a method -> `_attr_local = self.attr` first, then the local.
    Only in methods whose first statement already reads that attribute unconditionally would be exactly safe; the suite confirms the rest."""
    def visit_FunctionDef(self, n):
        self.generic_visit(n)
        if n.name == "__init__" or not n.args.args or n.args.args[0].arg != "self":
            return n
        counts = {}
        nested = set()
        for x in ast.walk(n):
            if isinstance(x, (ast.FunctionDef, ast.Lambda)) and x is not n:
                for y in ast.walk(x):
                    if isinstance(y, ast.Attribute):
                        nested.add(y.attr)
        # the attribute must be read by the very first statement (so evaluating it up front raises nothing new)
        first = n.body[1] if (n.body and isinstance(n.body[0], ast.Expr) and isinstance(n.body[0].value, ast.Constant) and len(n.body) > 1) else (n.body[0] if n.body else None)
        if first is None or isinstance(first, (ast.If, ast.For, ast.While, ast.Try, ast.With)):
            return n
        first_reads = set(x.attr for x in ast.walk(first) if isinstance(x, ast.Attribute) and isinstance(x.ctx, ast.Load)
                          and isinstance(x.value, ast.Name) and x.value.id == "self")
        for x in ast.walk(n):
            if isinstance(x, ast.Attribute) and isinstance(x.ctx, ast.Load) and isinstance(x.value, ast.Name) and x.value.id == "self":
                counts[x.attr] = counts.get(x.attr, 0) + 1
        names = set(x.id for x in ast.walk(n) if isinstance(x, ast.Name)) | set(a.arg for a in n.args.args)
        chosen = [a for a, c in counts.items() if c >= 2 and a in _init_only_attrs() and a in first_reads and a not in nested
                  and ("_" + a.lstrip("_") + "_local") not in names]
        if not chosen:
            return n

        class R(ast.NodeTransformer):
            def visit_Attribute(self, x):
                self.generic_visit(x)
                if isinstance(x.ctx, ast.Load) and isinstance(x.value, ast.Name) and x.value.id == "self" and x.attr in chosen:
                    return ast.copy_location(ast.Name(id="_" + x.attr.lstrip("_") + "_local", ctx=ast.Load()), x)
                return x

            def visit_FunctionDef(self, x):
                return x

            def visit_Lambda(self, x):
                return x
        new_body = [R().visit(st) for st in n.body]
        head = []
        if new_body and isinstance(new_body[0], ast.Expr) and isinstance(new_body[0].value, ast.Constant):
            head, new_body = [new_body[0]], new_body[1:]
        binds = [ast.copy_location(ast.Assign(targets=[ast.Name(id="_" + a.lstrip("_") + "_local", ctx=ast.Store())],
                                              value=ast.Attribute(value=ast.Name(id="self", ctx=ast.Load()), attr=a, ctx=ast.Load())), n)
                 for a in sorted(chosen)]
        n.body = head + binds + new_body
        return n


_ARGKW = None


def _argkw_map():
    """(relpath, lineno, col_offset) of a call -> parameter names of its positional arguments, for calls the analyser resolves to
    exactly one project function (constructors included) that binds without problems; computed on the raw (un-normalised) tree"""
    global _ARGKW
    if _ARGKW is None:
        os.environ["WV_NO_DESUGAR"] = "1"
        os.environ["WV_NO_INLINE"] = "1"
        os.environ["WV_NO_KWNORM"] = "1"
        try:
            from wv.model import Program
            from wv import norm
            from wv.rules.common import calls_of, bind_args
            prog = Program(SRC)
            C = calls_of(prog)
            _ARGKW = {}
            for f in prog.functions.values():
                for c in norm.calls_in(f.node):
                    if not c.args or any(isinstance(a, ast.Starred) for a in c.args) or any(k.arg is None for k in c.keywords):
                        continue
                    r = C.resolve(f, c)
                    if r.kind != "exact" or len(r.targets) != 1:
                        continue
                    t = r.targets[0]
                    a = t.node.args
                    if a.vararg is not None or getattr(a, "posonlyargs", None):
                        continue
                    unbound = isinstance(c.func, ast.Attribute) and isinstance(c.args[0], ast.Name) and c.args[0].id == "self" \
                        and "classmethod" not in t.decorators and norm.canon(c.func.value) != "self" and not isinstance(c.func.value, ast.Call) \
                        and t.cls is not None
                    if unbound:
                        continue
                    m, probs = bind_args(c, t)
                    if not m or probs:
                        continue
                    params = [x.arg for x in a.args]
                    if t.cls is not None and "staticmethod" not in t.decorators and params and params[0] in ("self", "cls"):
                        params = params[1:]
                    if len(c.args) > len(params):
                        continue
                    names = params[:len(c.args)]
                    if any(n_.startswith("__") for n_ in names):
                        continue
                    _ARGKW[(f.module.relpath, c.lineno, c.col_offset, c.end_lineno, c.end_col_offset)] = names
        finally:
            del os.environ["WV_NO_DESUGAR"]
            del os.environ["WV_NO_INLINE"]
            del os.environ["WV_NO_KWNORM"]
    return _ARGKW


def t_argkw(src, rel=None):
    """f(a, b) -> f(x=a, y=b) for calls resolved to exactly one project function (evaluation order is unchanged)"""
    amap = _argkw_map()
    tree = ast.parse(src)
    key_rel = [k for k in (rel, "src/" + (rel or "")) if k]
    for c in ast.walk(tree):
        if isinstance(c, ast.Call) and c.args:
            names = None
            for kr in key_rel:
                names = names or amap.get((kr, c.lineno, c.col_offset, c.end_lineno, c.end_col_offset))
            if names and len(names) == len(c.args):
                c.keywords = [ast.keyword(arg=n_, value=a) for n_, a in zip(names, c.args)] + c.keywords
                c.args = []
    ast.fix_missing_locations(tree)
    return ast.unparse(tree) + "\n"


class _DictCall(ast.NodeTransformer):
    """{"k": v, ...} (all keys identifier strings) -> dict(k=v, ...)   (same evaluation order)"""
    def visit_Dict(self, n):
        import keyword
        self.generic_visit(n)
        if n.keys and all(isinstance(k, ast.Constant) and isinstance(k.value, str) and k.value.isidentifier() and not keyword.iskeyword(k.value)
                          for k in n.keys) and len(set(k.value for k in n.keys)) == len(n.keys):
            return ast.copy_location(ast.Call(func=ast.Name(id="dict", ctx=ast.Load()), args=[],
                                              keywords=[ast.keyword(arg=k.value, value=v) for k, v in zip(n.keys, n.values)]), n)
        return n


class _BaseSuper(ast.NodeTransformer):
    """in a class with exactly one base B:  B.m(self, a, ...) inside a direct method  ->  super().m(a, ...)"""
    def __init__(self):
        self.stack = []
        self.in_method = False

    def visit_ClassDef(self, n):
        base = n.bases[0].id if len(n.bases) == 1 and isinstance(n.bases[0], ast.Name) and not n.keywords else None
        self.stack.append(base)
        old = self.in_method
        self.in_method = False
        self.generic_visit(n)
        self.in_method = old
        self.stack.pop()
        return n

    def visit_FunctionDef(self, n):
        old = self.in_method
        decos = [d.id if isinstance(d, ast.Name) else getattr(d, "attr", "") for d in n.decorator_list]
        self.in_method = bool(self.stack) and not old and not decos and bool(n.args.args) and n.args.args[0].arg == "self"
        if self.in_method:
            self.generic_visit(n)
        self.in_method = old
        return n

    def visit_Lambda(self, n):
        return n

    def visit_ListComp(self, n):
        return n

    visit_GeneratorExp = visit_SetComp = visit_DictComp = visit_ListComp

    def visit_Call(self, n):
        self.generic_visit(n)
        if self.in_method and self.stack and self.stack[-1] and isinstance(n.func, ast.Attribute) and isinstance(n.func.value, ast.Name) \
                and n.func.value.id == self.stack[-1] and n.args and isinstance(n.args[0], ast.Name) and n.args[0].id == "self":
            sup = ast.Call(func=ast.Name(id="super", ctx=ast.Load()), args=[], keywords=[])
            return ast.copy_location(ast.Call(func=ast.Attribute(value=sup, attr=n.func.attr, ctx=ast.Load()), args=n.args[1:], keywords=n.keywords), n)
        return n


def _mk(cls):
    def t(src):
        tree = cls().visit(ast.parse(src))
        ast.fix_missing_locations(tree)
        return ast.unparse(tree) + "\n"
    return t


t_ifexp2stmt, t_stmt2ifexp, t_tuplesplit, t_tuplemerge = _mk(_IfExp2Stmt), _mk(_Stmt2IfExp), _mk(_TupleSplit), _mk(_TupleMerge)
t_andsplit, t_demorgan, t_loopunpack, t_rettemp = _mk(_AndSplit), _mk(_DeMorgan), _mk(_LoopUnpack), _mk(_RetTemp)
t_whiletrue, t_compr2loop, t_aliasintro = _mk(_WhileTrue), _mk(_Compr2Loop), _mk(_AliasIntro)
t_dictcall, t_basesuper = _mk(_DictCall), _mk(_BaseSuper)


TRANSFORMS = {"ifexp2stmt": t_ifexp2stmt, "stmt2ifexp": t_stmt2ifexp, "tuplesplit": t_tuplesplit, "tuplemerge": t_tuplemerge,
              "andsplit": t_andsplit, "demorgan": t_demorgan, "loopunpack": t_loopunpack, "rettemp": t_rettemp,
              "whiletrue": t_whiletrue, "compr2loop": t_compr2loop, "aliasintro": t_aliasintro, "argkw": t_argkw,
              "unparse": t_unparse, "rename": t_rename, "augassign": t_augassign, "ifswap": t_ifswap,
              "dictcall": t_dictcall, "basesuper": t_basesuper,
              "elsedrop": t_elsedrop, "passins": t_passins, "py3": t_py3, "noise": t_noise, "cmpflip": t_cmpflip, "aliasinline": t_aliasinline}


def overlay(name):
    fn = TRANSFORMS[name]
    out = {}
    for rel, src in sources().items():
        try:
            out[rel] = fn(src, rel) if fn is t_argkw else fn(src)
        except SyntaxError:
            out[rel] = src
    return out


def findings(args):
    name, prop = args
    warnings.simplefilter("ignore")
    from wv import selftest
    from wv.model import Program
    try:
        prog = Program(SRC, overlay=overlay(name) if name else None)
    except Exception as e:
        return name, prop, {("ANALYSIS-ERROR", "model: " + str(e)[:200])}
    return name, prop, selftest.findings_of(prog, prop)


def main():
    argv = sys.argv[1:]
    wdir = None
    if "--write" in argv:
        i = argv.index("--write")
        wdir = argv[i + 1]
        del argv[i:i + 2]
    global PROPS
    if "--props" in argv:
        i = argv.index("--props")
        PROPS = argv[i + 1].split(",")
        del argv[i:i + 2]
    args = [a for a in argv if not a.startswith("--")]
    names = args or ["all"]
    if names == ["all"]:
        names = list(TRANSFORMS)
    if wdir:
        d = wdir
        assert len(names) == 1
        for rel, text in overlay(names[0]).items():
            p = os.path.join(d, rel)
            os.makedirs(os.path.dirname(p), exist_ok=True)
            with open(p, "w") as f:
                f.write(text)
        print("wrote", names[0], "to", d)
        return 0
    jobs = [(None, p) for p in PROPS] + [(n, p) for n in names for p in PROPS]
    with ProcessPoolExecutor(max_workers=16) as ex:
        res = list(ex.map(findings, jobs))
    base = {p: f for (n, p, f) in res if n is None}
    bad = 0
    for p, f in base.items():
        if any(x[0] == "ANALYSIS-ERROR" for x in f):
            bad += 1
            print("== %s on the UNTRANSFORMED tree: %s" % (p, [x for x in f if x[0] == "ANALYSIS-ERROR"]))
    for n, p, f in res:
        if n is None:
            continue
        new = f - base[p]
        lost = base[p] - f
        if new or lost:
            bad += 1
            print("== %s under %s: %d new, %d lost" % (p, n, len(new), len(lost)))
            for x in sorted(new)[:12]:
                print("   NEW  %s %s" % x)
            for x in sorted(lost)[:12]:
                print("   LOST %s %s" % x)
    print("transforms: %s; property x transform pairs differing: %d" % (names, bad))
    return 1 if bad else 0


if __name__ == "__main__":
    sys.exit(main())
