#!/venv/bin/python
"""Must-stay-silent harness: apply behaviour-preserving whole-tree transformations
to the whoosh sources (in memory, or written to a scratch directory with --write so
that the test suite can confirm they preserve behaviour) and compare every
property's findings with the findings on the untransformed tree.

  tools/robust.py [unparse|rename|augassign|ifswap|all] [--write DIR]

A difference (new finding, lost finding, ANALYSIS-ERROR) is printed; the checks are
supposed to be invariant under all of these.
"""
import ast
import builtins
import os
import sys
import warnings
from concurrent.futures import ProcessPoolExecutor

warnings.simplefilter("ignore")
HERE = os.path.dirname(os.path.dirname(os.path.abspath(__file__)))
sys.path.insert(0, HERE)

SRC = os.environ.get("WV_SRC_ROOT", "/repo/src")
PROPS = ["C%02d" % i for i in range(1, 21)]


def sources():
    out = {}
    for dp, dn, fn in os.walk(os.path.join(SRC, "whoosh")):
        for f in fn:
            if f.endswith(".py"):
                p = os.path.join(dp, f)
                rel = os.path.relpath(p, SRC)
                with open(p, "rb") as fh:
                    out[rel] = fh.read().decode("utf-8", "replace").replace("\r\n", "\n")
    return out


# ---- T1: reformat -----------------------------------------------------------

def t_unparse(src):
    return ast.unparse(ast.parse(src)) + "\n"


# ---- T2: alpha-rename function locals ---------------------------------------

class _Binder(ast.NodeVisitor):
    """names bound in one function scope (not descending into nested scopes)."""

    def __init__(self):
        self.bound = set()
        self.declared = set()
        self.bad = False

    def visit_FunctionDef(self, n):
        self.bound.add(n.name)  # nested def binds its name; do not rename it (may be looked up by name)
        self.declared.add(n.name)

    visit_AsyncFunctionDef = visit_FunctionDef

    def visit_ClassDef(self, n):
        self.bad = True

    def visit_Lambda(self, n):
        pass

    def _comp(self, n):
        # the first iterable is evaluated in the enclosing scope
        self.visit(n.generators[0].iter)

    visit_ListComp = visit_SetComp = visit_DictComp = visit_GeneratorExp = _comp

    def visit_Global(self, n):
        self.declared.update(n.names)

    visit_Nonlocal = visit_Global

    def visit_Name(self, n):
        if isinstance(n.ctx, (ast.Store, ast.Del)):
            self.bound.add(n.id)
        if n.id in ("locals", "vars", "eval", "exec", "dir"):
            self.bad = True

    def visit_Import(self, n):
        for a in n.names:
            self.declared.add((a.asname or a.name).split(".")[0])

    visit_ImportFrom = visit_Import

    def visit_ExceptHandler(self, n):
        if n.name:
            self.declared.add(n.name)  # keep simple: do not rename
        self.generic_visit(n)

    def visit_NamedExpr(self, n):
        self.bad = True


def _params(fn):
    a = fn.args
    names = [x.arg for x in a.posonlyargs + a.args + a.kwonlyargs]
    if a.vararg:
        names.append(a.vararg.arg)
    if a.kwarg:
        names.append(a.kwarg.arg)
    return set(names)


class _Renamer(ast.NodeTransformer):
    def __init__(self, suffix):
        self.suffix = suffix
        self.env = [{}]  # stack of {old: new}

    def cur(self, name):
        for d in reversed(self.env):
            if name in d:
                return d[name]
        return name

    def _func(self, n):
        b = _Binder()
        for s in n.body:
            b.visit(s)
        params = _params(n)
        # defaults/decorators evaluated outside
        n.args.defaults = [self.visit(d) for d in n.args.defaults]
        n.args.kw_defaults = [self.visit(d) if d is not None else None for d in n.args.kw_defaults]
        n.decorator_list = [self.visit(d) for d in n.decorator_list]
        m = {}
        # names bound here shadow outer renames
        for nm in b.bound | params | b.declared:
            m[nm] = nm
        if not b.bad:
            for nm in b.bound - params - b.declared:
                if nm.startswith("__") or hasattr(builtins, nm):
                    continue
                m[nm] = nm + self.suffix
        self.env.append(m)
        n.body = [self.visit(s) for s in n.body]
        self.env.pop()
        return n

    visit_FunctionDef = _func
    visit_AsyncFunctionDef = _func

    def visit_Lambda(self, n):
        n.args.defaults = [self.visit(d) for d in n.args.defaults]
        self.env.append({p: p for p in _params(n)})
        n.body = self.visit(n.body)
        self.env.pop()
        return n

    def _comp(self, n):
        # comprehension targets are local to the comprehension: shadow them
        tg = set()
        for g in n.generators:
            for x in ast.walk(g.target):
                if isinstance(x, ast.Name):
                    tg.add(x.id)
        first = self.visit(n.generators[0].iter)
        self.env.append({t: t for t in tg})
        n.generators[0].iter = first
        for i, g in enumerate(n.generators):
            g.target = self.visit(g.target)
            if i:
                g.iter = self.visit(g.iter)
            g.ifs = [self.visit(x) for x in g.ifs]
        if isinstance(n, ast.DictComp):
            n.key = self.visit(n.key)
            n.value = self.visit(n.value)
        else:
            n.elt = self.visit(n.elt)
        self.env.pop()
        return n

    visit_ListComp = visit_SetComp = visit_DictComp = visit_GeneratorExp = _comp

    def visit_ClassDef(self, n):
        # class body: a scope of its own; names are attributes -> never renamed; nested functions see outer env
        n.bases = [self.visit(b) for b in n.bases]
        n.decorator_list = [self.visit(d) for d in n.decorator_list]
        b = _Binder()
        for s in n.body:
            if not isinstance(s, (ast.FunctionDef, ast.ClassDef)):
                b.visit(s)
        # class-level names are NOT visible in methods; but at class level they shadow
        new_body = []
        for s in n.body:
            if isinstance(s, (ast.FunctionDef, ast.AsyncFunctionDef, ast.ClassDef)):
                new_body.append(self.visit(s))
            else:
                self.env.append({nm: nm for nm in b.bound | b.declared})
                new_body.append(self.visit(s))
                self.env.pop()
        n.body = new_body
        return n

    def visit_Name(self, n):
        n.id = self.cur(n.id)
        return n


def t_rename(src, suffix="_rn"):
    tree = ast.parse(src)
    tree = _Renamer(suffix).visit(tree)
    ast.fix_missing_locations(tree)
    return ast.unparse(tree) + "\n"


# ---- T3: x += e  <->  x = x + e  (plain names of int-like counters only when e is a literal) ----

class _Aug(ast.NodeTransformer):
    def visit_AugAssign(self, n):
        self.generic_visit(n)
        if isinstance(n.target, ast.Name) and isinstance(n.op, (ast.Add, ast.Sub)) and isinstance(n.value, ast.Constant) \
                and isinstance(n.value.value, int):
            return ast.copy_location(ast.Assign(targets=[ast.Name(id=n.target.id, ctx=ast.Store())],
                                                value=ast.BinOp(left=ast.Name(id=n.target.id, ctx=ast.Load()), op=n.op, right=n.value)), n)
        return n


def t_augassign(src):
    tree = _Aug().visit(ast.parse(src))
    ast.fix_missing_locations(tree)
    return ast.unparse(tree) + "\n"


# ---- T4: if c: A else: B  ->  if not c: B else: A  (only when both branches non-empty, no elif chain) ----

class _IfSwap(ast.NodeTransformer):
    def visit_If(self, n):
        self.generic_visit(n)
        if n.orelse and not (len(n.orelse) == 1 and isinstance(n.orelse[0], ast.If)) and \
                not (len(n.body) == 1 and isinstance(n.body[0], ast.If)):
            t = n.test
            if isinstance(t, ast.UnaryOp) and isinstance(t.op, ast.Not):
                nt = t.operand
            else:
                nt = ast.UnaryOp(op=ast.Not(), operand=t)
            return ast.copy_location(ast.If(test=nt, body=n.orelse, orelse=n.body), n)
        return n


def t_ifswap(src):
    tree = _IfSwap().visit(ast.parse(src))
    ast.fix_missing_locations(tree)
    return ast.unparse(tree) + "\n"


# ---- T5: return-early normalisation: trailing `else:` after a branch that returns is unindented ----

def _terminates(body):
    return bool(body) and isinstance(body[-1], (ast.Return, ast.Raise, ast.Continue, ast.Break))


class _ElseDrop(ast.NodeTransformer):
    def _block(self, stmts):
        out = []
        for s in stmts:
            s = self.visit(s)
            if isinstance(s, ast.If) and s.orelse and _terminates(s.body) and \
                    not (len(s.orelse) == 1 and isinstance(s.orelse[0], ast.If)):
                tail = s.orelse
                s.orelse = []
                out.append(s)
                out.extend(tail)
            else:
                out.append(s)
        return out

    def generic_visit(self, node):
        for field in ("body", "orelse", "finalbody"):
            v = getattr(node, field, None)
            if isinstance(v, list) and v and isinstance(v[0], ast.stmt):
                setattr(node, field, self._block(v))
        if isinstance(node, ast.Try):
            for h in node.handlers:
                h.body = self._block(h.body)
        for field, v in ast.iter_fields(node):
            if field in ("body", "orelse", "finalbody", "handlers"):
                continue
            if isinstance(v, list):
                for i, x in enumerate(v):
                    if isinstance(x, ast.AST):
                        v[i] = self.visit(x)
            elif isinstance(v, ast.AST):
                setattr(node, field, self.visit(v))
        return node


def t_elsedrop(src):
    tree = _ElseDrop().visit(ast.parse(src))
    ast.fix_missing_locations(tree)
    return ast.unparse(tree) + "\n"


# ---- T6: insert a no-op statement at the start of every block ----

class _PassIns(ast.NodeTransformer):
    def generic_visit(self, node):
        super().generic_visit(node)
        for field in ("body", "orelse", "finalbody"):
            v = getattr(node, field, None)
            if isinstance(v, list) and v and isinstance(v[0], ast.stmt) and not isinstance(node, (ast.Module, ast.ClassDef)):
                # keep docstrings first
                i = 1 if (field == "body" and isinstance(node, (ast.FunctionDef, ast.AsyncFunctionDef)) and isinstance(v[0], ast.Expr)
                          and isinstance(v[0].value, ast.Constant) and isinstance(v[0].value.value, str)) else 0
                if field == "orelse" and len(v) == 1 and isinstance(v[0], ast.If):
                    continue  # keep elif chains
                v.insert(i, ast.Pass())
        if isinstance(node, ast.Try):
            for h in node.handlers:
                h.body.insert(0, ast.Pass())
        return node


class _NoiseIns(_PassIns):
    pass


def t_noise(src):
    """like passins, but with a pure call statement the normaliser cannot drop (stands for logging / assertions)."""
    tree = _PassIns().visit(ast.parse(src))

    class R(ast.NodeTransformer):
        def visit_Pass(self, n):
            return ast.copy_location(ast.Expr(value=ast.Call(func=ast.Name(id="isinstance", ctx=ast.Load()),
                                                             args=[ast.Constant(value=0), ast.Name(id="int", ctx=ast.Load())], keywords=[])), n)
    # only the inserted ones: original `pass` statements are sole statements of their block and are kept by _PassIns as second statements
    tree = R().visit(tree)
    ast.fix_missing_locations(tree)
    return ast.unparse(tree) + "\n"


def t_passins(src):
    tree = _PassIns().visit(ast.parse(src))
    ast.fix_missing_locations(tree)
    return ast.unparse(tree) + "\n"


# ---- T7: flip comparisons / swap == operands (pure operands only) ----

def _pure(e):
    return all(isinstance(x, (ast.Name, ast.Attribute, ast.Constant, ast.Subscript, ast.Load, ast.Slice, ast.UnaryOp, ast.USub, ast.Tuple))
               for x in ast.walk(e))


class _CmpFlip(ast.NodeTransformer):
    FL = {ast.Lt: ast.Gt, ast.Gt: ast.Lt, ast.LtE: ast.GtE, ast.GtE: ast.LtE, ast.Eq: ast.Eq, ast.NotEq: ast.NotEq}

    def visit_Compare(self, n):
        self.generic_visit(n)
        if len(n.ops) == 1 and type(n.ops[0]) in self.FL and _pure(n.left) and _pure(n.comparators[0]):
            return ast.copy_location(ast.Compare(left=n.comparators[0], ops=[self.FL[type(n.ops[0])]()], comparators=[n.left]), n)
        return n


def t_cmpflip(src):
    tree = _CmpFlip().visit(ast.parse(src))
    ast.fix_missing_locations(tree)
    return ast.unparse(tree) + "\n"


# ---- T8: inline single-assignment path aliases (x = self.a ... x.f()  ->  self.a.f()) when nothing on the path is rebound ----

_MA = None


def _mutable_attrs():
    """attribute names assigned anywhere outside an __init__ (package-wide): aliases of those are not inlined;
    also method names (an alias of a bound method is fine to inline, but keep it simple) are allowed."""
    global _MA
    if _MA is None:
        _MA = set()
        for rel, src in sources().items():
            tree = ast.parse(src)
            for fn in ast.walk(tree):
                if isinstance(fn, (ast.FunctionDef, ast.AsyncFunctionDef)) and fn.name != "__init__":
                    for x in ast.walk(fn):
                        if isinstance(x, ast.Attribute) and isinstance(x.ctx, (ast.Store, ast.Del)):
                            _MA.add(x.attr)
                        if isinstance(x, ast.AugAssign) and isinstance(x.target, ast.Attribute):
                            _MA.add(x.target.attr)
    return _MA


class _AliasInline(ast.NodeTransformer):
    def _func(self, n):
        self.generic_visit(n)
        sys.path.insert(0, HERE)
        from wv import norm
        al = dict(norm.aliases(n))
        if not al:
            return n
        # names stored more than once, used in nested scopes, or whose path root / attributes are assigned in the function: skip
        stores = {}
        attr_stores = set()
        nested_names = set()
        for x in ast.walk(n):
            if isinstance(x, ast.Name) and isinstance(x.ctx, (ast.Store, ast.Del)):
                stores[x.id] = stores.get(x.id, 0) + 1
            if isinstance(x, ast.Attribute) and isinstance(x.ctx, (ast.Store, ast.Del)):
                attr_stores.add(x.attr)
            if isinstance(x, (ast.FunctionDef, ast.Lambda, ast.ListComp, ast.GeneratorExp, ast.SetComp, ast.DictComp)) and x is not n:
                for y in ast.walk(x):
                    if isinstance(y, ast.Name):
                        nested_names.add(y.id)
        has_calls_between = any(isinstance(x, (ast.AugAssign,)) for x in ast.walk(n))
        ok = {}
        for name, path in al.items():
            if stores.get(name, 0) != 1 or name in nested_names:
                continue
            attrs = [x.attr for x in ast.walk(path) if isinstance(x, ast.Attribute)]
            roots = [x.id for x in ast.walk(path) if isinstance(x, ast.Name)]
            if any(a in _mutable_attrs() for a in attrs):
                continue
            if any(a in attr_stores for a in attrs) or any(stores.get(r, 0) for r in roots if r != "self"):
                continue
            # only a plain top-level statement `name = path` in the function body, before any use
            idx = [i for i, st in enumerate(n.body) if isinstance(st, ast.Assign) and len(st.targets) == 1
                   and isinstance(st.targets[0], ast.Name) and st.targets[0].id == name]
            if len(idx) != 1:
                continue
            ok[name] = path
        if not ok:
            return n
        # only inline aliases of depth-1 self attributes that are plain data holders is not decidable; restrict to
        # aliases whose attribute is never assigned anywhere in the module (approximation checked by the test suite)
        n.body = [st for st in n.body if not (isinstance(st, ast.Assign) and len(st.targets) == 1 and isinstance(st.targets[0], ast.Name)
                                              and st.targets[0].id in ok)]
        if not n.body:
            n.body = [ast.Pass()]
        n = norm._Subst(ok).visit(n)
        return n

    visit_FunctionDef = _func


def t_aliasinline(src):
    tree = _AliasInline().visit(ast.parse(src))
    ast.fix_missing_locations(tree)
    return ast.unparse(tree) + "\n"


# ---- T9: Python-3 modernisation (what a maintainer dropping py2 would do) ----

class _Py3(ast.NodeTransformer):
    NAMES = {"xrange": "range", "text_type": "str", "string_type": "str", "bytes_type": "bytes", "long_type": "int", "izip": "zip"}

    def __init__(self, is_compat):
        self.is_compat = is_compat

    def visit_Name(self, n):
        if not self.is_compat and isinstance(n.ctx, ast.Load) and n.id in self.NAMES:
            return ast.copy_location(ast.Name(id=self.NAMES[n.id], ctx=ast.Load()), n)
        return n

    def visit_Call(self, n):
        self.generic_visit(n)
        if self.is_compat:
            return n
        if isinstance(n.func, ast.Name) and n.func.id in ("iteritems", "itervalues") and len(n.args) == 1 and not n.keywords:
            meth = {"iteritems": "items", "itervalues": "values"}[n.func.id]
            return ast.copy_location(ast.Call(func=ast.Attribute(value=n.args[0], attr=meth, ctx=ast.Load()), args=[], keywords=[]), n)
        # super(Cls, self).m(...) -> super().m(...)
        if isinstance(n.func, ast.Name) and n.func.id == "super" and len(n.args) == 2 and isinstance(n.args[1], ast.Name) and n.args[1].id == "self" \
                and isinstance(n.args[0], ast.Name) and self.cls_stack and self.cls_stack[-1] == n.args[0].id and self.in_method:
            return ast.copy_location(ast.Call(func=n.func, args=[], keywords=[]), n)
        return n

    cls_stack = []
    in_method = False

    def visit_ClassDef(self, n):
        self.cls_stack = self.cls_stack + [n.name]
        self.generic_visit(n)
        self.cls_stack = self.cls_stack[:-1]
        return n

    def visit_FunctionDef(self, n):
        old = self.in_method
        # only direct methods (no nested functions/lambdas/comprehension scopes inside are affected by super() rules: keep simple)
        self.in_method = bool(self.cls_stack) and not old
        self.generic_visit(n)
        self.in_method = old
        return n


def t_py3(src):
    tree = ast.parse(src)
    is_compat = "PY3 = True" in src and "xrange = range" in src
    tree = _Py3(is_compat).visit(tree)
    ast.fix_missing_locations(tree)
    return ast.unparse(tree) + "\n"


TRANSFORMS = {"unparse": t_unparse, "rename": t_rename, "augassign": t_augassign, "ifswap": t_ifswap,
              "elsedrop": t_elsedrop, "passins": t_passins, "py3": t_py3, "noise": t_noise, "cmpflip": t_cmpflip, "aliasinline": t_aliasinline}


def overlay(name):
    fn = TRANSFORMS[name]
    out = {}
    for rel, src in sources().items():
        try:
            out[rel] = fn(src)
        except SyntaxError:
            out[rel] = src
    return out


def findings(args):
    name, prop = args
    warnings.simplefilter("ignore")
    from wv import selftest
    from wv.model import Program
    try:
        prog = Program(SRC, overlay=overlay(name) if name else None)
    except Exception as e:
        return name, prop, {("ANALYSIS-ERROR", "model: " + str(e)[:200])}
    return name, prop, selftest.findings_of(prog, prop)


def main():
    argv = sys.argv[1:]
    wdir = None
    if "--write" in argv:
        i = argv.index("--write")
        wdir = argv[i + 1]
        del argv[i:i + 2]
    global PROPS
    if "--props" in argv:
        i = argv.index("--props")
        PROPS = argv[i + 1].split(",")
        del argv[i:i + 2]
    args = [a for a in argv if not a.startswith("--")]
    names = args or ["all"]
    if names == ["all"]:
        names = list(TRANSFORMS)
    if wdir:
        d = wdir
        assert len(names) == 1
        for rel, text in overlay(names[0]).items():
            p = os.path.join(d, rel)
            os.makedirs(os.path.dirname(p), exist_ok=True)
            with open(p, "w") as f:
                f.write(text)
        print("wrote", names[0], "to", d)
        return 0
    jobs = [(None, p) for p in PROPS] + [(n, p) for n in names for p in PROPS]
    with ProcessPoolExecutor(max_workers=16) as ex:
        res = list(ex.map(findings, jobs))
    base = {p: f for (n, p, f) in res if n is None}
    bad = 0
    for p, f in base.items():
        if any(x[0] == "ANALYSIS-ERROR" for x in f):
            bad += 1
            print("== %s on the UNTRANSFORMED tree: %s" % (p, [x for x in f if x[0] == "ANALYSIS-ERROR"]))
    for n, p, f in res:
        if n is None:
            continue
        new = f - base[p]
        lost = base[p] - f
        if new or lost:
            bad += 1
            print("== %s under %s: %d new, %d lost" % (p, n, len(new), len(lost)))
            for x in sorted(new)[:12]:
                print("   NEW  %s %s" % x)
            for x in sorted(lost)[:12]:
                print("   LOST %s %s" % x)
    print("transforms: %s; property x transform pairs differing: %d" % (names, bad))
    return 1 if bad else 0


if __name__ == "__main__":
    sys.exit(main())
