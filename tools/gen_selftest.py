#!/venv/bin/python
"""Regenerate selftest/mutants.json: for every mutant patch record which (rule, key)
findings it newly raises per property on the current /repo tree."""
import json
import os
import sys
import glob
import warnings
from concurrent.futures import ProcessPoolExecutor

warnings.simplefilter("ignore")
HERE = os.path.dirname(os.path.dirname(os.path.abspath(__file__)))
sys.path.insert(0, HERE)
from wv import patchlib, report, rules, selftest  # noqa
from wv.model import Program

SRC = "/repo/src"
PROPS = ["C%02d" % i for i in range(1, 21)]


def base_findings():
    prog = Program(SRC)
    return {p: selftest.findings_of(prog, p) for p in PROPS}


def one(args):
    mid, patch_rel, reverse, base = args
    warnings.simplefilter("ignore")
    ov = patchlib.overlay_for(SRC, open(os.path.join(HERE, patch_rel)).read(), reverse=reverse)
    if ov is None:
        return dict(id=mid, patch=patch_rel, reverse=reverse, applies=False, expected={})
    try:
        prog = Program(SRC, overlay=ov)
    except Exception as e:
        return dict(id=mid, patch=patch_rel, reverse=reverse, applies=True, expected={}, error=str(e))
    exp = {}
    for p in PROPS:
        new = selftest.findings_of(prog, p) - base[p]
        if new:
            exp[p] = sorted([list(x) for x in new])
    return dict(id=mid, patch=patch_rel, reverse=reverse, applies=True, expected=exp)


def main():
    base = base_findings()
    jobs = []
    for f in sorted(glob.glob(os.path.join(HERE, "selftest", "fixes", "*.diff"))):
        h = os.path.basename(f)[:-5]
        jobs.append(("revert-fix-" + h, os.path.relpath(f, HERE), True, base))
    for f in sorted(glob.glob(os.path.join(HERE, "seeded", "*", "patch.diff"))):
        sid = os.path.basename(os.path.dirname(f))
        jobs.append(("seed-" + sid, os.path.relpath(f, HERE), False, base))
    old = []
    if "--new-only" in sys.argv or "--only" in sys.argv:
        # incremental: keep the recorded entries, evaluate only the mutants that are not recorded yet (--new-only) or the ones
        # named after --only, and merge
        old = json.load(open(os.path.join(HERE, "selftest", "mutants.json")))
        if "--only" in sys.argv:
            names = set(sys.argv[sys.argv.index("--only") + 1:])
            jobs = [j for j in jobs if j[0] in names]
        else:
            have = set(r["id"] for r in old)
            jobs = [j for j in jobs if j[0] not in have]
        redo = set(j[0] for j in jobs)
        old = [r for r in old if r["id"] not in redo]
    with ProcessPoolExecutor(max_workers=int(os.environ.get("WV_JOBS", "16"))) as ex:
        res = list(ex.map(one, jobs))
    res = sorted(old + res, key=lambda r: r["id"])
    json.dump(res, open(os.path.join(HERE, "selftest", "mutants.json"), "w"), indent=1)
    for r in res:
        props = sorted(r["expected"])
        print("%-28s applies=%-5s caught_by=%s" % (r["id"], r["applies"], {p: sorted(set(x[0] for x in r["expected"][p])) for p in props}))
    print("mutants:", len(res), "not caught:", [r["id"] for r in res if r["applies"] and not r["expected"]],
          "not applying:", [r["id"] for r in res if not r["applies"]])


if __name__ == "__main__":
    main()
