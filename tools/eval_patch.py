#!/venv/bin/python
"""Evaluate patches against the checks without touching /repo: each patch is applied as an
in-memory overlay (wv.patchlib) on the sources read from /repo/src, every property's findings are
computed and compared with the findings on the unpatched tree.

  tools/eval_patch.py <patch.diff> [<patch.diff> ...]        one line per patch + details of differences
"""
import os
import sys
import warnings
from concurrent.futures import ProcessPoolExecutor

warnings.simplefilter("ignore")
HERE = os.path.dirname(os.path.dirname(os.path.abspath(__file__)))
sys.path.insert(0, HERE)
SRC = os.environ.get("WV_SRC_ROOT", "/repo/src")
PROPS = ["C%02d" % i for i in range(1, 21)]


def work(patch):
    """findings of every property on the tree with `patch` overlaid (None: the tree as it is); one program load per patch"""
    warnings.simplefilter("ignore")
    from wv import selftest, patchlib
    from wv.model import Program
    ov = None
    if patch:
        ov = patchlib.overlay_for(SRC, open(patch).read())
        if ov is None:
            return patch, None
    try:
        prog = Program(SRC, overlay=ov)
    except Exception as e:
        return patch, dict((p, {("ANALYSIS-ERROR", "model: " + str(e)[:200])}) for p in PROPS)
    return patch, dict((p, selftest.findings_of(prog, p)) for p in PROPS)


def main():
    patches = sys.argv[1:]
    with ProcessPoolExecutor(max_workers=int(os.environ.get("WV_JOBS", "12"))) as ex:
        res = dict(ex.map(work, [None] + patches, chunksize=1))
    base = res[None]
    for pt in patches:
        f = res[pt]
        if f is None:
            print("%s: PATCH DOES NOT APPLY" % pt)
            continue
        rows = [(p, f[p]) for p in PROPS]
        new = [(p, x) for p, fs in rows for x in sorted(fs - base[p])]
        lost = [(p, x) for p, fs in rows for x in sorted(base[p] - fs)]
        print("%s: %d new, %d lost" % (pt, len(new), len(lost)))
        seen = set()
        for p, x in new:
            if x in seen:
                continue
            seen.add(x)
            print("   NEW  [%s] %s %s" % (p, x[0], x[1][:220]))
        seen = set()
        for p, x in lost:
            if x in seen:
                continue
            seen.add(x)
            print("   LOST [%s] %s %s" % (p, x[0], x[1][:220]))


if __name__ == "__main__":
    main()
