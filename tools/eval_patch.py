#!/venv/bin/python
"""Evaluate patches against the checks without touching /repo: each patch is applied as an
in-memory overlay (wv.patchlib) on the sources read from /repo/src, every property's findings are
computed and compared with the findings on the unpatched tree.

  tools/eval_patch.py <patch.diff> [<patch.diff> ...]        one line per patch + details of differences
"""
import os
import sys
import warnings
from concurrent.futures import ProcessPoolExecutor

warnings.simplefilter("ignore")
HERE = os.path.dirname(os.path.dirname(os.path.abspath(__file__)))
sys.path.insert(0, HERE)
SRC = os.environ.get("WV_SRC_ROOT", "/repo/src")
PROPS = ["C%02d" % i for i in range(1, 21)]


def work(args):
    patch, prop = args
    warnings.simplefilter("ignore")
    from wv import selftest, patchlib
    from wv.model import Program
    ov = None
    if patch:
        ov = patchlib.overlay_for(SRC, open(patch).read())
        if ov is None:
            return patch, prop, None
    try:
        prog = Program(SRC, overlay=ov)
    except Exception as e:
        return patch, prop, {("ANALYSIS-ERROR", "model: " + str(e)[:200])}
    return patch, prop, selftest.findings_of(prog, prop)


def main():
    patches = sys.argv[1:]
    jobs = [(None, p) for p in PROPS] + [(pt, p) for pt in patches for p in PROPS]
    with ProcessPoolExecutor(max_workers=16) as ex:
        res = list(ex.map(work, jobs))
    base = {p: f for (pt, p, f) in res if pt is None}
    for pt in patches:
        rows = [(p, f) for (x, p, f) in res if x == pt]
        if any(f is None for _, f in rows):
            print("%s: PATCH DOES NOT APPLY" % pt)
            continue
        new = [(p, x) for p, f in rows for x in sorted(f - base[p])]
        lost = [(p, x) for p, f in rows for x in sorted(base[p] - f)]
        print("%s: %d new, %d lost" % (pt, len(new), len(lost)))
        seen = set()
        for p, x in new:
            if x in seen:
                continue
            seen.add(x)
            print("   NEW  [%s] %s %s" % (p, x[0], x[1][:220]))
        seen = set()
        for p, x in lost:
            if x in seen:
                continue
            seen.add(x)
            print("   LOST [%s] %s %s" % (p, x[0], x[1][:220]))


if __name__ == "__main__":
    main()
