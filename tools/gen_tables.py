#!/venv/bin/python
"""Regenerate the two tables at the end of DESIGN.md (between the markers <!-- RULE-TABLE --> ... <!-- /RULE-TABLE --> and
<!-- SEED-TABLE --> ... <!-- /SEED-TABLE -->) from the rule registry and selftest/mutants.json."""
import json
import os
import sys
import warnings
warnings.simplefilter("ignore")
HERE = os.path.dirname(os.path.dirname(os.path.abspath(__file__)))
sys.path.insert(0, HERE)
from wv import report  # noqa
from wv import rules  # noqa


def rule_table():
    seen = {}
    for prop in sorted(report.RULES):
        for s in report.RULES[prop]:
            if s.full not in seen:
                seen[s.full] = (s, [])
            seen[s.full][1].append(prop)
    rows = ["| rule | kind | decides (title) | run for |", "|---|---|---|---|"]

    def key(full):
        p, r = full.split("-R")
        return (p, int(r))
    generic = {}
    for full in list(seen):
        if "-G" in full:
            s, props = seen.pop(full)
            generic.setdefault(full.split("-")[1], (s, []))[1].extend(props)
    for full in sorted(seen, key=key):
        s, props = seen[full]
        rows.append("| %s | %s | %s | %s |" % (full, s.kind, s.title.replace("|", "/"), ", ".join(sorted(props))))
    for g in sorted(generic):
        s, props = generic[g]
        rows.append("| Cxx-%s | %s | %s (over the anchor files of the property) | all %d properties, one instance each |"
                    % (g, s.kind, s.title.replace("|", "/"), len(set(props))))
    return "\n".join(rows), len(seen) + len(generic)


def seed_table():
    muts = json.load(open(os.path.join(HERE, "selftest", "mutants.json")))
    rows = ["| seed | round | what was broken (agent's one-line kind) | caught by |", "|---|---|---|---|"]
    n = c = 0
    for m in muts:
        if not m["id"].startswith("seed-"):
            continue
        sid = m["id"][5:]
        meta = {}
        try:
            meta = json.load(open(os.path.join(HERE, "seeded", sid, "meta.json")))
        except Exception:
            pass
        rnd = meta.get("round", {"a": 1, "b": 1}.get(sid[-1], "?"))
        kind = (meta.get("kind") or meta.get("summary") or "").replace("|", "/").replace("\n", " ")[:140]
        by = sorted(set(r for v in m.get("expected", {}).values() for r, _ in v))
        n += 1
        c += bool(by)
        rows.append("| %s | %s | %s | %s |" % (sid, rnd, kind, ", ".join(by) if by else "**not caught**"))
    return "\n".join(rows), n, c


def main():
    p = os.path.join(HERE, "DESIGN.md")
    s = open(p).read()
    rt, nr = rule_table()
    st, n, c = seed_table()
    for tag, body in (("RULE-TABLE", "%d rules.\n\n%s" % (nr, rt)), ("SEED-TABLE", "%d seeds, %d caught.\n\n%s" % (n, c, st))):
        a, b = "<!-- %s -->" % tag, "<!-- /%s -->" % tag
        if a not in s:
            print("marker %s missing in DESIGN.md" % tag)
            continue
        s = s[:s.index(a) + len(a)] + "\n" + body + "\n" + s[s.index(b):]
    open(p, "w").write(s)
    print("rules", nr, "seeds", n, "caught", c)


if __name__ == "__main__":
    main()
