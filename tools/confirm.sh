#!/bin/bash
# usage: confirm.sh <kind: seed|benign> <dir containing patch.diff> <tag>
# seed: patch applies on /repo HEAD; suite 587 passed; demo fails with / passes without
# benign: patch applies; suite passes; check.py output identical with / without
kind=$1; d=$2; tag=$3
wt=${CONFIRM_DIR:-/tmp/w/confirm}/wt_$tag
out=${CONFIRM_DIR:-/tmp/w/confirm}/$tag.json
rm -rf $wt; git -C /repo worktree add -q --detach $wt HEAD 2>/dev/null || { echo "{\"tag\":\"$tag\",\"error\":\"worktree\"}" > $out; exit 0; }
mkdir -p $wt/_tmp
cd $wt
applies=true
git apply $d/patch.diff 2>/dev/null || applies=false
if [ $applies = false ]; then
  echo "{\"tag\":\"$tag\",\"applies\":false}" > $out
  cd /; git -C /repo worktree remove --force $wt; exit 0
fi
suite=$(TMPDIR=$wt/_tmp PYTHONPATH=$wt/src timeout 900 /venv/bin/python -m pytest -q -p no:cacheprovider --timeout=900 tests 2>&1 | grep -E "passed|failed|error" | tail -1)
if [ $kind = seed ]; then
  TMPDIR=$wt/_tmp PYTHONPATH=$wt/src timeout 300 /venv/bin/python $d/demo.py > $wt/_tmp/demo_with.txt 2>&1; with=$?
  git checkout -q -- src
  TMPDIR=$wt/_tmp PYTHONPATH=$wt/src timeout 300 /venv/bin/python $d/demo.py > $wt/_tmp/demo_without.txt 2>&1; without=$?
  echo "{\"tag\":\"$tag\",\"applies\":true,\"suite\":\"$suite\",\"demo_with\":$with,\"demo_without\":$without}" > $out
else
  TMPDIR=$wt/_tmp PYTHONPATH=$wt/src PYTHONHASHSEED=0 timeout 900 /venv/bin/python $d/check.py > $wt/_tmp/check_with.txt 2>/dev/null; c1=$?
  git checkout -q -- src
  TMPDIR=$wt/_tmp PYTHONPATH=$wt/src PYTHONHASHSEED=0 timeout 900 /venv/bin/python $d/check.py > $wt/_tmp/check_without.txt 2>/dev/null; c2=$?
  if cmp -s $wt/_tmp/check_with.txt $wt/_tmp/check_without.txt; then same=true; else same=false; fi
  lines=$(wc -l < $wt/_tmp/check_with.txt)
  # an equivalence script that stopped early (exit != 0, or no output) proves nothing: "identical" is then vacuous
  if [ $c1 != 0 ] || [ $c2 != 0 ] || [ $lines = 0 ]; then same=false; fi
  echo "{\"tag\":\"$tag\",\"applies\":true,\"suite\":\"$suite\",\"check_exit_with\":$c1,\"check_exit_without\":$c2,\"identical\":$same,\"lines\":$lines}" > $out
fi
cd /; git -C /repo worktree remove --force $wt
