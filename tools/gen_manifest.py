#!/venv/bin/python
"""Regenerate MANIFEST.json from the registered rules + the per-property texts below."""
import json
import os
import sys
import warnings

warnings.simplefilter("ignore")
HERE = os.path.dirname(os.path.dirname(os.path.abspath(__file__)))
sys.path.insert(0, HERE)
from wv import report, rules  # noqa

LEVEL = {}
NOTE = {}
NA = {}
exec(open(os.path.join(HERE, "tools", "manifest_texts.py")).read())

props = [json.loads(l) for l in open(os.path.join(HERE, "properties.jsonl"))]
checks = []
na = []
for p in props:
    pid = p["id"]
    specs = report.RULES.get(pid)
    if specs and pid in LEVEL and pid not in NA:
        checks.append({
            "property_id": pid,
            "quick_cmd": "/venv/bin/python check.py %s --tier quick" % pid,
            "thorough_cmd": "/venv/bin/python check.py %s --tier thorough" % pid,
            "evidence_file": "/verif/evidence/%s.json" % pid,
            "replay_cmd_template": "/venv/bin/python check.py %s --replay {path}" % pid,
            "engine": "wv",
            "level_claimed": {"category": "other",
                              "text": LEVEL.get(pid, "static analysis of structural necessary conditions; see DESIGN.md"),
                              "design_ref": "DESIGN.md section 4, %s" % pid},
            "level_note": NOTE.get(pid, "Decides the structural clauses listed in the evidence file, not the behaviour as a whole."),
            "technique": "static analysis: " + ", ".join(sorted(set(
                {"K1": "CFG event-order/must-pass traces", "K2": "guard/dominating-fact dataflow",
                 "K3": "who-may-call tables over resolved call sites", "K4": "sibling (writer/reader, mirror) agreement",
                 "K5": "exhaustiveness", "K6": "constructor/eq completeness", "K7": "explicit-raise escape analysis",
                 "K8": "score/bound shape algebra", "K9": "argument-name agreement",
                 "K10": "interface completeness / resolved calls", "K11": "local value flow"}[s.kind] for s in specs))),
        })
    else:
        na.append({"property_id": pid, "reason": NA.get(pid, "check not implemented yet (build in progress)")})

m = {
    "version": 1,
    "setup_cmd": "mkdir -p /verif/evidence /verif/replay",
    "hooks": {"guard": "WHOOSH_VERIF",
              "enable": "none needed: the checks are static (ast) and never import or execute whoosh; no hook commits exist",
              "baseline_off_cmd": "cd /repo && /venv/bin/python -m pytest -ra -q -p no:cacheprovider --timeout=900 --continue-on-collection-errors",
              "source_commits": [], "add_only": True},
    "engines": [{"name": "wv", "path": "/verif/wv",
                 "serves_properties": [c["property_id"] for c in checks],
                 "kind_free_text": "custom static analyser for whoosh: ast program model, class-hierarchy call resolution, "
                                   "per-function CFG + dataflow, interprocedural event traces, guard facts, shape algebra; "
                                   "rules in wv/rules/cNN.py"}],
    "checks": checks,
    "notes": "All checks are pure-stdlib static analysis run with /venv/bin/python over /repo/src/whoosh as it is on disk. "
             "Exit 2 + ANALYSIS-ERROR means the analysis could not reach a verdict (vanished anchor etc.). "
             "known_findings.jsonl lists genuine defects recorded rather than repaired.",
    "not_applicable": na,
}
json.dump(m, open(os.path.join(HERE, "MANIFEST.json"), "w"), indent=1)
print("checks:", [c["property_id"] for c in checks])
print("n/a:", [n["property_id"] for n in na])
