#!/venv/bin/python
"""Freeze the inventory of function qualified names of the reference tree (wv/inventory.json).
Used only by wv/inline.py to tell NEW private helpers (to be inlined) from existing ones."""
import json
import os
import sys
import warnings
warnings.simplefilter("ignore")
HERE = os.path.dirname(os.path.dirname(os.path.abspath(__file__)))
sys.path.insert(0, HERE)
os.environ["WV_NO_INLINE"] = "1"
from wv.model import Program  # noqa
prog = Program(os.environ.get("WV_SRC_ROOT", "/repo/src"))
names = sorted(prog.functions)
json.dump(names, open(os.path.join(HERE, "wv", "inventory.json"), "w"), indent=0)
from wv import inline  # noqa
shapes = dict((q, inline.function_shape(f.node)) for q, f in prog.functions.items() if inline._is_private(f.name))
json.dump(shapes, open(os.path.join(HERE, "wv", "inventory_shapes.json"), "w"), indent=0, sort_keys=True)
import ast  # noqa
nested = []
for m in prog.modules.values():
    nested.extend(inline.nested_names(m.name, ast.parse(m.source)))
json.dump(sorted(nested), open(os.path.join(HERE, "wv", "inventory_nested.json"), "w"), indent=0)
print(len(nested), "nested functions")
print(len(names), "functions", len(shapes), "private shapes")
