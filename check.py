#!/venv/bin/python
"""check.py <Cxx> [--tier quick|thorough] [--replay <path>] [--src <root>]

Static check of one whoosh property (see DESIGN.md).  Exit 0 = all structural
obligations of the property hold (known findings are printed, not raised);
exit 1 = VIOLATION line(s); exit 2 = ANALYSIS-ERROR (no verdict).
"""
import argparse
import os
import sys
import warnings

warnings.simplefilter("ignore")  # SyntaxWarnings from parsing whoosh's regex strings
sys.path.insert(0, os.path.dirname(os.path.abspath(__file__)))


def main():
    ap = argparse.ArgumentParser()
    ap.add_argument("prop")
    ap.add_argument("--tier", default=os.environ.get("VERIF_TIER") or "quick",
                    choices=["quick", "thorough"])
    ap.add_argument("--replay")
    ap.add_argument("--src", default=None, help="source root containing whoosh/ (default /repo/src)")
    ap.add_argument("--no-selftest", action="store_true")
    args = ap.parse_args()
    from wv import report
    try:
        extra = None
        if args.tier == "thorough" and not args.no_selftest:
            from wv import selftest
            extra = selftest.run_for(args.prop, args.src)
        code = report.check_property(args.prop, args.tier, args.replay, args.src, extra=extra)
    except Exception:
        import traceback
        print("ANALYSIS-ERROR property=%s internal exception" % args.prop)
        traceback.print_exc(file=sys.stdout)
        code = 2
    sys.stdout.flush()
    sys.exit(code)


if __name__ == "__main__":
    main()
