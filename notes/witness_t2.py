import warnings; warnings.simplefilter("ignore")
import tempfile, shutil, traceback, random
from whoosh import fields, query, index, scoring, sorting
from whoosh.filedb.filestore import RamStorage

def section(t): print("\n=== " + t)
def tryit(f):
    try: return f()
    except Exception as e: return "RAISED %s: %s" % (type(e).__name__, e)

schema = fields.Schema(id=fields.ID(stored=True), t=fields.TEXT, g=fields.ID(sortable=True, stored=True))
ix = RamStorage().create_index(schema)
w = ix.writer()
random.seed(1)
for i in range(600):
    words = [u"alfa"]
    if i % 3 == 0: words.append(u"bravo")
    if i % 7 == 0: words += [u"charlie"] * (1 + i % 4)
    if i % 11 == 0: words.append(u"delta")
    w.add_document(id=str(i), t=u" ".join(words), g=u"g%d" % (i % 5))
w.commit()

with ix.searcher() as s:
    section("g. FilterCollector len with filter matching nothing, limit (C14)")
    q = query.Term("t", "alfa")
    none = query.Term("t", "zzz")
    r = s.search(q, limit=5, filter=none)
    print("limit=5 filter=none: len", tryit(lambda: len(r)), "scored", r.scored_length())
    r = s.search(q, limit=None, filter=none)
    print("limit=None filter=none: len", tryit(lambda: len(r)))
    r = s.search(q, limit=5, mask=query.Term("t","bravo"))
    r2 = s.search(q, limit=None, mask=query.Term("t","bravo"))
    print("mask: len limited", tryit(lambda: len(r)), "len unlimited", len(r2))

    section("h. collapse + limit len (C14)")
    r = s.search(q, limit=5, collapse="g")
    print("len:", tryit(lambda: len(r)), "scored", r.scored_length())
    r2 = s.search(q, limit=None, collapse="g"); print("unlimited len", tryit(lambda: len(r2)))

    section("DisMax scores (C09)")
    q = query.DisjunctionMax([query.Term("t","alfa"), query.Term("t","charlie")])
    r = s.search(q, limit=None)
    qa = dict((h["id"], h.score) for h in s.search(query.Term("t","alfa"), limit=None))
    qc = dict((h["id"], h.score) for h in s.search(query.Term("t","charlie"), limit=None))
    bad = [(h["id"], h.score, max(qa.get(h["id"],0), qc.get(h["id"],0))) for h in r if abs(h.score - max(qa.get(h["id"],0), qc.get(h["id"],0))) > 1e-6]
    print("dismax mismatches:", len(bad), bad[:3])

    section("m. AndMaybe top-k vs exhaustive (C05)")
    q = query.AndMaybe(query.Term("t","alfa"), query.Term("t","charlie"))
    full = [(h["id"], round(h.score,4)) for h in s.search(q, limit=None)]
    for k in (1, 3, 10, 50):
        top = [(h["id"], round(h.score,4)) for h in s.search(q, limit=k)]
        print(k, "equal prefix:", top == full[:k], top[:3], full[:3])

    section("c. And(Or(many), term) with array union (C12/C05)")
    from whoosh.query import Or
    orq = query.Or([query.Term("t","bravo"), query.Term("t","charlie"), query.Term("t","delta")])
    orq.matcher_type = Or.ARRAY_MATCHER
    q = query.And([orq, query.Term("t","alfa")])
    full = [(h["id"], round(h.score,4)) for h in s.search(q, limit=None)]
    for k in (1, 3, 10):
        top = tryit(lambda: [(h["id"], round(h.score,4)) for h in s.search(q, limit=k)])
        print(k, "equal prefix:", top == full[:k], (top[:3] if isinstance(top, list) else top), full[:3])

section("d. ReverseWeighting top-k (C12/C05)")
with ix.searcher(weighting=scoring.ReverseWeighting(scoring.BM25F())) as s:
    q = query.Or([query.Term("t","alfa"), query.Term("t","charlie")])
    full = [(h["id"], round(h.score,4)) for h in s.search(q, limit=None)]
    for k in (1, 3, 10):
        top = [(h["id"], round(h.score,4)) for h in s.search(q, limit=k)]
        print(k, "equal prefix:", top == full[:k], top[:3], full[:3])

for W in (scoring.PL2(), scoring.DFree(), scoring.TF_IDF(), scoring.BM25F()):
    section("top-k vs exhaustive under %s" % type(W).__name__)
    def run():
        with ix.searcher(weighting=W) as s:
            out = []
            for q in (query.Or([query.Term("t","alfa"), query.Term("t","charlie")]), query.Term("t","charlie"),
                      query.And([query.Term("t","bravo"), query.Term("t","charlie")])):
                full = [(h["id"], round(h.score,4)) for h in s.search(q, limit=None)]
                for k in (1, 3, 10):
                    top = [(h["id"], round(h.score,4)) for h in s.search(q, limit=k)]
                    out.append(top == full[:k])
            return out
    print(tryit(run))
