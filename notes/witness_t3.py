import warnings; warnings.simplefilter("ignore")
import tempfile, shutil, traceback
from whoosh import fields, query, index, scoring, sorting
from whoosh.filedb.filestore import RamStorage
def section(t): print("\n=== " + t)
def tryit(f):
    try: return f()
    except Exception as e: return "RAISED %s: %s" % (type(e).__name__, e)

section("n. terms_within transposition: 1 segment vs 2 segments (C19)")
schema = fields.Schema(w=fields.ID)
for nseg in (1, 2):
    ix = RamStorage().create_index(schema)
    words = [u"ab", u"ba", u"abc", u"acb", u"xyz"]
    if nseg == 1:
        w = ix.writer(); [w.add_document(w=x) for x in words]; w.commit()
    else:
        w = ix.writer(); [w.add_document(w=x) for x in words[:3]]; w.commit(merge=False)
        w = ix.writer(); [w.add_document(w=x) for x in words[3:]]; w.commit(merge=False)
    with ix.reader() as r:
        print(nseg, "seg:", type(r).__name__, sorted(r.terms_within("w", u"ab", 1)), sorted(r.terms_within("w", u"abc", 1)))

section("o. suggest ordering/closeness and self (C19)")
ix = RamStorage().create_index(fields.Schema(w=fields.TEXT))
w = ix.writer()
for x in [u"cart"] * 1 + [u"card"] * 1 + [u"core"] * 30 + [u"care"]*2:
    w.add_document(w=x)
w.commit()
with ix.searcher() as s:
    print("suggest('care', maxdist=2):", s.suggest("w", u"care", maxdist=2, limit=5))
    print("suggest('carx', maxdist=2):", s.suggest("w", u"carx", maxdist=2, limit=5))

section("k. sortable column missing in one segment (C08/C14)")
d = tempfile.mkdtemp()
try:
    ix = index.create_in(d, fields.Schema(id=fields.ID(stored=True), n=fields.NUMERIC(sortable=True)))
    w = ix.writer(); w.add_document(id=u"a"); w.add_document(id=u"b"); w.commit(merge=False)   # no n column
    w = ix.writer(); w.add_document(id=u"c", n=5); w.add_document(id=u"d", n=1); w.commit(merge=False)
    w = ix.writer(); w.add_document(id=u"e"); w.commit(merge=False)
    with ix.searcher() as s:
        r = s.reader()
        print("has_column", r.has_column("n"))
        cr = tryit(lambda: list(r.column_reader("n")))
        print("multi column_reader:", cr)
        print("sorted:", tryit(lambda: [h["id"] for h in s.search(query.Every(), sortedby="n", limit=None)]))
finally:
    shutil.rmtree(d, ignore_errors=True)

section("unknown-field / wrong-type queries at search time (C16)")
ix = RamStorage().create_index(fields.Schema(t=fields.TEXT, n=fields.NUMERIC))
w = ix.writer(); w.add_document(t=u"alfa bravo", n=3); w.commit()
with ix.searcher() as s:
    for q in [query.Prefix("nope", u"a"), query.Wildcard("nope", u"a*b"), query.FuzzyTerm("nope", u"a"), query.TermRange("nope", u"a", u"b"),
              query.NumericRange("t", 1, 2), query.NumericRange("nope", 1, 2), query.Phrase("n", [u"a", u"b"]), query.Variations("nope", u"a"), query.Regex("nope", u"a.*")]:
        print(type(q).__name__, "->", tryit(lambda: len(s.search(q))))

section("C11 copy()")
ix = RamStorage().create_index(fields.Schema(t=fields.TEXT))
w = ix.writer()
for i in range(300): w.add_document(t=u"alfa bravo" if i % 2 else u"alfa")
w.commit()
with ix.searcher() as s:
    for q in [query.Term("t","alfa"), query.Or([query.Term("t","alfa"), query.Term("t","bravo")]), query.And([query.Term("t","alfa"), query.Term("t","bravo")]),
              query.Or([query.Term("t","alfa"), query.Term("t","bravo")], scale=0.5), query.Every(), query.Not(query.Term("t","bravo")),
              query.Or([query.Term("t","alfa"), query.Term("t","bravo"), query.Term("t","x")])]:
        m = q.matcher(s, s.context())
        print(type(q).__name__, type(m).__name__, "copy:", tryit(lambda: type(m.copy()).__name__))
