import warnings; warnings.simplefilter("ignore")
import tempfile, shutil, threading, traceback
from whoosh import fields, query, index, scoring, sorting
from whoosh.filedb.filestore import RamStorage, FileStorage
from whoosh.qparser import QueryParser

def section(t): print("\n=== " + t)

# a. refresh after merge
section("a. refresh after optimize (C03)")
d = tempfile.mkdtemp()
try:
    schema = fields.Schema(id=fields.ID(stored=True))
    ix = index.create_in(d, schema)
    for i in range(3):
        w = ix.writer(); w.add_document(id=str(i)); w.commit(merge=False)
    s = ix.searcher()
    print("before", s.doc_count_all(), sorted(x["id"] for x in s.documents()))
    w = ix.writer(); w.add_document(id="3"); w.commit(optimize=True)
    try:
        s2 = s.refresh()
        print("refreshed", s2.doc_count_all(), sorted(x["id"] for x in s2.documents()))
    except Exception as e:
        print("refresh raised", type(e).__name__, e)
    s3 = ix.searcher()
    print("fresh", s3.doc_count_all(), sorted(x["id"] for x in s3.documents()))
finally:
    shutil.rmtree(d, ignore_errors=True)

# b. RamStorage second writer
section("b. RamStorage second writer (C04)")
ix = RamStorage().create_index(fields.Schema(id=fields.ID))
w1 = ix.writer()
res = {}
def second():
    try:
        ix.writer(timeout=0.2); res["r"] = "got writer"
    except Exception as e:
        res["r"] = "raised " + type(e).__name__
t = threading.Thread(target=second, daemon=True); t.start(); t.join(2.0)
print(res.get("r", "BLOCKED >2s (no LockError)"))
w1.cancel()

# e. date range with non-dates
section("e. date:[foo TO bar] (C16)")
schema = fields.Schema(t=fields.TEXT, d=fields.DATETIME, n=fields.NUMERIC)
qp = QueryParser("t", schema)
for s_ in [u"d:[foo TO bar]", u"d:[2010 TO 20xx]", u"n:[a TO b]", u"d:{20100101 TO 20100201}"]:
    try:
        print(repr(s_), "->", repr(qp.parse(s_)))
    except Exception as e:
        print(repr(s_), "RAISED", type(e).__name__, e)

# f. inline limit
section("f. W3Codec(inlinelimit=2) (C10)")
from whoosh.codec.whoosh3 import W3Codec
try:
    ix = RamStorage().create_index(fields.Schema(t=fields.TEXT))
    w = ix.writer(codec=W3Codec(inlinelimit=2)); w.add_document(t=u"alfa bravo"); w.commit()
    with ix.searcher() as s: print(len(s.search(query.Term("t","alfa"))))
except Exception as e:
    print("RAISED", type(e).__name__, e)

# i. Sequence eq / apply
section("i. Sequence eq/apply (C15)")
a = query.Sequence([query.Term("t","a"), query.Term("t","b")], slop=1)
b = query.Sequence([query.Term("t","a"), query.Term("t","b")], slop=5)
print("eq ignoring slop:", a == b, " Or dedupe:", query.Or([a, b]).normalize())
print("accept identity keeps slop?", b.accept(lambda q: q).slop)

# j. merge intersect containment
section("j. And of nested ranges (C15)")
q = query.And([query.TermRange("t", u"a", u"z"), query.TermRange("t", u"c", u"d")])
print(q.normalize())

# l. DATETIME excl
section("l. DATETIME parse_range exclusivity (C13)")
print(repr(qp.parse(u"d:{20100101 TO 20100201}")))
