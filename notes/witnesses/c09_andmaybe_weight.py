import warnings; warnings.simplefilter('ignore')
from whoosh import fields, query
from whoosh.query import spans
from whoosh.filedb.filestore import RamStorage
ix=RamStorage().create_index(fields.Schema(t=fields.TEXT))
w=ix.writer()
for d in ["alfa bravo","alfa charlie","alfa delta"]: w.add_document(t=d)
w.commit()
q=spans.SpanNot(query.Term("t","alfa"), query.Term("t","bravo"))
with ix.searcher() as s:
    try: print('SpanNot(alfa, bravo):', [h.docnum for h in s.search(q,limit=None)], 'expected [1, 2]')
    except Exception as e: print('SpanNot raised', type(e).__name__, e)
    from whoosh.matching import AndMaybeMatcher, ListMatcher
    m=AndMaybeMatcher(ListMatcher([1,5],[1.0,1.0]), ListMatcher([1],[2.0]))
    m.next()
    try: print('AndMaybe weight at 5:', m.weight())
    except Exception as e: print('AndMaybe.weight raised', type(e).__name__, e)
