"""DisjunctionMax([Or([a, b]), Or([c, d])]) searched with Frequency weighting and limit=1 never returned (fixed by 911b710):
the unions stop skipping at block quality == threshold, the disjunction max above them does not, and calls them for ever."""
import signal
from whoosh import fields, query, scoring
from whoosh.filedb.filestore import RamStorage
ix = RamStorage().create_index(fields.Schema(t=fields.TEXT, id=fields.STORED))
w = ix.writer()
import random
random.seed(7)
words = ["w%d" % i for i in range(12)]
for i in range(3000):
    n = random.choice([1, 2, 3, 5, 8])
    toks = [random.choice(words[:6 if i % 7 else 12]) for _ in range(n)]
    if i % 500 < 3:
        toks = toks + [toks[0]] * 6
    w.add_document(t=u" ".join(toks), id=i)
w.commit()
q = query.DisjunctionMax([query.Or([query.Term("t", "w5"), query.Term("t", "w9")]),
                          query.Or([query.Term("t", "w7"), query.Term("t", "w10")])])
def h(*a):
    raise SystemExit("HANG: the search did not return within 10 s")
signal.signal(signal.SIGALRM, h)
signal.alarm(10)
with ix.searcher(weighting=scoring.Frequency()) as s:
    r = s.search(q, limit=1)
    print([(hit["id"], hit.score) for hit in r])
