import sys
from whoosh import fields
from whoosh.filedb.filestore import RamStorage
from whoosh.query.qcolumns import ColumnQuery
schema = fields.Schema(id=fields.ID(stored=True), n=fields.NUMERIC(sortable=True))
ix = RamStorage().create_index(schema)
w = ix.writer()
for i in range(5):
    w.add_document(id=u"%d" % i, n=i)
w.commit()
with ix.searcher() as s:
    q = ColumnQuery("n", lambda v: v >= 3)
    try:
        r = s.search(q, limit=None)
        print([(h["id"], h.score) for h in r])
    except Exception as e:
        print("DEFECT:", type(e).__name__, e)
        sys.exit(1)
