import warnings; warnings.simplefilter('ignore')
from whoosh import fields
from whoosh.qparser import QueryParser
qp=QueryParser("t", fields.Schema(t=fields.TEXT, d=fields.DATETIME, n=fields.NUMERIC))
print(repr(qp.parse(u"d:{20100101 TO 20100201}")))
print(repr(qp.parse(u"n:{1 TO 5}")))
