"""TeeFilter.__eq__ read `other.fitlers` (misspelt): comparing two TeeFilters -- and therefore two analyzers or two schemas that
contain one -- raised AttributeError instead of answering.  Exit 1 while the defect is present."""
import sys
from whoosh.analysis import TeeFilter, LowercaseFilter, PassFilter, ReverseTextFilter, RegexTokenizer
from whoosh import fields
a = RegexTokenizer() | TeeFilter(PassFilter(), ReverseTextFilter()) | LowercaseFilter()
b = RegexTokenizer() | TeeFilter(PassFilter(), ReverseTextFilter()) | LowercaseFilter()
try:
    same = (a == b)
    s1 = fields.Schema(t=fields.TEXT(analyzer=a))
    s2 = fields.Schema(t=fields.TEXT(analyzer=b))
    print("analyzers equal:", same, " schemas equal:", s1 == s2)
    sys.exit(0 if same else 1)
except AttributeError as e:
    print("AttributeError:", e)
    sys.exit(1)
