import warnings; warnings.simplefilter('ignore')
from whoosh import fields, query, scoring
from whoosh.filedb.filestore import RamStorage
T=lambda x: query.Term("t",x)
ix=RamStorage().create_index(fields.Schema(t=fields.TEXT)); w=ix.writer(); w.add_document(t="a b"); w.commit()
def t(name, fn):
    try: print(name, '->', fn())
    except Exception as e: print(name, 'RAISED', type(e).__name__, str(e)[:80])
with ix.reader() as r:
    t("AndMaybe.simplify", lambda: query.AndMaybe(T("a"),T("b")).simplify(r))
    t("AndNot.simplify", lambda: query.AndNot(T("a"),T("b")).simplify(r))
    t("Require.simplify", lambda: query.Require(T("a"),T("b")).simplify(r))
ident=lambda q: q
t("NestedChildren.accept(identity)", lambda: query.NestedChildren(T("a"),T("b")).accept(ident))
t("NestedParent.accept(identity)", lambda: query.NestedParent(T("a"),T("b")).accept(ident))
t("WeightingQuery.accept(identity)", lambda: query.WeightingQuery(T("a"), scoring.Frequency()).accept(ident))
t("And([Every(), t]).normalize()", lambda: query.And([query.Every(), T("a")]).normalize())
t("And([NullQuery, t]).normalize()", lambda: query.And([query.NullQuery, T("a")]).normalize())
t("And([TermRange(a,z), TermRange(c,d)]).normalize()", lambda: query.And([query.TermRange("t","a","z"), query.TermRange("t","c","d")]).normalize())
t("And([Every('t'), Term t:a]).normalize()", lambda: query.And([query.Every("t"), T("a")]).normalize())
