import warnings; warnings.simplefilter('ignore')
from whoosh import fields, query, scoring
from whoosh.filedb.filestore import RamStorage
ix=RamStorage().create_index(fields.Schema(t=fields.TEXT(phrase=False)))
w=ix.writer()
for i in range(700):
    if i in (0,1,2): d="alfa "*3+"bravo "*3
    elif i==3: d="alfa "*4+"bravo "*4
    elif i==300: d="alfa "*5+"bravo "*2
    elif i==512: d="alfa "+"bravo "*6
    else: d="alfa bravo"
    w.add_document(t=d)
w.commit()
T=lambda x: query.Term("t",x)
for q in (query.AndMaybe(T("alfa"),T("bravo")), query.And([T("alfa"),T("bravo")]), query.Or([T("alfa"),T("bravo")])):
  with ix.searcher(weighting=scoring.Frequency()) as s:
    full=[(h.docnum,h.score) for h in s.search(q,limit=None)][:4]
    top=[(h.docnum,h.score) for h in s.search(q,limit=3)]
    print(q); print('  full',full); print('  top3',top)
