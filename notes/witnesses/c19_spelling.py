import warnings; warnings.simplefilter("ignore")
import tempfile, shutil, traceback
from whoosh import fields, query, index, scoring, sorting
from whoosh.filedb.filestore import RamStorage
def section(t): print("\n=== " + t)
def tryit(f):
    try: return f()
    except Exception as e: return "RAISED %s: %s" % (type(e).__name__, e)

section("n. terms_within transposition: 1 segment vs 2 segments (C19)")
schema = fields.Schema(w=fields.ID)
for nseg in (1, 2):
    ix = RamStorage().create_index(schema)
    words = [u"ab", u"ba", u"abc", u"acb", u"xyz"]
    if nseg == 1:
        w = ix.writer(); [w.add_document(w=x) for x in words]; w.commit()
    else:
        w = ix.writer(); [w.add_document(w=x) for x in words[:3]]; w.commit(merge=False)
        w = ix.writer(); [w.add_document(w=x) for x in words[3:]]; w.commit(merge=False)
    with ix.reader() as r:
        print(nseg, "seg:", type(r).__name__, sorted(r.terms_within("w", u"ab", 1)), sorted(r.terms_within("w", u"abc", 1)))

section("o. suggest ordering/closeness and self (C19)")
ix = RamStorage().create_index(fields.Schema(w=fields.TEXT))
w = ix.writer()
for x in [u"cart"] * 1 + [u"card"] * 1 + [u"core"] * 30 + [u"care"]*2:
    w.add_document(w=x)
w.commit()
with ix.searcher() as s:
    print("suggest('care', maxdist=2):", s.suggest("w", u"care", maxdist=2, limit=5))
    print("suggest('carx', maxdist=2):", s.suggest("w", u"carx", maxdist=2, limit=5))

