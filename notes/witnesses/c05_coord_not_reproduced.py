import warnings, random; warnings.simplefilter('ignore')
from whoosh import fields, query, scoring
from whoosh.filedb.filestore import RamStorage
rnd=random.Random(1)
ix=RamStorage().create_index(fields.Schema(t=fields.TEXT))
w=ix.writer()
for i in range(400):
    w.add_document(t=" ".join(["alfa"]*rnd.randint(1,5)+["bravo"]*rnd.randint(1,5)+["zulu"]*rnd.randint(0,20)))
w.commit()
q=query.Or([query.Term("t","alfa"),query.Term("t","bravo")], scale=1.0)
with ix.searcher() as s:
    full=[(h.docnum,round(h.score,5)) for h in s.search(q,limit=None)]
    top=[(h.docnum,round(h.score,5)) for h in s.search(q,limit=3)]
    print('full[:3]',full[:3]); print('top3    ',top, 'OK' if top==full[:3] else 'MISMATCH')
