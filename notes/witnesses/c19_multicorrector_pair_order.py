import sys
from whoosh.spelling import ListCorrector, MultiCorrector
a = ListCorrector([u"alfa", u"alfe", u"bravo"])
b = ListCorrector([u"alfa", u"alto"])
mc = MultiCorrector([a, b], op=max)
try:
    sugs = mc.suggest(u"alfo", limit=5, maxdist=2)
    print(sugs)
    if not all(isinstance(s, str) for s in sugs):
        print("DEFECT: suggest() returned scores instead of words"); sys.exit(1)
except Exception as e:
    print("DEFECT:", type(e).__name__, e); sys.exit(1)
