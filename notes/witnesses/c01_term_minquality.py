"""Term(fieldname, text, minquality=q).matcher() called m.set_min_quality(q), a method no matcher class has: any search with such a
Term raised AttributeError.  Exit 1 while the defect is present."""
import sys
from whoosh import fields, query
from whoosh.filedb.filestore import RamStorage
ix = RamStorage().create_index(fields.Schema(t=fields.TEXT))
with ix.writer() as w:
    w.add_document(t=u"alfa bravo")
    w.add_document(t=u"alfa charlie")
with ix.searcher() as s:
    try:
        r = s.search(query.Term("t", u"alfa", minquality=0.5))
        print("hits:", sorted(h.docnum for h in r))
        sys.exit(0 if len(r) == 2 else 1)
    except AttributeError as e:
        print("AttributeError:", e)
        sys.exit(1)
