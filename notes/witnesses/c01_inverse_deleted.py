"""Witness: Not(term) returns a DELETED document when the term's last posting is immediately followed by a deleted doc."""
from whoosh.matching import ListMatcher
from whoosh.matching.wrappers import InverseMatcher
from whoosh.filedb.filestore import RamStorage
from whoosh import fields, query

m = InverseMatcher(ListMatcher([3]), 8, missing=lambda d: d == 4)
ids = list(m.all_ids())
print("inverse ids", ids)
ok1 = 4 not in ids

schema = fields.Schema(id=fields.NUMERIC(stored=True), t=fields.KEYWORD)
ix = RamStorage().create_index(schema)
w = ix.writer()
for i in range(8):
    w.add_document(id=i, t=u"alfa" if i == 3 else u"bravo")
w.commit()
w = ix.writer()
w.delete_document(4)
w.commit(merge=False)
with ix.searcher() as s:
    got = sorted(hit["id"] for hit in s.search(query.Not(query.Term("t", u"alfa")), limit=None))
    print("NOT alfa ->", got)
    ok2 = 4 not in got
assert ok1 and ok2, "deleted document 4 returned"
