import warnings; warnings.simplefilter('ignore')
from whoosh import fields, query, writing
from whoosh.query import spans
from whoosh.filedb.filestore import RamStorage
ix=RamStorage().create_index(fields.Schema(t=fields.TEXT))
w=writing.BufferedWriter(ix, period=None, limit=100)
for d in ["alfa bravo","alfa charlie","alfa delta"]: w.add_document(t=d)
q=spans.SpanNot(query.Term("t","alfa"), query.Term("t","bravo"))
s=w.searcher()
try: print('SpanNot(alfa, bravo) on buffered docs:', sorted(h.docnum for h in s.search(q,limit=None)), 'expected [0, 1, 2]')
except Exception as e: print('SpanNot raised', type(e).__name__, e)
w.close()
