"""Wildcard('f', '[ab]').normalize() became the literal Term '[ab]' (fixed by 6df7e4a)."""
from whoosh import fields, query
from whoosh.filedb.filestore import RamStorage
ix = RamStorage().create_index(fields.Schema(f=fields.ID(stored=True)))
w = ix.writer()
for t in [u"a", u"b", u"c", u"ax", u"bx", u"[ab]"]:
    w.add_document(f=t)
w.commit()
s = ix.searcher()
for q in (query.Wildcard("f", u"[ab]"), query.Wildcard("f", u"[ab]*")):
    a = sorted(h["f"] for h in s.search(q, limit=None))
    b = sorted(h["f"] for h in s.search(q.normalize(), limit=None))
    assert a == b, (q, a, q.normalize(), b)
print("ok")
