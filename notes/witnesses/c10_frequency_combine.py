import warnings; warnings.simplefilter('ignore')
from whoosh import formats
from whoosh.system import pack_uint
f=formats.Frequency()
try: print(f.decode_frequency(f.combine([pack_uint(2), pack_uint(3)])), 'expected 5')
except Exception as e: print('Frequency.combine RAISED', type(e).__name__, e)
