"""PlusMinusPlugin only sorted the + and - markers of the top-level group: a marker inside a parenthesised group survived to query
building, where MarkerNode.query() raises NotImplementedError out of QueryParser.parse().  Exit 1 while the defect is present."""
import sys
from whoosh import fields, qparser, query
from whoosh.qparser import plugins
schema = fields.Schema(t=fields.TEXT)
p = qparser.QueryParser("t", schema)
p.add_plugin(plugins.PlusMinusPlugin())
bad = 0
for s in [u"alfa (+bravo -charlie)", u"t:(+bravo -charlie)", u"alfa AND (+bravo)", u"(+bravo -charlie)^2 delta"]:
    try:
        q = p.parse(s)
        print(repr(s), "->", q)
    except qparser.QueryParserError as e:
        print(repr(s), "QueryParserError", e)
    except Exception as e:
        bad += 1
        print(repr(s), "RAISED", type(e).__name__, e)
flat = p.parse(u"+bravo -charlie delta")
nested = p.parse(u"(+bravo -charlie delta)")
print("flat  :", flat)
print("nested:", nested)
sys.exit(1 if bad or flat != nested else 0)
