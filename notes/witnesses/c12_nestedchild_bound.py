import warnings; warnings.simplefilter('ignore')
from whoosh import scoring
from whoosh.idsets import BitSet
from whoosh.matching import ListMatcher
from whoosh.query.nested import NestedChildren
comb=BitSet([0,3,6], size=9)
wanted=ListMatcher([0,3],[0.5,0.5], scorer=scoring.WeightScorer(0.5))
m=NestedChildren.NestedChildMatcher(comb, wanted, 9, lambda d: False, boost=1.0)
print('supports_block_quality', m.supports_block_quality(), 'id', m.id(), 'score', m.score(),
      'block_quality', m.block_quality(), 'max_quality', m.max_quality())
