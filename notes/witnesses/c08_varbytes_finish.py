import warnings; warnings.simplefilter('ignore')
from whoosh import columns
from whoosh.filedb.filestore import RamStorage
from whoosh.compat import b
def roundtrip(values, doccount, **kw):
    col=columns.VarBytesColumn(**kw)
    st=RamStorage(); f=st.create_file("c")
    w=col.writer(f)
    for i,v in values: w.add(i,v)
    w.finish(doccount); length=f.tell(); f.close()
    f=st.open_file("c"); r=col.reader(f,0,length,doccount)
    return [r[i] for i in range(doccount)]
vals=[(0,b("x")*300)]
try:
    got=roundtrip(vals,4,write_offsets_cutoff=2)
    print('lens', [len(g) for g in got], 'expected [300, 0, 0, 0]')
except Exception as e: print('RAISED', type(e).__name__, e)
