"""repr() of an OnDiskBitSet read self.dbfile / self.bytecount, and repr() of a CompoundStorage read self._name -- attributes nothing
binds (the constructors store _dbfile, _bytecount; no _name at all): both raised AttributeError.  Exit 1 while the defect is present."""
import sys
from whoosh.filedb.filestore import RamStorage
from whoosh.filedb.compound import CompoundStorage
from whoosh.idsets import BitSet, OnDiskBitSet
st = RamStorage()
f = st.create_file("bits")
n = BitSet([1, 5, 9]).to_disk(f)
f.close()
bad = 0
try:
    print(repr(OnDiskBitSet(st.open_file("bits"), 0, n)))
except AttributeError as e:
    bad += 1
    print("OnDiskBitSet repr:", e)
a = st.create_file("a.txt"); a.write(b"alfa"); a.close()
c = st.create_file("cmp")
CompoundStorage.assemble(c, st, ["a.txt"])
pass  # assemble() -> write_dir() closes the file
try:
    print(repr(CompoundStorage(st.open_file("cmp"), use_mmap=False)))
except AttributeError as e:
    bad += 1
    print("CompoundStorage repr:", e)
sys.exit(1 if bad else 0)
