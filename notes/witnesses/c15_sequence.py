import warnings; warnings.simplefilter('ignore')
from whoosh import query
T=lambda x: query.Term("t",x)
a=query.Sequence([T("a"),T("b")], ordered=True); b=query.Sequence([T("a"),T("b")], ordered=False)
print('eq', a==b, 'hash eq', hash(a)==hash(b))
print(query.Or([a,b]).normalize())
s=query.Sequence([T("a"),T("b")], slop=5, ordered=False)
print('accept identity:', s.accept(lambda q: q).slop, s.accept(lambda q: q).ordered, 'expected 5 False')
