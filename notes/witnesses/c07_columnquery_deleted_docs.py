"""ColumnQuery's matcher walks the column by document number and never asks the reader which documents are deleted: a deleted (not
yet merged away) document whose column value satisfies the condition is still returned.  Exit 1 while the defect is present."""
import sys
from whoosh import fields, query
from whoosh.filedb.filestore import RamStorage
from whoosh.query import ColumnQuery
schema = fields.Schema(id=fields.ID(stored=True, unique=True), n=fields.NUMERIC(sortable=True))
ix = RamStorage().create_index(schema)
with ix.writer() as w:
    for i in range(6):
        w.add_document(id=u"d%d" % i, n=i % 2)
w = ix.writer()
w.delete_by_term("id", u"d2")
w.commit(merge=False)
with ix.searcher() as s:
    live = sorted(f["id"] for f in s.all_stored_fields())
    for kw in (dict(limit=None), dict(limit=None, scored=False), dict(limit=2)):
        got = sorted(h["id"] for h in s.search(ColumnQuery("n", 0), **kw))
        print(kw, got)
        if u"d2" in got:
            print("deleted document d2 returned; live:", live)
            sys.exit(1)
    ids = sorted(s.stored_fields(d)["id"] for d in ColumnQuery("n", 0).docs(s))
    print("docs():", ids)
    sys.exit(0 if ids == [u"d0", u"d4"] else 1)
