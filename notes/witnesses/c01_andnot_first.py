import warnings; warnings.simplefilter('ignore')
from whoosh import fields, query
from whoosh.filedb.filestore import RamStorage
ix=RamStorage().create_index(fields.Schema(t=fields.KEYWORD(stored=True)))
w=ix.writer()
for d in ["b","a b","a","b","a b","a"]: w.add_document(t=d)
w.commit()
with ix.searcher() as s:
    for q in [query.AndNot(query.Term("t","a"),query.Term("t","b")), query.And([query.Term("t","a"),query.Not(query.Term("t","b"))])]:
        print(q, sorted(h.docnum for h in s.search(q,limit=None)), [d for d in s.docs_for_query(q)])
