import warnings; warnings.simplefilter('ignore')
from whoosh import fields, query, scoring
from whoosh.filedb.filestore import RamStorage
ix=RamStorage().create_index(fields.Schema(id=fields.ID(stored=True,unique=True), t=fields.TEXT))
w=ix.writer()
for i in range(700):
    if i in (0,1,2): d="alfa "*3
    elif i in (3,4,5): d="alfa "*5
    elif i==512: d="alfa "*9      # first posting of its block; will be deleted
    else: d="alfa"
    w.add_document(id=str(i), t=d)
w.commit(merge=False)
w=ix.writer(); w.delete_by_term("id","512"); w.commit(merge=False)
q=query.Term("t","alfa")
with ix.searcher(weighting=scoring.Frequency()) as s:
    full=[(h["id"],h.score) for h in s.search(q,limit=None)][:4]
    top=[(h["id"],h.score) for h in s.search(q,limit=3)]
    print('full',full); print('top3',top, 'deleted doc 512 returned' if any(i=="512" for i,_ in top) else 'ok')
