"""terms_within / FuzzyTerm with a prefix length larger than the word: IndexError on one segment, fine on several."""
import sys
from whoosh import fields
from whoosh.filedb.filestore import RamStorage
from whoosh.query import FuzzyTerm
schema = fields.Schema(f=fields.TEXT)
bad = 0
def build(nseg):
    ix = RamStorage().create_index(schema)
    words = [u"ab", u"abc", u"abd", u"xb"]
    for i in range(nseg):
        w = ix.writer()
        for wd in words[i::nseg]:
            w.add_document(f=wd)
        w.commit(merge=False)
    return ix
res = {}
for nseg in (1, 2):
    ix = build(nseg)
    with ix.searcher() as s:
        try:
            res[nseg] = sorted(s.reader().terms_within("f", u"ab", 1, prefix=5))
        except Exception as e:
            res[nseg] = "%s: %s" % (type(e).__name__, e)
        try:
            res[(nseg, "q")] = sorted(s.docs_for_query(FuzzyTerm("f", u"ab", maxdist=1, prefixlength=5)))
        except Exception as e:
            res[(nseg, "q")] = "%s: %s" % (type(e).__name__, e)
print(res)
if res[1] != res[2] or isinstance(res[(1, "q")], str):
    print("DEFECT: the single-segment (automaton) path fails where the multi-segment path answers")
    sys.exit(1)
