import warnings; warnings.simplefilter('ignore')
from whoosh import fields, query, scoring
from whoosh.filedb.filestore import RamStorage
ix=RamStorage().create_index(fields.Schema(t=fields.TEXT(phrase=True)))
w=ix.writer()
for d in ["alfa zulu bravo","alfa bravo","alfa zulu bravo","alfa bravo"]: w.add_document(t=d)
w.commit()
q=query.Phrase("t",["alfa","bravo"])
with ix.searcher() as s:
    m=q.matcher(s, s.context())
    first=[]
    while m.is_active(): first.append(m.id()); m.next()
    m.reset()
    second=[]
    while m.is_active(): second.append(m.id()); m.next()
    print('first pass',first,'after reset',second)
