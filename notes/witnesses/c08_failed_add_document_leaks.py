from whoosh import fields, query
from whoosh.filedb.filestore import RamStorage
schema = fields.Schema(id=fields.ID(stored=True), t=fields.TEXT, n=fields.NUMERIC(stored=True))
ix = RamStorage().create_index(schema)
w = ix.writer()
w.add_document(id=u"a", t=u"alfa", n=1)
try:
    w.add_document(id=u"b", t=u"bravo", n=u"notanumber")
except Exception as e:
    print("raised", type(e).__name__)
w.add_document(id=u"c", t=u"charlie", n=3)
w.commit()
with ix.searcher() as s:
    print(s.doc_count(), [h['id'] for h in s.search(query.Term("t", u"bravo"))], [h['id'] for h in s.search(query.Term("id", u"b"))], [h['id'] for h in s.search(query.Term("t", u"charlie"))])
    print(list(s.reader().all_stored_fields()))
# multi segment column
schema2 = fields.Schema(id=fields.ID(stored=True), k=fields.ID(sortable=True))
ix = RamStorage().create_index(schema2)
w = ix.writer(); w.add_document(id=u"a"); w.commit()
w = ix.writer(); w.add_document(id=u"b", k=u"x"); w.commit(merge=False)
with ix.searcher() as s:
    r = s.reader(); print(type(r).__name__, list(r.column_reader("k")))
