"""Searcher.refresh() re-uses the open SegmentReader of every segment whose id is unchanged.  A commit that only deletes documents
keeps the segment (same id, new deleted set), so the refreshed searcher -- which reports up_to_date() -- still returns the deleted
document.  Exit 1 while the defect is present."""
import sys
from whoosh import fields, query
from whoosh.filedb.filestore import RamStorage
ix = RamStorage().create_index(fields.Schema(id=fields.ID(stored=True, unique=True), t=fields.TEXT))
with ix.writer() as w:
    for i in range(4):
        w.add_document(id=u"d%d" % i, t=u"alfa")
s = ix.searcher()
print("before:", sorted(h["id"] for h in s.search(query.Term("t", u"alfa"), limit=None)))
w = ix.writer()
w.delete_by_term("id", u"d1")
w.commit(merge=False)
s2 = s.refresh()
fresh = ix.searcher()
got = sorted(h["id"] for h in s2.search(query.Term("t", u"alfa"), limit=None))
want = sorted(h["id"] for h in fresh.search(query.Term("t", u"alfa"), limit=None))
print("refreshed:", got, "up_to_date:", s2.up_to_date(), " fresh:", want)
sys.exit(0 if got == want else 1)
