"""MultiReader.vector(docnum, fieldname, format_=F) dropped format_ on the way to the segment reader (SegmentReader.vector honours
it): with several segments the vector was decoded with the field's own vector format whatever the caller asked for.
Exit 1 while the defect is present."""
import sys
from whoosh import fields, formats
from whoosh.filedb.filestore import RamStorage
schema = fields.Schema(t=fields.TEXT(vector=formats.Positions()))
ix = RamStorage().create_index(schema)
for text in (u"alfa bravo alfa", u"charlie alfa"):
    w = ix.writer()
    w.add_document(t=text)
    w.commit(merge=False)
asked = formats.Frequency()
with ix.reader() as r:
    assert not r.is_atomic()
    leaf, _ = list(r.leaf_readers())[0]
    single = leaf.vector(0, "t", format_=asked).format
    multi = r.vector(0, "t", format_=asked).format
    print("segment reader uses:", type(single).__name__, " multi reader uses:", type(multi).__name__)
    sys.exit(0 if multi is asked and single is asked else 1)
