"""Witness (C16): inputs for which QueryParser.parse() raised something other than QueryParserError before the fixes
d6ef48e / 2163180 / d6c20e3:  NOT NOT alfa (IndexError), alfa ANDMAYBE ANDNOT bravo (AssertionError),
s:foo on a STORED field, b:"x y" and b:[a to b] on a BOOLEAN field (bare Exception)."""
import warnings
warnings.simplefilter("ignore")
from whoosh import fields, qparser

schema = fields.Schema(t=fields.TEXT, b=fields.BOOLEAN, s=fields.STORED)
qp = qparser.QueryParser("t", schema)
bad = []
for text in ["NOT NOT alfa", "alfa AND NOT NOT bravo", "alfa ANDMAYBE ANDNOT bravo", "alfa REQUIRE ANDMAYBE bravo",
             "s:foo", "s:[a to b]", 's:"foo bar"', 'b:"foo bar"', "b:[a to b]"]:
    try:
        qp.parse(text)
    except qparser.QueryParserError:
        pass
    except Exception as e:
        bad.append((text, type(e).__name__))
print(bad)
assert not bad
