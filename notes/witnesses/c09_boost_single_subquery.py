import warnings; warnings.simplefilter('ignore')
from whoosh import fields, query, scoring
from whoosh.filedb.filestore import RamStorage
ix=RamStorage().create_index(fields.Schema(t=fields.TEXT, n=fields.NUMERIC))
w=ix.writer()
for i,d in enumerate(["alfa bravo","alfa","charlie"]): w.add_document(t=d, n=i)
w.commit()
with ix.searcher(weighting=scoring.Frequency()) as s:
    def sc(q): return [(h.docnum,h.score) for h in s.search(q,limit=None)]
    print('Term alfa           ', sc(query.Term("t","alfa")))
    print('Or([alfa], boost=2) ', sc(query.Or([query.Term("t","alfa")],boost=2.0)), 'expected scores x2')
    print('And([alfa], boost=2)', sc(query.And([query.Term("t","alfa")],boost=2.0)), 'expected scores x2')
    print('Prefix alf boost=2 (constantscore=False)', sc(query.Prefix("t","alf",boost=2.0,constantscore=False)), 'expected x2')
    print('Prefix a   boost=2 (two expansions... none) ', sc(query.Prefix("t","",boost=2.0,constantscore=False))[:1])
    print('NumericRange n:[1 TO 1] boost=2 constantscore=False', sc(query.NumericRange("n",1,1,boost=2.0,constantscore=False)), 'expected 2.0')
