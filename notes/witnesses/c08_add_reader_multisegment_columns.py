"""writer.add_reader(<multi-segment reader>) copied column values through MultiReader.column_reader(), whose default is
translate=True: the merge wrote the *translated* values (e.g. the number 10) where the raw sortable representation belongs, so the
copied documents' column values came back wrong (write_per_doc only unwrapped a top-level TranslatingColumnReader).
Exit 1 while the defect is present."""
import sys
from whoosh import fields
from whoosh.filedb.filestore import RamStorage
schema = fields.Schema(id=fields.ID(stored=True), n=fields.NUMERIC(sortable=True))
src = RamStorage().create_index(schema)
for chunk in ((10, 20), (30, 40)):
    w = src.writer()
    for v in chunk:
        w.add_document(id=u"d%d" % v, n=v)
    w.commit(merge=False)
dst = RamStorage().create_index(schema)
w = dst.writer()
try:
    with src.reader() as r:
        assert not r.is_atomic()
        w.add_reader(r)
    w.commit()
except Exception as e:
    print("add_reader raised", type(e).__name__, e)
    sys.exit(1)
with dst.searcher() as s:
    cr = s.reader().column_reader("n")
    got = sorted((s.stored_fields(d)["id"], cr[d]) for d in s.reader().all_doc_ids())
    print(got)
    sys.exit(0 if got == [(u"d10", 10), (u"d20", 20), (u"d30", 30), (u"d40", 40)] else 1)
