"""MemTermsReader.terms() walked its dictionaries in insertion order (terms_from() sorts).  MultiReader merges the term streams of its
sub-readers assuming each is sorted, so the combined reader a BufferedWriter hands out -- committed segments plus the RAM segment --
listed terms out of order and more than once.  Exit 1 while the defect is present."""
import sys
from whoosh import fields, writing
from whoosh.filedb.filestore import RamStorage
schema = fields.Schema(t=fields.KEYWORD)
ix = RamStorage().create_index(schema)
for words in (u"mike alfa", u"zulu bravo"):
    w = ix.writer()
    w.add_document(t=words)
    w.commit(merge=False)
bw = writing.BufferedWriter(ix, period=None, limit=100)
bw.add_document(t=u"yankee charlie alfa")
bw.add_document(t=u"delta bravo")
r = bw.reader()
terms = [t for f, t in r.all_terms() if f == "t"]
print(terms)
ok = terms == sorted(set(terms))
bw.close()
sys.exit(0 if ok else 1)
