"""AsyncWriter.delete_by_query resolves document numbers when called, applies them after the lock is obtained."""
import sys, tempfile, shutil
from whoosh import fields, index
from whoosh.query import Term
from whoosh.writing import AsyncWriter

d = tempfile.mkdtemp()
try:
    schema = fields.Schema(id=fields.ID(stored=True, unique=True))
    ix = index.create_in(d, schema)
    w = ix.writer(); w.add_document(id=u"1"); w.commit()
    w = ix.writer(); w.add_document(id=u"2"); w.commit(merge=False)
    # another writer holds the lock
    w = ix.writer()
    aw = AsyncWriter(ix)
    assert aw.writer is None, "expected the AsyncWriter to be buffering"
    aw.delete_by_query(Term("id", u"2"))
    print("recorded:", aw.events)
    # the lock holder deletes document 1, adds document 3 and optimizes: documents are renumbered
    w.delete_by_term("id", u"1")
    w.add_document(id=u"0")   # goes in front of the merged documents
    w.add_document(id=u"00")
    w.commit(optimize=True)
    aw.commit()
    aw.join()
    with ix.searcher() as s:
        left = sorted(f["id"] for f in s.all_stored_fields())
    print("documents left:", left)
    # a plain writer doing the same calls in the same order leaves ['0', '00']
    if left != [u"0", u"00"]:
        print("DEFECT: delete_by_query(id:2) through AsyncWriter left", left, "(expected ['0', '00'])")
        sys.exit(1)
finally:
    shutil.rmtree(d)
