"""GInts 3-byte values and StructFile.write_tagint raised TypeError on Python 3 (fixed by 956acb5, 25ca1e4)."""
from whoosh.util.numlists import GInts
from whoosh.filedb.filestore import RamStorage
st = RamStorage()
f = st.create_file("x")
nums = [1, 300, 70000, 70000000, 5, 16777215, 65536]
GInts().write_nums(f, nums)
f.close()
assert list(GInts().read_nums(st.open_file("x"), len(nums))) == nums
f = st.create_file("y")
tags = [0, 5, 253, 254, 255, 65535, 65536, 4000000000]
for n in tags:
    f.write_tagint(n)
f.close()
f = st.open_file("y")
assert [f.read_tagint() for _ in tags] == tags
print("ok")
