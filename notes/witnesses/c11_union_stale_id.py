import warnings; warnings.simplefilter('ignore')
from whoosh import fields, query, scoring
from whoosh.filedb.filestore import RamStorage
ix=RamStorage().create_index(fields.Schema(t=fields.TEXT))
w=ix.writer()
for i in range(700):
    w.add_document(t=("alfa "*9+"bravo "*9) if i==512 else "alfa bravo")
w.commit()
q=query.DisjunctionMax([query.Term("t","alfa"),query.Term("t","bravo")])
with ix.searcher(weighting=scoring.Frequency()) as s:
    m=q.matcher(s, s.context())
    print(type(m).__name__, 'id', m.id())
    sk=m.skip_to_quality(5)
    print('skipped',sk,'blocks; children at',m.a.id(),m.b.id(),'; id() reports',m.id(), '(stale)' if m.id()!=min(m.a.id(),m.b.id()) else '(ok)')
