"""BufferedWriter writes every document through a fresh memory-codec writer.  Stored fields, lengths and vectors are kept on the
shared RAM segment per document, but column values go into a column file that each new writer creates again under the same name, so
only the last buffered document's value survives and the flushed segment holds defaults for the others: sorting by a sortable field
gives a different order than with a plain writer.  Exit 1 while the defect is present."""
import sys
from whoosh import fields, query, writing
from whoosh.filedb.filestore import RamStorage
schema = fields.Schema(id=fields.ID(stored=True), num=fields.NUMERIC(sortable=True, stored=True))


def build(buffered):
    ix = RamStorage().create_index(schema)
    w = writing.BufferedWriter(ix, period=None, limit=100) if buffered else ix.writer()
    for v in (5, 3, 9, 1, 7):
        w.add_document(id=u"d%d" % v, num=v)
    w.close() if buffered else w.commit()
    with ix.searcher() as s:
        return [h["num"] for h in s.search(query.Every(), sortedby="num", limit=None)]
plain, buf = build(False), build(True)
print("plain writer   :", plain)
print("BufferedWriter :", buf)
sys.exit(0 if plain == buf == [1, 3, 5, 7, 9] else 1)
