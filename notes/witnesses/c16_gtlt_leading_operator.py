import sys
from whoosh import fields
from whoosh.qparser import QueryParser, GtLtPlugin
schema = fields.Schema(f=fields.TEXT, n=fields.NUMERIC)
qp = QueryParser("f", schema)
qp.add_plugin(GtLtPlugin())
bad = 0
for text in [u">5", u">= 5 alfa", u"alfa n:>5", u"(>5) alfa", u"n:>5"]:
    try:
        print(repr(text), "->", qp.parse(text))
    except Exception as e:
        print(repr(text), "DEFECT:", type(e).__name__, e); bad += 1
sys.exit(1 if bad else 0)
