"""Not(NullQuery) matches every document, but normalizes to NullQuery (no document)."""
import sys
from whoosh import fields
from whoosh.filedb.filestore import RamStorage
from whoosh.query import Not, NullQuery, Term, And, Or
from whoosh.qparser import QueryParser
schema = fields.Schema(f=fields.TEXT(stored=True))
ix = RamStorage().create_index(schema)
w = ix.writer(); w.add_document(f=u"alfa bravo"); w.add_document(f=u"charlie"); w.commit()
bad = 0
with ix.searcher() as s:
    for q in (Not(NullQuery), Or([Term("f", u"alfa"), Not(NullQuery)]), And([Term("f", u"alfa"), Not(NullQuery)])):
        raw = sorted(s.docs_for_query(q))
        nz = sorted(s.docs_for_query(q.normalize()))
        print(q, raw, "normalized:", q.normalize(), nz)
        if raw != nz:
            print("DEFECT: normalize() changed the matched set"); bad += 1
    # through the parser: "NOT the" (a stop word) is NOT of nothing
    q = QueryParser("f", schema).parse(u"NOT the")
    print("parse('NOT the') ->", repr(q), sorted(s.docs_for_query(q)))
sys.exit(1 if bad else 0)
