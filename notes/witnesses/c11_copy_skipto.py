import warnings; warnings.simplefilter('ignore')
from whoosh import fields, query, scoring
from whoosh.filedb.filestore import RamStorage
from whoosh.matching import ListMatcher, MultiMatcher, CoordMatcher
def t(name, fn):
    try: print(name, '->', fn())
    except Exception as e: print(name, 'RAISED', type(e).__name__, e)
m=ListMatcher([1,2],[1.0,1.0],term=("f","alfa"))
t("ListMatcher.copy().term()", lambda: m.copy().term())
class S:
    def score(self, m): return 7.0
mm=MultiMatcher([ListMatcher([1]),ListMatcher([2])],[0,10],scorer=S())
t("MultiMatcher.score()", lambda: mm.score())
t("MultiMatcher.copy().score()", lambda: mm.copy().score())
cm=CoordMatcher(ListMatcher([1,2],[1.0,1.0],term=("f","alfa")), scale=2.0)
t("CoordMatcher.copy()", lambda: type(cm.copy()).__name__)
# NestedParent skip_to not beyond current
ix=RamStorage().create_index(fields.Schema(kind=fields.ID, name=fields.ID(stored=True)))
w=ix.writer()
for p in range(3):
    with w.group():
        w.add_document(kind="parent", name="p%d"%p)
        w.add_document(kind="child", name="c%da"%p)
        w.add_document(kind="child", name="c%db"%p)
w.commit()
with ix.searcher() as s:
    q=query.NestedParent(query.Term("kind","parent"), query.Term("kind","child"))
    m=q.matcher(s, s.context())
    cur=m.id(); m.skip_to(cur); print("NestedParent at",cur,"skip_to(%d) ->"%cur, m.id() if m.is_active() else None, "expected", cur)
