from whoosh import fields
from whoosh.filedb.filestore import RamStorage
from whoosh.query import Term, Or
schema = fields.Schema(f=fields.TEXT(stored=True))
ix = RamStorage().create_index(schema)
w = ix.writer()
w.add_document(f=u"alfa bravo charlie"); w.add_document(f=u"alfa xray yankee"); w.add_document(f=u"bravo bravo bravo charlie")
w.commit()
with ix.searcher() as s:
    q = Or([Term("f", "alfa"), Term("f", "bravo"), Term("f", "charlie")], scale=0.9)
    q2 = q.accept(lambda x: x)
    print(q.scale, q2.scale, type(q2))
    print([(h.docnum, round(h.score, 6)) for h in s.search(q, limit=None)])
    print([(h.docnum, round(h.score, 6)) for h in s.search(q2, limit=None)])
    q3 = Or([Term("f", "alfa"), Term("f", "bravo"), Term("f", "charlie")])
    print([(h.docnum, round(h.score, 6)) for h in s.search(q3, limit=None)])
