import sys
from whoosh import fields
from whoosh.filedb.filestore import RamStorage
from whoosh.query import Term
from whoosh.query.spans import SpanCondition
schema = fields.Schema(t=fields.TEXT)
ix = RamStorage().create_index(schema)
w = ix.writer(); w.add_document(t=u"alfa bravo"); w.add_document(t=u"alfa charlie"); w.commit()
with ix.searcher() as s:
    m = SpanCondition(Term("t", u"alfa"), Term("t", u"bravo")).matcher(s)
    try:
        print("depth", m.depth(), "ids", list(m.all_ids()))
    except Exception as e:
        print("DEFECT:", type(e).__name__, e); sys.exit(1)
