"""OverlayStorage.create_index()/open_index() and FieldWrapper.parse_range() returned None (fixed by a5e65de, 5a8fafe)."""
from whoosh import fields
from whoosh.filedb.filestore import RamStorage, OverlayStorage
a, b = RamStorage(), RamStorage()
assert OverlayStorage(a, b).create_index(fields.Schema(t=fields.TEXT)) is not None
assert OverlayStorage(b, a).open_index() is not None


class W(fields.FieldWrapper):
    pass


q = W(fields.NUMERIC(int), "p_").parse_range("n", "1", "5", False, False)
assert q is not None and q.__class__.__name__ == "NumericRange", q
print("ok")
