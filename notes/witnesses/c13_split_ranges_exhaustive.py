"""split_ranges() emitted the whole top tier for a range ending in the lowest block (fixed by 4ff8db2): exhaustive tiling check."""
import sys
from whoosh.util.numeric import split_ranges
def covered(intsize, step, a, b):
    out=[]
    for s,e,shift in split_ranges(intsize, step, a, b):
        # terms at this shift: values v>>shift in [s>>shift, e>>shift]
        lo=(s>>shift)<<shift; hi=((e>>shift)<<shift) | ((1<<shift)-1)
        out.append((lo,hi,shift))
    return out
bad=0; n=0
for intsize,step in ((8,4),(8,2),(8,3),(16,4)):
    top=2**intsize
    rng = range(top) if intsize==8 else list(range(0,70))+list(range(top-70,top))+list(range(4000,4100))
    for a in rng:
        for b in rng:
            if b<a: continue
            n+=1
            cov=covered(intsize,step,a,b)
            # every covered block must lie inside [a,b], blocks must not overlap, and their total size is b-a+1
            tot=sum(hi-lo+1 for lo,hi,_ in cov)
            inside=all(a<=lo and hi<=b for lo,hi,_ in cov)
            if not inside or tot!=b-a+1:
                bad+=1
                if bad<6: print("BAD",intsize,step,a,b,cov)
print("pairs",n,"bad",bad)
