"""Or.matcher_type = Or.SPLIT_MATCHER selects SplitOr, whose matcher() refers to a matcher API that does not exist
(matching.ArrayMatcher, .limit_quality(), .set_min_quality()): every search of an Or with two or more clauses raises AttributeError.
Known finding (not repaired: the missing class is new code, not a patch)."""
from whoosh import fields, query
from whoosh.filedb.filestore import RamStorage
ix = RamStorage().create_index(fields.Schema(t=fields.TEXT))
w = ix.writer()
w.add_document(t=u"alfa bravo")
w.add_document(t=u"bravo charlie")
w.commit()
q = query.Or([query.Term("t", "alfa"), query.Term("t", "charlie")])
q.matcher_type = query.Or.SPLIT_MATCHER
try:
    with ix.searcher() as s:
        print(len(s.search(q)))
except AttributeError as e:
    print("AttributeError:", e)
