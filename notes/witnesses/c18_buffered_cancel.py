import warnings; warnings.simplefilter('ignore')
from whoosh import fields, writing, index
from whoosh.filedb.filestore import RamStorage
ix=RamStorage().create_index(fields.Schema(t=fields.ID(stored=True)))
bw=writing.BufferedWriter(ix, period=None, limit=100)
bw.add_document(t=u"x")
bw.cancel()
try:
    w=ix.writer(timeout=0.2); w.cancel(); print('after BufferedWriter.cancel(): index writable again; docs:', ix.doc_count())
except index.LockError: print('after BufferedWriter.cancel(): LockError -- the write lock is still held')
