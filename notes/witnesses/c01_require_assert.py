import warnings; warnings.simplefilter('ignore')
from whoosh import fields, query, scoring
from whoosh.filedb.filestore import RamStorage
ix=RamStorage().create_index(fields.Schema(t=fields.TEXT))
w=ix.writer()
for i in range(40): w.add_document(t="alfa bravo" if i%2 else "alfa bravo alfa")
w.commit()
q=query.Require(query.Term("t","alfa"),query.Term("t","bravo"))
with ix.searcher() as s:
    full=[(h.docnum,round(h.score,4)) for h in s.search(q,limit=None)]
    try:
        top=[(h.docnum,round(h.score,4)) for h in s.search(q,limit=5)]
        print('top5 == full[:5]:', top==full[:5])
    except AssertionError as e:
        print('AssertionError from search(Require(...), limit=5)')
