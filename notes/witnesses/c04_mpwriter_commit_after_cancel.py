"""MpWriter.commit() on a writer that was cancelled (lock released) commits anyway -- without the lock."""
import sys, tempfile, shutil
from whoosh import fields, index
from whoosh.writing import IndexingError

def main():
    d = tempfile.mkdtemp()
    try:
        schema = fields.Schema(id=fields.ID(stored=True))
        ix = index.create_in(d, schema)
        w = ix.writer(procs=2, multisegment=True)
        for i in range(20):
            w.add_document(id=u"%d" % i)
        w.cancel()                       # releases the lock; the writer is finished
        w2 = ix.writer()                 # the next writer legitimately takes the lock
        w2.add_document(id=u"other")
        try:
            w.commit()                   # a finished writer must refuse
        except IndexingError as e:
            print("commit after cancel refused:", e)
            w2.commit()
            return 0
        except Exception as e:
            print("commit after cancel raised", type(e).__name__, e)
        print("generation now:", ix.latest_generation(), "(written by a writer that does not hold the lock)")
        try:
            w2.commit()
            print("w2.commit() ok; generation", ix.latest_generation())
        except Exception as e:
            print("DEFECT: the lock holder's commit failed:", type(e).__name__, e)
            return 1
        with ix.searcher() as s:
            ids = sorted(f["id"] for f in s.all_stored_fields())
        print(len(ids), "documents")
        return 1 if len(ids) != 1 else 0
    finally:
        shutil.rmtree(d, ignore_errors=True)

if __name__ == "__main__":
    sys.exit(main())
