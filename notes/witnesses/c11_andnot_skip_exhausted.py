"""AndNotMatcher.skip_to()/skip_to_quality() past the end of the positive matcher raised IndexError (fixed by eccd419)."""
from whoosh.matching import ListMatcher, AndNotMatcher, IntersectionMatcher
m = AndNotMatcher(ListMatcher([1, 5]), ListMatcher([2, 9]))
m.skip_to(7)
assert not m.is_active()
m = IntersectionMatcher(ListMatcher([8, 9]), AndNotMatcher(ListMatcher([1, 5]), ListMatcher([2, 9])))
assert list(m.all_ids()) == []
m = IntersectionMatcher(ListMatcher([5, 9]), AndNotMatcher(ListMatcher([1, 5, 9]), ListMatcher([2, 9])))
assert list(m.all_ids()) == [5]
print("ok")
