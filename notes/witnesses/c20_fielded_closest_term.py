"""FieldedOrderedHashReader.closest_term() read outside the position index (fixed by b7ad085)."""
from whoosh.filedb.filestore import RamStorage
from whoosh.filedb.filetables import FieldedOrderedHashWriter, FieldedOrderedHashReader
st = RamStorage()
w = FieldedOrderedHashWriter(st.create_file("t"))
keys = [b"alfa", b"bravo", b"charlie", b"delta", b"echo"]
for fname, tag in (("a", b"v"), ("b", b"w")):
    w.start_field(fname)
    for k in keys:
        w.add(k, tag + k)
    w.end_field()
w.close()
r = FieldedOrderedHashReader(st.open_file("t"))
for fname in "ab":
    assert [r.closest_term(fname, p) for p in (b"a", b"alfa", b"b", b"dz", b"z")] == [b"alfa", b"alfa", b"bravo", b"echo", None]
    assert len(list(r.term_ranges_from(fname, b"c"))) == 3
print("ok")
