"""NumericRange on an unsigned field: [0,1] and {5 TO 7} matched every document (fixed by 4ff8db2); an exclusive bound at the edge
of the domain raised struct.error (fixed by 3d0f514)."""
from whoosh import fields, query
from whoosh.filedb.filestore import RamStorage


def mk(ft, vals):
    ix = RamStorage().create_index(fields.Schema(n=ft, id=fields.STORED))
    w = ix.writer()
    for v in vals:
        w.add_document(n=v, id=v)
    w.commit()
    return ix.searcher()


def run(s, q):
    return sorted(h["id"] for h in s.search(q, limit=None))


s = mk(fields.NUMERIC(int, bits=32, signed=False), [0, 1, 2, 3, 5, 6, 7, 100, 1000, 70000])
assert run(s, query.NumericRange("n", 0, 1)) == [0, 1]
assert run(s, query.NumericRange("n", 0, 0)) == [0]
assert run(s, query.NumericRange("n", 5, 6, startexcl=True, endexcl=True)) == []
assert run(s, query.NumericRange("n", 5, 7, startexcl=True, endexcl=True)) == [6]
s2 = mk(fields.NUMERIC(int, bits=32, signed=True), [-2 ** 31, -5, 0, 5, 2 ** 31 - 1])
assert run(s2, query.NumericRange("n", -2 ** 31, -2 ** 31)) == [-2 ** 31]
assert run(s2, query.NumericRange("n", 2 ** 31 - 1, None, startexcl=True)) == []
assert run(s2, query.NumericRange("n", None, -2 ** 31, endexcl=True)) == []
print("ok")
