import warnings; warnings.simplefilter('ignore')
from whoosh import fields, query
from whoosh.filedb.filestore import RamStorage
ix=RamStorage().create_index(fields.Schema(t=fields.TEXT, g=fields.ID(sortable=True, stored=True)))
w=ix.writer()
for i in range(600): w.add_document(t="alfa", g=str(i%7))
w.commit()
q=query.Term("t","alfa")
with ix.searcher() as s:
    none=query.Term("t","nosuchword")
    print('filter matching nothing: limit=5 len', len(s.search(q,limit=5,filter=none)), '; unlimited len', len(s.search(q,limit=None,filter=none)))
    r=s.search(q,limit=5,collapse="g"); r2=s.search(q,limit=None,collapse="g")
    try: print('collapse: limit=5 len', len(r), '; unlimited len', len(r2), '; hits', len(list(r2)))
    except Exception as e: print('collapse len RAISED', type(e).__name__, e)
