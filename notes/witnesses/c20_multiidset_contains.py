"""MultiIdSet membership looked in the wrong sub-set (fixed by bf6d569)."""
from whoosh.idsets import MultiIdSet, SortedIntSet
m = MultiIdSet([SortedIntSet([1, 3]), SortedIntSet([0, 2])], [0, 10])
assert list(m) == [1, 3, 10, 12]
assert [x in m for x in (1, 3, 10, 12, 11, 2, 0, 99)] == [True, True, True, True, False, False, False, False]
print("ok")
