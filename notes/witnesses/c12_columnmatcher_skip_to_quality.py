"""ColumnMatcher.skip_to_quality returned True or (falling off the end) None where every matcher returns a count: a scored ColumnQuery
search with a limit smaller than the number of matching documents raised TypeError in the collector (skipped_times += None).
Exit 1 while the defect is present."""
import sys
from whoosh import fields
from whoosh.filedb.filestore import RamStorage
from whoosh.query import ColumnQuery
ix = RamStorage().create_index(fields.Schema(id=fields.ID(stored=True), n=fields.NUMERIC(sortable=True)))
with ix.writer() as w:
    for i in range(8):
        w.add_document(id=u"d%d" % i, n=0)
with ix.searcher() as s:
    try:
        r = s.search(ColumnQuery("n", 0), limit=2)
        print(len(r.top_n), "hits of", len(r))
        sys.exit(0 if len(r.top_n) == 2 else 1)
    except TypeError as e:
        print("TypeError:", e)
        sys.exit(1)
