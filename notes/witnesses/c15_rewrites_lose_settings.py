import sys
from whoosh import fields, query
from whoosh.filedb.filestore import RamStorage
from whoosh.query import Term, Or, And, DisjunctionMax, TermRange, Not, NestedParent
bad = []
# (b) Or.apply / simplify lose minmatch & scale; DisjunctionMax loses tiebreak
q = Or([Term("f", "a"), Term("f", "b")], scale=0.5, minmatch=1)
r = q.replace("f", "a", "z")
if (r.scale, r.minmatch) != (0.5, 1): bad.append(("Or.replace loses scale/minmatch", r.scale, r.minmatch))
d = DisjunctionMax([Term("f", "a"), Term("f", "b")], tiebreak=0.3)
r = d.replace("f", "a", "z")
if r.tiebreak != 0.3: bad.append(("DisjunctionMax.replace loses tiebreak", r.tiebreak))
# (c)
n = NestedParent(Term("kind", "p"), Term("f", "a"), per_parent_limit=1, score_fn=max)
r = n.normalize()
if (r.per_parent_limit, r.score_fn) != (1, max): bad.append(("NestedParent.normalize loses per_parent_limit/score_fn", r.per_parent_limit, r.score_fn))
# (d)
t = TermRange("f", "a", "c", constantscore=False)
r = t.normalize()
if r.constantscore is not False: bad.append(("TermRange.normalize loses constantscore", r.constantscore))
# (f)
r = Not(Term("f", "a"), boost=2.0).replace("f", "a", "z")
if r.boost != 2.0: bad.append(("Not.apply loses boost", r.boost))
# behavioural: scale changes scores after a no-op rewrite
schema = fields.Schema(f=fields.TEXT(stored=True))
ix = RamStorage().create_index(schema)
w = ix.writer()
w.add_document(f=u"a b c"); w.add_document(f=u"a x y"); w.add_document(f=u"b b b c")
w.commit()
with ix.searcher() as s:
    q = Or([Term("f", "a"), Term("f", "b"), Term("f", "c")], scale=0.9)
    q2 = q.accept(lambda x: x)
    s1 = [(h.docnum, round(h.score, 6)) for h in s.search(q, limit=None)]
    s2 = [(h.docnum, round(h.score, 6)) for h in s.search(q2, limit=None)]
    if s1 != s2: bad.append(("Or(scale=.9).accept(identity) scores differ", s1, s2))
    d = DisjunctionMax([Term("f", "a"), Term("f", "b"), Term("f", "c")], tiebreak=0.5)
    d2 = d.accept(lambda x: x)
    s1 = [(h.docnum, round(h.score, 6)) for h in s.search(d, limit=None)]
    s2 = [(h.docnum, round(h.score, 6)) for h in s.search(d2, limit=None)]
    if s1 != s2: bad.append(("DisjunctionMax(tiebreak=.5).accept(identity) scores differ", s1, s2))
for b in bad: print("DEFECT", b)
sys.exit(1 if bad else 0)
