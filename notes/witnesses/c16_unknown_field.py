import warnings; warnings.simplefilter('ignore')
from whoosh import fields, query
from whoosh.filedb.filestore import RamStorage
ix=RamStorage().create_index(fields.Schema(t=fields.TEXT, n=fields.NUMERIC))
w=ix.writer(); w.add_document(t="alfa", n=1); w.commit()
qs=[query.Term("nope","x"), query.Prefix("nope","a"), query.Wildcard("nope","a*"), query.Regex("nope","a.*"), query.FuzzyTerm("nope","alfa"),
    query.TermRange("nope","a","z"), query.Variations("nope","render"), query.NumericRange("nope",1,2), query.NumericRange("t",1,2), query.Phrase("nope",["a","b"])]
with ix.searcher() as s:
    for q in qs:
        try: print(repr(q)[:50].ljust(52), len(s.search(q)))
        except Exception as e: print(repr(q)[:50].ljust(52), 'RAISED', type(e).__name__, str(e)[:50])
