"""With DateParserPlugin, a date the calendar does not have ('feb 30', a range starting at 'april 31') made QueryParser.parse() raise
ValueError from datetime(): text_to_dt caught only DateParseError, range_to_dt nothing.  Exit 1 while the defect is present."""
import sys
from whoosh import fields, qparser
from whoosh.qparser import dateparse
schema = fields.Schema(t=fields.TEXT, d=fields.DATETIME)
p = qparser.QueryParser("t", schema)
p.add_plugin(dateparse.DateParserPlugin())
bad = 0
for s in [u"d:'feb 30'", u"d:'february 30 2011'", u"d:['feb 30' to 'mar 5']", u"d:[20100101 to 'feb 30 2011']", u"d:'feb 20'"]:
    try:
        print(repr(s), "->", repr(p.parse(s)))
    except qparser.QueryParserError as e:
        print(repr(s), "QueryParserError", e)
    except Exception as e:
        bad += 1
        print(repr(s), "RAISED", type(e).__name__, e)
sys.exit(1 if bad else 0)
