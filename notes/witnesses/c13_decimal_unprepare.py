"""Decimal NUMERIC values below 1 / negative ones did not come back (repaired).  Before: 0.5 and InvalidOperation."""
from decimal import Decimal
from whoosh import fields
f = fields.NUMERIC(Decimal, decimal_places=2, sortable=True)
for v in ("0.05", "-0.05", "-1.50", "12.30"):
    try:
        print(v, f.from_column_value(f.to_column_value(Decimal(v))), f.from_bytes(f.to_bytes(Decimal(v))))
    except Exception as e:
        print(v, "raised", type(e).__name__)
