import warnings; warnings.simplefilter('ignore')
from whoosh import fields
from whoosh.qparser import QueryParser
schema = fields.Schema(t=fields.TEXT, d=fields.DATETIME, n=fields.NUMERIC, p=fields.NUMERIC(decimal_places=2))
qp = QueryParser("t", schema)
for s_ in [u"d:[foo TO bar]", u"d:[2010 TO 20xx]", u"n:[a TO b]", u"p:[abc TO 5]"]:
    try: print(repr(s_), "->", repr(qp.parse(s_))[:70])
    except Exception as e: print(repr(s_), "RAISED", type(e).__name__, str(e)[:60])
