import warnings; warnings.simplefilter('ignore')
from whoosh import fields
from whoosh.filedb.filestore import RamStorage
schema=fields.Schema(id=fields.ID(stored=True))
ix=RamStorage().create_index(schema)
w=ix.writer(); w.add_document(id=u"a"); w.add_document(id=u"b"); w.commit(merge=False)
w=ix.writer(); w.add_field("n", fields.NUMERIC(sortable=True)); w.add_document(id=u"c", n=7); w.add_document(id=u"d", n=9); w.commit(merge=False)
w=ix.writer(); w.remove_field("n") if False else None; w.add_document(id=u"e"); w.commit(merge=False)
with ix.reader() as r:
    cr=r.column_reader("n")
    vals=[cr[i] for i in range(r.doc_count_all())] if True else None
    print('segments', len(r.leaf_readers()), 'values by docnum:', vals)
