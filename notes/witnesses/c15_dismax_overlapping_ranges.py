"""DisjunctionMax has no intersect_merge setting (And, Or and Sequence have): normalize() of a DisjunctionMax with two overlapping
ranges raised AttributeError.  Exit 1 while the defect is present."""
import sys
from whoosh import fields, query
from whoosh.filedb.filestore import RamStorage
ix = RamStorage().create_index(fields.Schema(f=fields.ID(stored=True)))
with ix.writer() as w:
    for x in u"alfa kilo mike zulu".split():
        w.add_document(f=x)
q = query.DisjunctionMax([query.TermRange("f", u"a", u"l"), query.TermRange("f", u"k", u"n")])
with ix.searcher() as s:
    before = sorted(h["f"] for h in s.search(q, limit=None))
    try:
        n = q.normalize()
    except AttributeError as e:
        print("AttributeError:", e)
        sys.exit(1)
    after = sorted(h["f"] for h in s.search(n, limit=None))
    print(n, before, after)
    sys.exit(0 if before == after == [u"alfa", u"kilo", u"mike"] else 1)
