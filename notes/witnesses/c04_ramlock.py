import time
from whoosh.filedb.filestore import RamStorage
from whoosh import fields, index
st=RamStorage(); ix=st.create_index(fields.Schema(a=fields.ID))
w=ix.writer()
t=time.time()
try:
    import threading
    res=[]
    def second():
        try:
            ix.writer(timeout=0.2); res.append('got writer')
        except index.LockError: res.append('LockError')
    th=threading.Thread(target=second,daemon=True); th.start(); th.join(3)
    print(res or 'BLOCKED >3s', round(time.time()-t,2))
finally:
    pass
