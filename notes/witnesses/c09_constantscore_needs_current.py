import warnings; warnings.simplefilter('ignore')
from whoosh import fields, query, scoring
from whoosh.filedb.filestore import RamStorage
ix=RamStorage().create_index(fields.Schema(t=fields.TEXT))
w=ix.writer()
for d in ["alfa alfa alfa","alfa","charlie"]: w.add_document(t=d)
w.commit()
q=query.ConstantScoreQuery(query.Term("t","alfa"), 5.0)
with ix.searcher(weighting=scoring.Frequency()) as s:
    print('plain      ', [(h.docnum,h.score) for h in s.search(q,limit=None)])
    print('terms=True ', [(h.docnum,h.score) for h in s.search(q,limit=None,terms=True)], 'expected the same constant 5.0')
