"""A limited search over documents still buffered by a BufferedWriter crashed (memory codec: ListMatcher with a scorer but no
terminfo; fixed by aa933b0); the plain-text codec built the same matcher (fixed by 51b4180)."""
import os, shutil, tempfile
from whoosh import fields, query, writing, index
from whoosh.filedb.filestore import RamStorage
ix = RamStorage().create_index(fields.Schema(t=fields.TEXT, id=fields.STORED))
w = ix.writer(); w.add_document(t=u"alfa bravo", id=0); w.commit()
bw = writing.BufferedWriter(ix, period=None, limit=100)
for i in range(1, 15):
    bw.add_document(t=u"alfa charlie", id=i)
s = bw.searcher()
full = [h["id"] for h in s.search(query.Term("t", "alfa"), limit=None)]
assert [h["id"] for h in s.search(query.Term("t", "alfa"), limit=3)] == full[:3]
bw.close()
print("memory codec ok")
from whoosh.codec.plaintext import PlainTextCodec
d = tempfile.mkdtemp()
try:
    ix = index.create_in(d, fields.Schema(t=fields.TEXT, id=fields.STORED))
    w = ix.writer(codec=PlainTextCodec())
    for i in range(15):
        w.add_document(t=u"alfa charlie", id=i)
    w.commit()
    with ix.searcher() as s:
        assert len(s.search(query.Term("t", "alfa"), limit=3)) == 15
        print("plaintext codec ok")
finally:
    shutil.rmtree(d)
