"""ListCorrector skips words: the lookup helper advances past a candidate it never compared."""
import sys
from whoosh.spelling import ListCorrector
from whoosh.support.levenshtein import distance
bad = 0
for words in ([u"alfa", u"alfe", u"bravo"], [u"alfa", u"alfb", u"alfc", u"alfd", u"alfe"], [u"aaaa", u"alfa", u"alfe"]):
    got = sorted(ListCorrector(words).suggest(u"alfo", limit=10, maxdist=1))
    want = sorted(w for w in words if distance(w, u"alfo") <= 1 and w != u"alfo")
    print(words, "->", got, "expected", want)
    if got != want:
        bad += 1
if bad:
    print("DEFECT: words within the distance are missing from the suggestions")
sys.exit(1 if bad else 0)
