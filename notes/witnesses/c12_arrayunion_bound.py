import warnings; warnings.simplefilter('ignore')
from whoosh import fields, query, scoring
from whoosh.filedb.filestore import RamStorage
ix=RamStorage().create_index(fields.Schema(kind=fields.ID, t=fields.TEXT))
w=ix.writer()
for p in range(30):
    with w.group():
        w.add_document(kind="parent", t="alfa")
        w.add_document(kind="child", t="bravo")
        w.add_document(kind="child", t="charlie")
w.commit()
with ix.searcher() as s:
    q=query.NestedChildren(query.Term("kind","parent"), query.Term("t","alfa"))
    m=q.matcher(s, s.context())
    print(type(m).__name__, 'supports_block_quality', m.supports_block_quality())
    if m.supports_block_quality():
        print('score', m.score(), 'block_quality', m.block_quality(), 'max_quality', m.max_quality(),
              '-> bound below score' if m.block_quality() < m.score() else '-> ok')
    # ArrayUnion: max_quality vs actual scores
    q3=query.Or([query.Term("t","alfa"),query.Term("t","bravo"),query.Term("t","charlie")], boost=2.0)
w=ix.writer(); w.add_document(kind="x", t="alfa bravo charlie"); w.commit(merge=False)
with ix.searcher() as s:
    for sub,_ in s.leaf_searchers():
        m=q3.matcher(sub, sub.context())
        if not m.is_active(): continue
        mq=m.max_quality(); best=0
        while m.is_active(): best=max(best,m.score()); m.next()
        print(type(m).__name__,'max_quality',round(mq,3),'best score',round(best,3), '-> bound below score' if mq<best else '-> ok')
