"""DisMaxParser(fieldboosts, schema, tiebreak=...) never used its tiebreak argument: the DisjunctionMax queries it builds always had
tiebreak 0.0.  Exit 1 while the defect is present."""
import sys
from whoosh import fields, query
from whoosh.qparser import DisMaxParser
schema = fields.Schema(title=fields.TEXT, body=fields.TEXT)
p = DisMaxParser({"title": 2.0, "body": 1.0}, schema, tiebreak=0.3)
q = p.parse(u"alfa bravo")
dm = [x for x in q.all_tokens()] if False else None
found = []
def walk(x):
    if isinstance(x, query.DisjunctionMax):
        found.append(x.tiebreak)
    for c in x.children():
        walk(c)
walk(q)
print(q, found)
sys.exit(0 if found and all(t == 0.3 for t in found) else 1)
