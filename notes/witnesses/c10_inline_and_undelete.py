import warnings; warnings.simplefilter('ignore')
from whoosh import fields, query
from whoosh.filedb.filestore import RamStorage
from whoosh.codec.whoosh3 import W3Codec
ix=RamStorage().create_index(fields.Schema(t=fields.TEXT))
try:
    w=ix.writer(codec=W3Codec(inlinelimit=2)); w.add_document(t=u"alfa bravo"); w.commit()
    with ix.searcher() as s: print('inlinelimit=2: hits for alfa:', len(s.search(query.Term("t","alfa"))))
except Exception as e: print('inlinelimit=2 RAISED', type(e).__name__, e)
ix=RamStorage().create_index(fields.Schema(t=fields.ID(stored=True)))
w=ix.writer(); w.add_document(t=u"a"); w.add_document(t=u"b"); w.commit()
w=ix.writer()
w.delete_document(0)
try:
    w.delete_document(0, delete=False); w.commit()
    with ix.searcher() as s: print('undelete: live docs', s.doc_count(), 'expected 2')
except Exception as e: print('undelete RAISED', type(e).__name__, e)
