import warnings; warnings.simplefilter('ignore')
from whoosh import fields, query, scoring
from whoosh.filedb.filestore import RamStorage
ix=RamStorage().create_index(fields.Schema(t=fields.TEXT))
w=ix.writer()
for d in ["alfa","alfa","bravo bravo bravo","alfa"]: w.add_document(t=d)
w.commit()
q=query.DisjunctionMax([query.Term("t","alfa"),query.Term("t","bravo")])
with ix.searcher(weighting=scoring.Frequency()) as s:
    got=sorted((h.docnum,h.score) for h in s.search(q,limit=None))
    print('DisjunctionMax scores', got, 'expected [(0,1.0),(1,1.0),(2,3.0),(3,1.0)]')
