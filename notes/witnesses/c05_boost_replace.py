import warnings, random; warnings.simplefilter('ignore')
from whoosh import fields, query, scoring
from whoosh.filedb.filestore import RamStorage
def build(seed, n=3000):
    rnd=random.Random(seed)
    ix=RamStorage().create_index(fields.Schema(t=fields.TEXT))
    w=ix.writer()
    for i in range(n):
        words=[]
        for wd,p,mx in (("alfa",0.9,6),("bravo",0.5,6),("charlie",0.3,4)):
            if rnd.random()<p: words += [wd]*rnd.randint(1,mx)
        words += ["zulu"]*rnd.randint(0,30)
        w.add_document(t=" ".join(words) or "zulu")
    w.commit(); return ix
T=lambda x: query.Term("t",x)
for boost in (1.0, 3.0):
    bad=0; ex=None; tot=0
    for seed in range(4):
        ix=build(seed)
        for q in (query.Or([T("alfa"),T("charlie")],boost=boost), query.And([T("alfa"),T("charlie")],boost=boost)):
            with ix.searcher() as s:
                full=[(h.docnum,round(h.score,4)) for h in s.search(q,limit=None)]
                for k in (3,10,30):
                    tot+=1
                    top=[(h.docnum,round(h.score,4)) for h in s.search(q,limit=k)]
                    if top!=full[:k]: bad+=1; ex=ex or (str(q),k,top[:2],full[:2])
    print('boost',boost,'mismatches %d/%d'%(bad,tot), ex or '')
