"""Searcher.refresh() after an optimizing commit returned every old document twice (fixed by 01857cc).

Still open (no rule decides it; see DESIGN C15): a searcher taken from a BufferedWriter before its commit and refreshed after it
keeps the in-memory segment whose documents the commit has just written, so those documents come back twice (last block)."""
import os, shutil, tempfile
from whoosh import index, fields, query, writing
d = tempfile.mkdtemp()
try:
    schema = fields.Schema(id=fields.ID(stored=True), t=fields.TEXT)
    ix = index.create_in(d, schema)
    for i in range(3):
        w = ix.writer(); w.add_document(id=str(i), t=u"alfa"); w.commit(merge=False)
    s = ix.searcher()
    w = ix.writer(); w.add_document(id=u"3", t=u"alfa"); w.commit(optimize=True)
    s = s.refresh()
    ids = sorted(h["id"] for h in s.search(query.Term("t", "alfa"), limit=None))
    assert ids == ["0", "1", "2", "3"], ids
    w = ix.writer(); w.add_document(id=u"4", t=u"alfa"); w.commit(merge=False)
    s = s.refresh()
    assert s.doc_count() == 5
    bw = writing.BufferedWriter(ix, period=None, limit=100)
    bw.add_document(id=u"5", t=u"alfa")
    bs = bw.searcher().refresh()
    assert bs.doc_count() == 6      # the buffered document survives a refresh (tests/test_searching.py::test_buffered_refresh)
    bw.commit()
    bs = bs.refresh()
    print("after buffered commit + refresh:", bs.doc_count(), "(a fresh searcher sees", ix.searcher().doc_count(), ")")
    bw.close()
    print("ok")
finally:
    shutil.rmtree(d)
