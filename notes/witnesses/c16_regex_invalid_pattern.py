"""A regular-expression query with an invalid pattern (typed by the user as r"[a" or r"a(") raised re.error at search time; the
contract is that running a parsed query raises at most QueryError.  Exit 1 while the defect is present."""
import re
import sys
from whoosh import fields, qparser, query
from whoosh.filedb.filestore import RamStorage
from whoosh.qparser import plugins
schema = fields.Schema(t=fields.TEXT)
ix = RamStorage().create_index(schema)
with ix.writer() as w:
    w.add_document(t=u"alfa bravo")
p = qparser.QueryParser("t", schema)
p.add_plugin(plugins.RegexPlugin())
bad = 0
with ix.searcher() as s:
    for text in [u'r"[a"', u'r"a("', u'r"*a"', u'r"al.a"']:
        q = p.parse(text)
        try:
            print(repr(text), "->", len(s.search(q)), "hit(s)")
        except query.QueryError as e:
            print(repr(text), "QueryError:", e)
        except re.error as e:
            bad += 1
            print(repr(text), "re.error escaped:", e)
sys.exit(1 if bad else 0)
