"""search(q, collapse=..., filter=...) (or mask=...) ignores the collapse: FilterCollector, the outermost wrapper, drives the chain
document by document through child.collect(), so CollapseCollector.collect_matches -- where the collapsing happens -- never runs.
Exit 1 while the defect is present."""
import sys
from whoosh import fields, query
from whoosh.filedb.filestore import RamStorage
schema = fields.Schema(id=fields.ID(stored=True), k=fields.ID(sortable=True, stored=True), t=fields.TEXT)
ix = RamStorage().create_index(schema)
with ix.writer() as w:
    for i in range(12):
        w.add_document(id=u"d%02d" % i, k=u"k%d" % (i % 3), t=u"alfa " + u"bravo " * (i % 4))
with ix.searcher() as s:
    q = query.Term("t", u"alfa")
    plain = sorted(h["k"] for h in s.search(q, collapse="k", limit=None))
    filtered = sorted(h["k"] for h in s.search(q, collapse="k", filter=query.Every(), limit=None))
    print("collapse only    :", plain)
    print("collapse + filter:", filtered)
    sys.exit(0 if plain == filtered == [u"k0", u"k1", u"k2"] else 1)
