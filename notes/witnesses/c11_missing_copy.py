import warnings; warnings.simplefilter('ignore')
from whoosh import fields, query, sorting
from whoosh.filedb.filestore import RamStorage
ix=RamStorage().create_index(fields.Schema(kind=fields.ID, t=fields.TEXT, n=fields.NUMERIC(sortable=True)))
w=ix.writer()
for p in range(3):
    with w.group():
        w.add_document(kind="parent", t="alfa bravo charlie", n=p)
        w.add_document(kind="child", t="alfa", n=p)
w.commit()
T=lambda x: query.Term("t",x)
def t(name, fn):
    try: print(name, '->', fn())
    except Exception as e: print(name, 'RAISED', type(e).__name__, str(e)[:80])
with ix.searcher() as s:
    ctx=s.context()
    t("Term.copy", lambda: type(T("alfa").matcher(s,ctx).copy()).__name__)
    m3=query.Or([T("alfa"),T("bravo"),T("charlie")]).matcher(s,ctx)
    print(type(m3).__name__)
    t("Or3.reset", lambda: m3.reset())
    t("Or3.copy", lambda: m3.copy())
    np=query.NestedParent(query.Term("kind","parent"), query.Term("kind","child")).matcher(s,ctx)
    t("NestedParent.copy", lambda: np.copy()); t("NestedParent.supports", lambda: np.supports("positions"))
    nc=query.NestedChildren(query.Term("kind","parent"), T("bravo")).matcher(s,ctx)
    print(type(nc).__name__); t("NestedChildren.copy", lambda: nc.copy())
    from whoosh.query.qcolumns import ColumnQuery
    cq=ColumnQuery("n", 1).matcher(s,ctx); print(type(cq).__name__); t("ColumnMatcher.copy", lambda: cq.copy())
