"""Or([Or([Term, SpanNear(...)]), Term]).normalize() raised AttributeError: 'SpanNear' object has no attribute 'boost' (fixed by eaed51b)."""
from whoosh.query import Or, And, Term, SpanNear, NestedParent, ConstantScoreQuery
for inner in (SpanNear(Term("a", "x"), Term("a", "y")), NestedParent(Term("k", "p"), Term("a", "x")), ConstantScoreQuery(Term("a", "x"))):
    for boost in (1.0, 2.0):
        q = Or([Or([Term("a", "b"), inner], boost=boost), Term("a", "d")])
        n = q.normalize()
        assert inner.__class__.__name__ in repr(n)
n = And([And([Term("a", "b"), Term("a", "x")], boost=2.0), Term("a", "d")]).normalize()
assert repr(n) == "And([Term('a', 'b', boost=2.0), Term('a', 'x', boost=2.0), Term('a', 'd')])", repr(n)
print("ok")
