"""Column types without a `_default`: a segment that has no file for the column makes column_reader() raise AttributeError."""
import sys
from whoosh import fields, columns
from whoosh.filedb.filestore import RamStorage

bad = 0
cases = [
    ("CompressedBytesColumn", columns.CompressedBytesColumn(), b"alfa"),
    ("PickleColumn(VarBytes)", columns.PickleColumn(columns.VarBytesColumn()), {"a": 1}),
    ("VarBytesListColumn", columns.VarBytesListColumn(), [b"a", b"b"]),
    ("FixedBytesListColumn", columns.FixedBytesListColumn(2), [b"ab", b"cd"]),
    # CompressedBlockColumn (documented as experimental) is left out: it also fails on gaps inside a segment (known finding)
    ("VarBytesColumn (reference)", columns.VarBytesColumn(), b"alfa"),
]
for name, col, value in cases:
    schema = fields.Schema(id=fields.ID(stored=True), c=fields.STORED(), )
    schema = fields.Schema(id=fields.ID(stored=True), c=fields.COLUMN(col))
    ix = RamStorage().create_index(schema)
    w = ix.writer(); w.add_document(id=u"1", c=value); w.commit()
    w = ix.writer(); w.add_document(id=u"2"); w.commit(merge=False)      # a segment with no value (no column file) for c
    with ix.searcher() as s:
        try:
            cr = s.reader().column_reader("c")
            vals = [cr[i] for i in range(s.reader().doc_count_all())]
            print(name, "->", vals)
        except Exception as e:
            print(name, "DEFECT:", type(e).__name__, e)
            bad += 1
sys.exit(1 if bad else 0)
