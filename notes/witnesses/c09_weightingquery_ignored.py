"""WeightingQuery discards the context it derives, so its weighting model is never used."""
import sys
from whoosh import fields, scoring
from whoosh.filedb.filestore import RamStorage
from whoosh.query import Term
from whoosh.query.wrappers import WeightingQuery

schema = fields.Schema(f=fields.TEXT(stored=True))
ix = RamStorage().create_index(schema)
w = ix.writer()
w.add_document(f=u"alfa bravo charlie")
w.add_document(f=u"alfa alfa alfa bravo")
w.add_document(f=u"bravo charlie")
w.commit()
with ix.searcher() as s:      # searcher default: BM25F
    q = WeightingQuery(Term("f", u"alfa"), scoring.Frequency())
    got = sorted((h.docnum, round(h.score, 6)) for h in s.search(q, limit=None))
with ix.searcher(weighting=scoring.Frequency()) as s:
    want = sorted((h.docnum, round(h.score, 6)) for h in s.search(Term("f", u"alfa"), limit=None))
print("WeightingQuery(Term, Frequency()) under a BM25F searcher:", got)
print("Term under a Frequency searcher:                        ", want)
if got != want:
    print("DEFECT: the query's own weighting model was not used")
    sys.exit(1)
