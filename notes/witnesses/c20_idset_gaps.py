import warnings; warnings.simplefilter('ignore')
from whoosh import idsets
def t(name, fn):
    try: print(name, '->', fn())
    except Exception as e: print(name, 'RAISED', type(e).__name__)
m=idsets.MultiIdSet([idsets.BitSet([1,3]), idsets.BitSet([0,2])],[0,10])
for meth,args in (("first",()),("last",()),("before",(5,)),("after",(1,)),("copy",())): t("MultiIdSet.%s"%meth, lambda: getattr(m,meth)(*args))
r=idsets.ReverseIdSet(idsets.BitSet([1,3]), 6)
for meth,args in (("before",(5,)),("after",(1,)),("copy",())): t("ReverseIdSet.%s"%meth, lambda: getattr(r,meth)(*args))
ro=idsets.RoaringIdSet([1,3])
for meth,args in (("first",()),("last",()),("before",(5,)),("after",(1,)),("copy",())): t("RoaringIdSet.%s"%meth, lambda: getattr(ro,meth)(*args))
