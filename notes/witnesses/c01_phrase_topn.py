import warnings; warnings.simplefilter('ignore')
from whoosh import fields, query, scoring
from whoosh.filedb.filestore import RamStorage
ix=RamStorage().create_index(fields.Schema(t=fields.TEXT(phrase=True)))
w=ix.writer()
for i in range(700):
    if i in (0,1,2): d="alfa bravo "*3
    elif i==3: d="alfa bravo "*4
    elif i==300: d="alfa bravo"
    elif i==512: d="alfa "*6+"zulu "+"bravo "*6
    else: d="alfa zulu bravo"
    w.add_document(t=d)
w.commit()
q=query.Phrase("t",["alfa","bravo"])
with ix.searcher(weighting=scoring.Frequency()) as s:
    full=[(h.docnum,h.score) for h in s.search(q,limit=None)]
    top=[(h.docnum,h.score) for h in s.search(q,limit=3)]
    print('full',full); print('top3',top)
