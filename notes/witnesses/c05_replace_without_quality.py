import warnings; warnings.simplefilter('ignore')
from whoosh import fields, query, scoring
from whoosh.filedb.filestore import RamStorage
ix=RamStorage().create_index(fields.Schema(t=fields.TEXT))
w=ix.writer()
for i in range(600): w.add_document(t="alfa charlie" if i%3 else "alfa")
w.commit()
wt=scoring.FunctionWeighting(lambda searcher, fieldname, text, matcher: 1.0/(matcher.id()+1))
q=query.Or([query.Term("t","alfa"),query.Term("t","charlie")])
with ix.searcher(weighting=wt) as s:
    try: print('limit=5 under FunctionWeighting:', [h.docnum for h in s.search(q,limit=5)])
    except Exception as e: print('RAISED', type(e).__name__, e)
