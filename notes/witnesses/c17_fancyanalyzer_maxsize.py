"""FancyAnalyzer documents `maxsize` ("Words longer that this are removed from the stream") like StandardAnalyzer and
StemmingAnalyzer, but never passed it to its StopFilter.  Exit 1 while the defect is present."""
import sys
from whoosh.analysis import FancyAnalyzer, StandardAnalyzer
text = u"tv television set"
std = [t.text for t in StandardAnalyzer(maxsize=5)(text)]
fancy = [t.text for t in FancyAnalyzer(maxsize=5)(text)]
print("StandardAnalyzer(maxsize=5):", std)
print("FancyAnalyzer(maxsize=5):   ", fancy)
sys.exit(1 if any(len(t) > 5 for t in fancy) else 0)
