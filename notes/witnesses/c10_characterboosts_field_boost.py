"""CharacterBoosts.word_values ignores field_boost in the posting weight (all sibling formats multiply it in)."""
import sys
from whoosh import analysis, formats
ana = analysis.StandardAnalyzer()
bad = 0
for cls in (formats.Frequency, formats.Positions, formats.Characters, formats.PositionBoosts, formats.CharacterBoosts):
    w1 = dict((t, w) for t, f, w, v in cls(field_boost=1.0).word_values(u"alfa bravo alfa", ana))
    w2 = dict((t, w) for t, f, w, v in cls(field_boost=2.0).word_values(u"alfa bravo alfa", ana))
    ok = all(abs(w2[t] - 2.0 * w1[t]) < 1e-9 for t in w1)
    print(cls.__name__, w1, w2, "ok" if ok else "DEFECT: field_boost not applied")
    bad += not ok
sys.exit(1 if bad else 0)
