"""NUMERIC column default in the wrong domain (repaired by ca58e1b).
Before the fix: first block prints a group key -2147483643 / order ['b','c','a'] (the document without a value sorts
before -3); the float field raises struct.error at add_document().  After: 5 / ['c','b','a'] and [1.5, nan, -3.25]."""
from whoosh import fields, query
from whoosh.filedb.filestore import RamStorage

schema = fields.Schema(id=fields.ID(stored=True), n=fields.NUMERIC(int, sortable=True, default=5))
ix = RamStorage().create_index(schema)
w = ix.writer(); w.add_document(id=u"a", n=7); w.add_document(id=u"b"); w.add_document(id=u"c", n=-3); w.commit()
with ix.searcher() as s:
    print([h['id'] for h in s.search(query.Every(), sortedby="n")])
    print(s.search(query.Every(), groupedby="n").groups("n"))
schema = fields.Schema(id=fields.ID(stored=True), f=fields.NUMERIC(float, sortable=True))
ix = RamStorage().create_index(schema)
w = ix.writer(); w.add_document(id=u"a", f=1.5); w.add_document(id=u"b"); w.add_document(id=u"c", f=-3.25); w.commit()
with ix.searcher() as s:
    print(list(s.reader().column_reader("f")))
