import warnings; warnings.simplefilter('ignore')
from whoosh.matching import ListMatcher, AndNotMatcher, AndMaybeMatcher, UnionMatcher, DisjunctionMaxMatcher, MultiMatcher, FilterMatcher
from whoosh.matching.wrappers import RequireMatcher
def ids(m):
    out=[]
    while m.is_active():
        out.append(m.id()); m.next()
    return out
# (a) AndNot first doc leak
m=AndNotMatcher(ListMatcher([5,7]), ListMatcher([2,5]))
print('a AndNot([5,7] - [2,5]) =', ids(m), 'expected [7]')
# (b) AndMaybe.skip_to
m=AndMaybeMatcher(ListMatcher([1,10],[1.0,1.0]), ListMatcher([5,10],[2.0,2.0]))
m.skip_to(3); print('b AndMaybe skip_to(3): id',m.id(),'score',m.score(),'expected 3.0')
# (d) Union.reset stale id
m=UnionMatcher(ListMatcher([1,4]), ListMatcher([2,9]))
m.id(); m.next(); m.next(); x=m.id(); m.reset(); print('d Union reset: id after reset', m.id(), 'expected 1 (was at',x,')')
# (e) MultiMatcher.reset with empty first submatcher
m=MultiMatcher([ListMatcher([]), ListMatcher([3])],[0,10])
print('e Multi id', m.id()); 
try:
    m.reset(); print('e Multi after reset id', m.id(), 'expected 13')
except Exception as e: print('e Multi after reset: EXC', type(e).__name__, e)
# (f) ArrayUnion skip_to backwards
from whoosh.matching.combo import ArrayUnionMatcher
m=ArrayUnionMatcher([ListMatcher([1,5,9],[1.,1.,1.]),ListMatcher([3,9],[1.,1.])],20,scored=False)
m.next(); m.next(); cur=m.id(); m.skip_to(2); print('f ArrayUnion at',cur,'skip_to(2) ->',m.id(),'expected',cur)
