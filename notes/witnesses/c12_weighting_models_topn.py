import warnings, random, sys; warnings.simplefilter('ignore')
from whoosh import fields, query, scoring
from whoosh.filedb.filestore import RamStorage
def build(seed, n=1500):
    rnd=random.Random(seed)
    ix=RamStorage().create_index(fields.Schema(t=fields.TEXT))
    w=ix.writer()
    for i in range(n):
        words=[]
        for wd,p,mx in (("alfa",0.9,8),("bravo",0.5,8),("charlie",0.3,5)):
            if rnd.random()<p: words += [wd]*rnd.randint(1,mx)
        words += ["zulu"]*rnd.randint(0,60)
        w.add_document(t=" ".join(words) or "zulu")
    w.commit()
    return ix
T=lambda x: query.Term("t",x)
qs={"term":T("alfa"),"or":query.Or([T("alfa"),T("bravo")]),"and":query.And([T("alfa"),T("charlie")])}
models={"PL2":scoring.PL2(),"DFree":scoring.DFree(),"BM25F":scoring.BM25F(),"TF_IDF":scoring.TF_IDF(),"Reverse(BM25F)":scoring.ReverseWeighting(scoring.BM25F())}
for mn,wt in models.items():
    for qn,q in qs.items():
        bad=0; ex=None; tot=0
        for seed in range(3):
            ix=build(seed)
            with ix.searcher(weighting=wt) as s:
                try:
                    full=[(h.docnum, round(h.score,6)) for h in s.search(q,limit=None)]
                    for k in (1,3,10):
                        tot+=1
                        top=[(h.docnum, round(h.score,6)) for h in s.search(q,limit=k)]
                        if top!=full[:k]: bad+=1; ex=ex or (seed,k,top[:2],full[:2])
                except Exception as e:
                    bad+=1; ex=ex or ("EXC",type(e).__name__,str(e)[:70]); tot+=1
        print(mn,qn,"mismatches %d/%d"%(bad,tot), str(ex)[:160] if ex else "")
