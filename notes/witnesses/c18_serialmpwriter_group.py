import sys, tempfile, shutil
from whoosh import fields, index
from whoosh.multiproc import SerialMpWriter
d = tempfile.mkdtemp()
try:
    ix = index.create_in(d, fields.Schema(id=fields.ID(stored=True)))
    w = SerialMpWriter(ix, procs=2)
    try:
        with w.group():
            w.add_document(id=u"1")
            w.add_document(id=u"2")
        w.commit()
        print("ok")
    except Exception as e:
        print("DEFECT:", type(e).__name__, e)
        try: w.cancel()
        except Exception: pass
        sys.exit(1)
finally:
    shutil.rmtree(d, ignore_errors=True)
