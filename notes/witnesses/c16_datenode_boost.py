"""DateTimeNode / DateRangeNode accept a boost and store the constant 1.0 instead.  Exit 1 while the defect is present."""
import sys
from datetime import datetime
from whoosh import fields, qparser
from whoosh.qparser import dateparse
schema = fields.Schema(d=fields.DATETIME)
p = qparser.QueryParser("d", schema)
a = dateparse.DateTimeNode("d", datetime(2010, 5, 5), boost=2.0).query(p)
b = dateparse.DateRangeNode("d", datetime(2010, 5, 5), datetime(2010, 6, 5), boost=2.0).query(p)
print(a.boost, b.boost)
sys.exit(0 if a.boost == 2.0 and b.boost == 2.0 else 1)
