import warnings; warnings.simplefilter("ignore")
from whoosh import fields, query, scoring
from whoosh.filedb.filestore import RamStorage
schema = fields.Schema(id=fields.ID(stored=True), t=fields.TEXT)
ix = RamStorage().create_index(schema)
w = ix.writer()
for i in range(6000):
    words = [u"alfa"] if i % 2 else [u"zulu"]
    if i % 3 == 0: words.append(u"bravo")
    if i % 7 == 0: words += [u"charlie"] * (1 + i % 4)
    w.add_document(id=str(i), t=u" ".join(words))
w.commit()
T = query.Term
with ix.searcher() as s:
    q = query.Or([T("t","alfa"), T("t","charlie")], boost=3.0)
    full = [(h["id"], round(h.score,4)) for h in s.search(q, limit=None)]
    top = [(h["id"], round(h.score,4)) for h in s.search(q, limit=10)]
    print("full[:10]", full[:10]); print("top10   ", top)
    print("scores multiset equal:", sorted(x[1] for x in top) == sorted(x[1] for x in full[:10]))
