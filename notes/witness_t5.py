import warnings; warnings.simplefilter("ignore")
from whoosh import fields, query, scoring
from whoosh.filedb.filestore import RamStorage
schema = fields.Schema(id=fields.ID(stored=True), t=fields.TEXT)
ix = RamStorage().create_index(schema)
w = ix.writer()
for i in range(600):
    words = [u"alfa"] if i % 2 else [u"zulu"]
    if i % 3 == 0: words.append(u"bravo")
    if i % 7 == 0: words += [u"charlie"] * (1 + i % 4)
    w.add_document(id=str(i), t=u" ".join(words))
w.commit()
T = query.Term
def fn(searcher, fieldname, text, matcher): return 1.0 + (matcher.id() % 13)
for W in (scoring.FunctionWeighting(fn), scoring.ReverseWeighting(scoring.BM25F()), scoring.Frequency()):
    with ix.searcher(weighting=W) as s:
        for q in (query.Or([T("t","alfa"), T("t","charlie")]), query.And([T("t","alfa"), T("t","charlie")]), T("t","charlie")):
            try:
                full = [(h["id"], round(h.score,4)) for h in s.search(q, limit=None)]
                top = [(h["id"], round(h.score,4)) for h in s.search(q, limit=5)]
                print(type(W).__name__, type(q).__name__, top == full[:5])
            except Exception as e:
                print(type(W).__name__, type(q).__name__, "RAISED", type(e).__name__, e)
