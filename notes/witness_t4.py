import warnings; warnings.simplefilter("ignore")
from whoosh import fields, query, scoring
from whoosh.filedb.filestore import RamStorage
schema = fields.Schema(id=fields.ID(stored=True), t=fields.TEXT)
ix = RamStorage().create_index(schema)
w = ix.writer()
for i in range(6000):
    words = [u"alfa"] if i % 2 else [u"zulu"]
    if i % 3 == 0: words.append(u"bravo")
    if i % 7 == 0: words += [u"charlie"] * (1 + i % 4)
    w.add_document(id=str(i), t=u" ".join(words))
w.commit()
def cmp(s, q, ks=(1,3,10,30)):
    full = [(h["id"], round(h.score,4)) for h in s.search(q, limit=None)]
    out = []
    for k in ks:
        try:
            top = [(h["id"], round(h.score,4)) for h in s.search(q, limit=k)]
            out.append(top == full[:k])
        except Exception as e:
            out.append(type(e).__name__)
    return out, len(full)
T = query.Term
with ix.searcher() as s:
    for name, q in [
        ("Or boost 3", query.Or([T("t","alfa"), T("t","charlie")], boost=3.0)),
        ("Or boost .2", query.Or([T("t","alfa"), T("t","charlie")], boost=0.2)),
        ("And boost 3", query.And([T("t","alfa"), T("t","charlie")], boost=3.0)),
        ("Or(term^4, term)", query.Or([T("t","alfa", boost=4.0), T("t","charlie")])),
        ("Or(Or^3, term)", query.Or([query.Or([T("t","alfa"), T("t","bravo")], boost=3.0), T("t","charlie")])),
        ("AndMaybe", query.AndMaybe(T("t","alfa"), T("t","charlie"))),
        ("AndMaybe2", query.AndMaybe(T("t","charlie"), T("t","alfa"))),
        ("AndMaybe(Or, t)", query.AndMaybe(query.Or([T("t","alfa"), T("t","bravo")]), T("t","charlie"))),
        ("AndNot", query.AndNot(T("t","alfa"), T("t","charlie"))),
        ("Or3 (array?)", query.Or([T("t","alfa"), T("t","bravo"), T("t","charlie")])),
        ("And(Or3, t)", query.And([query.Or([T("t","bravo"), T("t","charlie"), T("t","zulu")]), T("t","alfa")])),
        ("DisMax", query.DisjunctionMax([T("t","alfa"), T("t","charlie")])),
        ("Not", query.And([T("t","alfa"), query.Not(T("t","charlie"))])),
    ]:
        print(name, *cmp(s, q))
