"""E8 -- rule registry, obligations/findings, known-findings filter, evidence
files, exit codes.

exit 0  every obligation discharged or covered by a `known` entry
exit 1  at least one unlisted finding (one VIOLATION line each)
exit 2  ANALYSIS-ERROR: the analysis cannot give a verdict
"""

import hashlib
import json
import os
import sys
import time
import traceback

from .model import AnalysisError, Program

VERIF_DIR = os.path.dirname(os.path.dirname(os.path.abspath(__file__)))
KNOWN_FILE = os.path.join(VERIF_DIR, "known_findings.jsonl")


class RuleSpec(object):
    def __init__(self, prop, rid, kind, title, fn, min_instances, tier, clause, assumes):
        self.prop = prop
        self.rid = rid
        self.kind = kind
        self.title = title
        self.fn = fn
        self.min_instances = min_instances
        self.tier = tier
        self.clause = clause
        self.assumes = assumes or []

    @property
    def full(self):
        return "%s-%s" % (self.prop, self.rid)


RULES = {}  # prop -> [RuleSpec]


def rule(prop, rid, kind, title, min_instances=1, tier="quick", clause="", assumes=None,
         also=()):
    """Register a rule.  `also` lists further properties whose checks run the
    same rule (shared clauses such as C01-R1 = C11-R3)."""
    def deco(fn):
        spec = RuleSpec(prop, rid, kind, title, fn, min_instances, tier, clause, assumes)
        RULES.setdefault(prop, []).append(spec)
        for p in also:
            RULES.setdefault(p, []).append(spec)
        return fn
    return deco


class Obligation(object):
    __slots__ = ("rule", "construct", "text", "ok", "detail", "loc", "path")

    def __init__(self, rule, construct, text, ok, detail, loc, path):
        self.rule = rule
        self.construct = construct
        self.text = text
        self.ok = ok
        self.detail = detail
        self.loc = loc
        self.path = path

    @property
    def key(self):
        return "%s::%s" % (self.construct, self.text)

    def as_dict(self, prop):
        d = {"property": prop, "rule": self.rule.full, "kind": self.rule.kind,
             "construct": self.construct, "text": self.text, "key": self.key,
             "verdict": "ok" if self.ok else "VIOLATED", "loc": self.loc}
        if self.detail:
            d["detail"] = self.detail
        if self.path:
            d["path"] = self.path
        return d


class Ctx(object):
    """What a rule sees: the program model plus `ob()` to record obligations."""

    def __init__(self, prog, prop, tier):
        self.prog = prog
        self.prop = prop
        self.tier = tier
        self.cur = None
        self.obligations = []
        self.notes = []
        self.units = {"functions": set(), "call_sites": 0, "unresolved_calls": 0, "paths": 0}

    def ob(self, construct, ok, text, detail="", loc=None, path=None):
        if hasattr(construct, "short"):
            if loc is None:
                loc = construct.loc
            construct = construct.short
        o = Obligation(self.cur, construct, text, bool(ok), detail, loc, path)
        self.obligations.append(o)
        return o.ok

    def note(self, text):
        self.notes.append("%s: %s" % (self.cur.full if self.cur else "-", text))

    def saw(self, func):
        self.units["functions"].add(func.qualname if hasattr(func, "qualname") else str(func))

    def nodeloc(self, func, node):
        return "%s:%d" % (func.module.relpath, getattr(node, "lineno", func.node.lineno))


def load_known():
    known = []
    if os.path.exists(KNOWN_FILE):
        with open(KNOWN_FILE) as f:
            for line in f:
                line = line.strip()
                if not line or line.startswith("#"):
                    continue
                known.append(json.loads(line))
    return known


def run_rules(prog, prop, tier, only_rule=None):
    ctx = Ctx(prog, prop, tier)
    specs = RULES.get(prop, [])
    per_rule = {}
    for spec in specs:
        if only_rule and spec.full != only_rule and spec.rid != only_rule:
            continue
        if spec.tier == "thorough" and tier != "thorough":
            continue
        ctx.cur = spec
        before = len(ctx.obligations)
        spec.fn(ctx)
        mine = ctx.obligations[before:]
        instances = set(o.construct for o in mine)
        per_rule[spec.full] = {"obligations": len(mine),
                               "instances": len(instances),
                               "violated": sum(1 for o in mine if not o.ok)}
        if len(instances) < spec.min_instances:
            raise AnalysisError("rule %s matched %d instance(s), fewer than the %d confirmed by hand"
                                " -- an anchor has vanished or the rule went blind"
                                % (spec.full, len(instances), spec.min_instances))
    ctx.cur = None
    return ctx, per_rule


def check_property(prop, tier="quick", replay=None, src_root=None, quiet=False,
                   write_evidence=True, extra=None):
    """Run all rules of `prop`; print the report; write evidence; return exit code."""
    t0 = time.time()
    out = sys.stdout
    try:
        from . import rules  # noqa: F401  (registers everything)
        if prop not in RULES:
            raise AnalysisError("no rules registered for %s" % prop)
        prog = Program(src_root)
        ctx, per_rule = run_rules(prog, prop, tier)
    except AnalysisError as e:
        print("ANALYSIS-ERROR property=%s %s" % (prop, e))
        return 2
    except Exception:
        print("ANALYSIS-ERROR property=%s internal exception" % prop)
        traceback.print_exc(file=sys.stdout)
        return 2

    # matched by (rule, key); shared rules are listed once under their home property
    known = load_known()
    known_active = {(k["rule"], k["key"]): k for k in known if k.get("status") == "known"}
    findings = [o for o in ctx.obligations if not o.ok]
    # de-duplicate findings with the same rule+key (one construct reached twice)
    seen = set()
    uniq = []
    for o in findings:
        k = (o.rule.full, o.key)
        if k in seen:
            continue
        seen.add(k)
        uniq.append(o)
    findings = uniq
    unlisted = [o for o in findings if (o.rule.full, o.key) not in known_active]
    listed = [o for o in findings if (o.rule.full, o.key) in known_active]

    specs = [s for s in RULES[prop] if not (s.tier == "thorough" and tier != "thorough")]
    stats = prog.stats()
    if not quiet:
        print("== %s (%s tier): static analysis of %s ==" % (prop, tier, prog.src_root))
        print("analysed: %d modules, %d classes, %d functions, %d lines; %d functions consulted by rules"
              % (stats["modules"], stats["classes"], stats["functions"], stats["lines"],
                 len(ctx.units["functions"])))
        for s in specs:
            pr = per_rule.get(s.full, {})
            print("  %-8s %-4s %-62s instances=%-3d obligations=%-3d violated=%d"
                  % (s.full, s.kind, s.title[:62], pr.get("instances", 0),
                     pr.get("obligations", 0), pr.get("violated", 0)))
        for n in ctx.notes:
            print("  note: " + n)

    for o in listed:
        k = known_active[(o.rule.full, o.key)]
        print("KNOWN-FINDING: property=%s rule=%s %s -- %s" % (prop, o.rule.full, o.key, k.get("what", "")))

    code = 0
    replay_dir = os.path.join(VERIF_DIR, "replay", prop)
    for o in unlisted:
        code = 1
        d = o.as_dict(prop)
        h = hashlib.sha1((o.rule.full + "|" + o.key).encode()).hexdigest()[:12]
        path = os.path.join(replay_dir, "%s-%s.json" % (o.rule.full, h))
        try:
            os.makedirs(replay_dir, exist_ok=True)
            with open(path, "w") as f:
                json.dump(d, f, indent=1)
        except OSError:
            path = "-"
        print("FINDING %s [%s] %s at %s: %s%s" % (o.rule.full, o.rule.kind, o.construct, o.loc, o.text,
                                                 (" -- " + o.detail) if o.detail else ""))
        if o.path:
            for step in o.path:
                print("      " + step)
        print("VIOLATION property=%s replay=%s" % (prop, path))

    if replay:
        try:
            with open(replay) as f:
                want = json.load(f)
        except Exception as e:
            print("ANALYSIS-ERROR cannot read replay file %s: %s" % (replay, e))
            return 2
        still = [o for o in findings if o.rule.full == want.get("rule") and o.key == want.get("key")]
        if still:
            print("REPLAY: finding still present: %s %s" % (want.get("rule"), want.get("key")))
        else:
            print("REPLAY: finding no longer present: %s %s" % (want.get("rule"), want.get("key")))

    wall = time.time() - t0
    if write_evidence:
        obligations = len(ctx.obligations)
        discharged = sum(1 for o in ctx.obligations if o.ok)
        instances = set((o.rule.full, o.construct) for o in ctx.obligations)
        samples = []
        per_rule_seen = {}
        for o in ctx.obligations:
            c = per_rule_seen.get(o.rule.full, 0)
            if c < 3 or not o.ok:
                samples.append(o.as_dict(prop))
                per_rule_seen[o.rule.full] = c + 1
        assumptions = []
        for s in specs:
            for a in s.assumes:
                if a not in assumptions:
                    assumptions.append(a)
        ev = {
            "property_id": prop,
            "tier": tier,
            "seed": int(os.environ.get("VERIF_SEED", "0") or 0),
            "level": "other",
            "coverage": {
                "explanation": "Static analysis (ast + own CFG/dataflow/class-hierarchy resolution) of "
                               "the whoosh source as parsed on this run; nothing is executed. Decides the "
                               "structural clauses listed under 'rules' (necessary conditions of the property), "
                               "not the behaviour as a whole.",
                "rules": [{"id": s.full, "kind": s.kind, "title": s.title, "clause": s.clause,
                           "min_instances": s.min_instances, **per_rule.get(s.full, {})} for s in specs],
                "obligations": obligations,
                "discharged": discharged,
                "evaluations": obligations,
                "distinct_nontrivial": len(instances),
                "rule": "an obligation = one rule applied to one construct (class x method, call site, "
                        "writer/reader pair, path set of one function); distinct_nontrivial counts distinct "
                        "(rule, construct) pairs whose subject construct was found in the tree and analysed",
                "samples": samples[:60],
                "units": {"modules": stats["modules"], "classes": stats["classes"],
                          "functions_in_model": stats["functions"], "lines": stats["lines"],
                          "functions_consulted": len(ctx.units["functions"])},
                "known_findings_reported": [{"rule": o.rule.full, "key": o.key} for o in listed],
                "unlisted_findings": [{"rule": o.rule.full, "key": o.key, "loc": o.loc} for o in unlisted],
                "notes": ctx.notes,
                "checker_cmd": "/venv/bin/python check.py %s --tier %s" % (prop, tier),
                "trusted_base": ["CPython ast parser", "wv engine (model/cfg/norm/calls)",
                                 "frozen slot tables in wv/rules (each entry confirmed by reading)"],
                "exhaustive": True,
            },
            "assumptions": assumptions,
            "wall_s": round(wall, 3),
            "violations": len(unlisted),
        }
        if extra:
            ev["coverage"].update(extra)
        evdir = os.path.join(VERIF_DIR, "evidence")
        os.makedirs(evdir, exist_ok=True)
        with open(os.path.join(evdir, "%s.json" % prop), "w") as f:
            json.dump(ev, f, indent=1)

    if not quiet:
        print("%s: %d obligations, %d discharged, %d known finding(s), %d violation(s), %.2fs"
              % (prop, len(ctx.obligations), sum(1 for o in ctx.obligations if o.ok),
                 len(listed), len(unlisted), wall))
    return code
