"""E4/E5 -- call resolution (class-hierarchy analysis + a frozen attribute-type
table) and call-graph reachability with witness chains.

Resolution kinds, from most to least precise:
  exact     module function, constructor, Base.m(self), super().m()
  cha       self.m(): MRO lookup in the static class + overrides in subclasses
  typed     x.m() where x is an attribute/alias/local whose class is known from
            the attribute-type table or from a constructor assignment
  byname    x.m() on an unknown receiver: every program method named m
            (complete but imprecise; used by who-may-call / effect rules)
  external  builtins / stdlib
"""

import ast
import builtins

from .model import AnalysisError, self_attr_assignments
from . import norm

# (class short name, attribute) -> list of class short names the attribute may
# hold.  Confirmed by reading the constructors; validated on every run: the
# class must still exist and still assign the attribute.
ATTR_TYPES = {
    ("matching.binary.BiMatcher", "a"): ["matching.mcore.Matcher"],
    ("matching.binary.BiMatcher", "b"): ["matching.mcore.Matcher"],
    ("matching.wrappers.WrappingMatcher", "child"): ["matching.mcore.Matcher"],
    ("matching.wrappers.RequireMatcher", "a"): ["matching.mcore.Matcher"],
    ("matching.wrappers.RequireMatcher", "b"): ["matching.mcore.Matcher"],
    ("collectors.WrappingCollector", "child"): ["collectors.Collector"],
    ("collectors.Collector", "matcher"): ["matching.mcore.Matcher"],
    ("collectors.Collector", "top_searcher"): ["searching.Searcher"],
    ("collectors.Collector", "subsearcher"): ["searching.Searcher"],
    ("searching.Searcher", "ixreader"): ["reading.IndexReader"],
    ("searching.Searcher", "_ix"): ["index.Index"],
    ("writing.SegmentWriter", "storage"): ["filedb.filestore.Storage"],
    ("writing.SegmentWriter", "_tempstorage"): ["filedb.filestore.Storage"],
    ("writing.SegmentWriter", "codec"): ["codec.base.Codec"],
    ("writing.SegmentWriter", "perdocwriter"): ["codec.base.PerDocumentWriter"],
    ("writing.SegmentWriter", "fieldwriter"): ["codec.base.FieldWriter"],
    ("writing.SegmentWriter", "pool"): ["writing.PostingPool"],
    ("writing.SegmentWriter", "newsegment"): ["codec.base.Segment"],
    ("reading.SegmentReader", "_terms"): ["codec.base.TermsReader"],
    ("reading.SegmentReader", "_perdoc"): ["codec.base.PerDocumentReader"],
    ("reading.SegmentReader", "_storage"): ["filedb.filestore.Storage"],
    ("reading.SegmentReader", "_segment"): ["codec.base.Segment"],
    ("reading.SegmentReader", "_codec"): ["codec.base.Codec"],
    ("index.FileIndex", "storage"): ["filedb.filestore.Storage"],
    ("index.TOC", "segments"): [],
    ("writing.BufferedWriter", "writer"): ["writing.SegmentWriter", "multiproc.MpWriter"],
    ("writing.AsyncWriter", "writer"): ["writing.SegmentWriter", "multiproc.MpWriter"],
    ("writing.BufferedWriter", "index"): ["index.Index"],
    ("writing.AsyncWriter", "index"): ["index.Index"],
    ("codec.whoosh3.W3FieldWriter", "_postwriter"): ["codec.whoosh3.W3PostingsWriter"],
    ("codec.whoosh3.W3PostingsWriter", "_terminfo"): ["codec.whoosh3.W3TermInfo"],
}

BUILTIN_NAMES = set(dir(builtins))

# method names of builtin containers/strings/files: a by-name fallback on these
# only links to program classes when the receiver type is unknown
GENERIC_METHODS = {
    "append", "extend", "add", "get", "items", "keys", "values", "pop", "sort", "join",
    "split", "format", "update", "remove", "insert", "index", "count", "copy", "clear",
    "startswith", "endswith", "encode", "decode", "strip", "lower", "upper", "replace",
    "setdefault", "discard", "union", "intersection", "difference", "read", "write",
    "close", "seek", "tell", "flush", "find", "group", "match", "search", "start", "end",
    "isdisjoint", "issubset", "reverse", "popitem", "iteritems", "itervalues", "iterkeys",
    "put", "acquire", "release", "set", "wait", "next", "send", "groups", "span",
    "lstrip", "rstrip", "isalpha", "isdigit", "title", "zfill", "tobytes", "tolist",
    "fromlist", "fromstring", "tostring", "byteswap", "total_seconds", "date", "time",
}


class Resolution(object):
    __slots__ = ("targets", "kind", "name")

    def __init__(self, targets, kind, name):
        self.targets = targets
        self.kind = kind
        self.name = name


class Calls(object):
    def __init__(self, prog):
        self.prog = prog
        self._types = {}
        self._validate_table()
        self._callee_cache = {}

    def _validate_table(self):
        for (cname, attr), types in ATTR_TYPES.items():
            c = self.prog.cls(cname)
            asg = self_attr_assignments(self.prog, c, inherited=False)
            if attr not in asg:
                raise AnalysisError("attribute-type table: %s no longer assigns self.%s" % (cname, attr))
            self._types[(c.qualname, attr)] = [self.prog.cls(t) for t in types]

    # ----------------------------------------------------------------- types
    def attr_types(self, cls, attr):
        """Classes that `self.attr` may hold when self is an instance of cls."""
        for k in self.prog.mro(cls):
            if isinstance(k, str):
                continue
            t = self._types.get((k.qualname, attr))
            if t is not None:
                return t
        return None

    def expr_types(self, func, expr, al=None, depth=0):
        """Static classes of an expression inside `func`, or None if unknown."""
        if al is None:
            al = norm.aliases(func.node)
        if isinstance(expr, ast.Name):
            if expr.id == "self" and func.cls is not None:
                return [func.cls]
            if expr.id in al and depth < 4:
                return self.expr_types(func, al[expr.id], al, depth + 1)
            # local assigned once from a constructor call
            asg = norm.assigned_names(func.node).get(expr.id)
            if asg and len(asg) == 1 and isinstance(asg[0], ast.Call):
                r = self.prog.resolve_in_func(func, asg[0].func) \
                    if isinstance(asg[0].func, (ast.Name, ast.Attribute)) else None
                if r is not None and r[0] == "class":
                    return [r[1]]
            return None
        if isinstance(expr, ast.Attribute):
            base = self.expr_types(func, expr.value, al, depth + 1)
            if base is None:
                return None
            out = []
            for c in base:
                t = self.attr_types(c, expr.attr)
                if t is None:
                    return None
                out.extend(t)
            return out or None
        if isinstance(expr, ast.Call) and isinstance(expr.func, (ast.Name, ast.Attribute)):
            # Cls(args).m(...): the receiver is a fresh instance of Cls
            r = self.prog.resolve_in_func(func, expr.func)
            if r is not None and r[0] == "class":
                return [r[1]]
        return None

    # ------------------------------------------------------------ resolution
    def _with_overrides(self, classes, name):
        out = []
        seen = set()
        for c in classes:
            f = self.prog.lookup(c, name)
            if f is not None and f.qualname not in seen:
                seen.add(f.qualname)
                out.append(f)
            for s in self.prog.subclasses(c, strict=True):
                g = s.methods.get(name)
                if g is not None and g.qualname not in seen:
                    seen.add(g.qualname)
                    out.append(g)
        return out

    def resolve(self, func, call, concrete=None, al=None):
        """Resolve one ast.Call inside `func`.  `concrete`: analyse self.m() as
        if self were exactly this class (no subclass overrides)."""
        prog = self.prog
        f = call.func
        if isinstance(f, ast.Name):
            name = f.id
            local = norm.assigned_names(func.node)
            if name in local:
                return Resolution([], "unresolved", name)
            r = prog.resolve_in_func(func, f)
            if r is None:
                if name in BUILTIN_NAMES:
                    return Resolution([], "external", name)
                return Resolution([], "unresolved", name)
            if r[0] == "class":
                init = prog.lookup(r[1], "__init__")
                return Resolution([init] if init else [], "exact", name)
            if r[0] == "func":
                return Resolution([r[1]], "exact", name)
            if r[0] == "external":
                return Resolution([], "external", name)
            return Resolution([], "unresolved", name)
        if not isinstance(f, ast.Attribute):
            return Resolution([], "unresolved", None)
        name = f.attr
        recv = f.value
        # super().m() / super(X, self).m()
        if isinstance(recv, ast.Call) and isinstance(recv.func, ast.Name) and recv.func.id == "super" \
                and func.cls is not None:
            start = concrete or func.cls
            mro = prog.mro(start)
            try:
                i = mro.index(func.cls)
            except ValueError:
                i = 0
            for k in mro[i + 1:]:
                if not isinstance(k, str) and name in k.methods:
                    return Resolution([k.methods[name]], "exact", name)
            return Resolution([], "external", name)
        # self.m()
        if isinstance(recv, ast.Name) and recv.id == "self" and func.cls is not None:
            if concrete is not None:
                t = prog.lookup(concrete, name)
                if t is not None:
                    return Resolution([t], "exact", name)
            else:
                ts = self._with_overrides([func.cls], name)
                if ts:
                    return Resolution(ts, "cha", name)
            # attribute holding a callable, or a mixin method: by name
            return self._byname(name)
        # Class.m(self, ...) / module.f(...)
        if norm.is_path(recv):
            root = recv
            while isinstance(root, ast.Attribute):
                root = root.value
            if isinstance(root, ast.Name) and root.id != "self" \
                    and root.id not in norm.assigned_names(func.node):
                r = prog.resolve_in_func(func, f)
                if r is not None:
                    if r[0] == "func":
                        return Resolution([r[1]], "exact", name)
                    if r[0] == "class":
                        init = prog.lookup(r[1], "__init__")
                        return Resolution([init] if init else [], "exact", name)
                    if r[0] == "external":
                        return Resolution([], "external", name)
                rb = prog.resolve_in_func(func, recv)
                if rb is not None and rb[0] == "external":
                    return Resolution([], "external", name)
        # typed receiver
        types = self.expr_types(func, recv, al)
        if types:
            ts = self._with_overrides(types, name)
            if ts:
                return Resolution(ts, "typed", name)
        return self._byname(name)

    def _byname(self, name):
        ts = [t for t in self.prog.methods_named(name) if t.cls is not None]
        if not ts:
            return Resolution([], "external", name)
        return Resolution(ts, "byname", name)

    def callees(self, func, concrete=None):
        key = (func.qualname, concrete.qualname if concrete else None)
        r = self._callee_cache.get(key)
        if r is None:
            al = norm.aliases(func.node)
            r = []
            for call in norm.calls_in(func.node):
                r.append((call, self.resolve(func, call, concrete, al)))
            self._callee_cache[key] = r
        return r

    # ---------------------------------------------------------- reachability
    def reach(self, roots, byname_ok=None, stop=None, max_depth=12):
        """Functions reachable from `roots`.  Returns {qualname: (FuncInfo, parent qualname or None,
        call node)}.  byname_ok(name) decides whether a by-name resolution is
        followed (default: follow unless the name is a generic container method)."""
        if byname_ok is None:
            byname_ok = lambda n: n not in GENERIC_METHODS
        out = {}
        work = []
        for r in roots:
            out[r.qualname] = (r, None, None, 0)
            work.append(r)
        while work:
            f = work.pop(0)
            depth = out[f.qualname][3]
            if depth >= max_depth:
                continue
            if stop is not None and stop(f):
                continue
            for call, res in self.callees(f):
                if res.kind == "byname" and not byname_ok(res.name):
                    continue
                for t in res.targets:
                    if t.qualname not in out:
                        out[t.qualname] = (t, f.qualname, call, depth + 1)
                        work.append(t)
        return out

    def chain(self, reachmap, qualname):
        """Call chain root -> qualname as a list of short names with line numbers."""
        steps = []
        q = qualname
        while q is not None:
            f, parent, call, _ = reachmap[q]
            steps.append(f.short if call is None else "%s (called at line %d)" % (f.short, call.lineno))
            q = parent
        steps.reverse()
        return steps
