"""Load-time normal forms, applied to every module before any rule sees it, so
that rules are invariant under the commonest behaviour-preserving rewrites:

  N1  `x = x <op> e`                      ->  `x <op>= e`      (x a name or attribute path)
      `x = c + x` / `x = c * x`           ->  `x += c`         (c a numeric constant)
  N2  `if not c: A else: B`               ->  `if c: B else: A` (no elif chain involved)
  N3  `if c: ...; return/raise/continue/break  else: B`  ->  `if c: ...` followed by B
  N4  `pass` statements are dropped from blocks that have other statements
  N5  f"{a}.{b}" (plain fields, no format spec, conversion only !r/!s)  ->  "%s.%s" % (a, b)
  N7  `for x in (p, q): BODY` over a literal tuple/list of at most 4 plain paths, BODY without break/continue/else,
      is unrolled (BODY[x:=p]; BODY[x:=q]);  max/min/sum/any/all over a generator ranging over such a literal are
      expanded the same way (max(f(m) for m in (a, b)) -> max(f(a), f(b)); sum -> f(a) + f(b); any/all -> or/and)
  N8  `x = 0; for m in C: [if c:] x += f(m)`  ->  `x = sum(f(m) for m in C [if c])`   (adjacent statements only)
  N9  `for m in C: if [not] p(m): return False|True` followed by `return True|False`  ->  `return all(...)` / `return any(...)`
  N10 `x = a if c else b` (the whole right-hand side, one plain target)  ->  `if c: x = a  else: x = b`;
      likewise `return a if c else b`  ->  `if c: return a` / `return b`
  N11 `for x in xs: a, b = x; REST` with x used nowhere else in the function  ->  `for a, b in xs: REST`
  N12 `a, b = x, y` (targets plain names/attribute paths none of which the right-hand sides mention)  ->  `a = x; b = y`
  N13 statement `d.update(k=v, ...)` (keywords only)  ->  `d["k"] = v; ...`;  statement `d.setdefault("k", v)`  ->
      `if "k" not in d: d["k"] = v`   (d a plain name or attribute path)
  N14 `x = E` directly followed by `return x`  ->  `return E`
  N15 `while True: if X: break; REST` (no loop else)  ->  `while not X: REST`
  N16 `x = []; for a in xs: [if c:] x.append(E)` (adjacent, x not used in E/xs/c)  ->  `x = [E for a in xs if c]`
  N18 a statement `return A or B` / `x = A or B` / `A or B` (likewise `and`) whose later operand calls a method on self is spelled
      out with its short-circuit: `t = A; if not t: t = B; return t` -- so that path rules see that B does not run on every path
  N20 `for x in (A if c else B): BODY`  ->  `if c: for x in A: BODY  else: for x in B: BODY`  (N7 then unrolls a literal side; N7
      also unrolls literal tuples of numbers/strings)
  N21 a local that is re-bound to numbers along one statement list (`start = 0; ...; start = 4; ...`) is written as the number
      in the statements between two bindings
  N23 `if A: ..; x = E1 else: ..; x = E2` followed by `if x: BODY` (x used nowhere else)  ->  the test is sunk into the branches:
      `if A: ..; if E1: BODY  else: ..; if E2: BODY`
  N27 `for i in count(): if T: return i; BODY` -> `i = 0; while not T: BODY; i += 1` then `return i`;
  N26 `(a, b, c, ...) = S.unpack(x)` -> `t = S.unpack(x); a = t[0]; b = t[1]; ...`;
  N25 `f = P if c else Q; f(args)` -> `if c: P(args) else: Q(args)` (a bound method chosen by a conditional expression);
  N24 a running maximum/minimum spelled as a guarded assignment: `if E > T: T = E` -> `T = max(T, E)` (mirror image for min);
      `if T is None or E < T: T = E` -> `if T is None: T = E else: T = min(T, E)`
  N19 `dict(k=v, ...)` (keywords only)  ->  `{"k": v, ...}`
  N6  `except T as e:` binding is kept, but the py2 idiom `e = sys.exc_info()[1]` as the first statement of a handler
      is rewritten to the binding form (`except T as e:`)

Nodes keep their original line numbers (reports still point into the real
file).  N1 treats the rebinding form and the in-place form alike, which is
what every rule wants (they read `+=` as "the new value is old + e").
"""

import ast
import copy


def _same_path(a, b):
    if isinstance(a, ast.Name) and isinstance(b, ast.Name):
        return a.id == b.id
    if isinstance(a, ast.Attribute) and isinstance(b, ast.Attribute):
        return a.attr == b.attr and _same_path(a.value, b.value)
    return False


def _is_path(e):
    while isinstance(e, ast.Attribute):
        e = e.value
    return isinstance(e, ast.Name)


def _is_lit(e):
    return isinstance(e, ast.Constant) and isinstance(e.value, (int, float, str, bytes)) and not isinstance(e.value, bool)


def _unrollable(it):
    n = len(it.elts)
    if all(_is_lit(e) for e in it.elts):
        return 1 <= n <= 8
    return 1 <= n <= 4 and all(_is_path(e) or _is_lit(e) for e in it.elts)


def _strip_ctx(e):
    """a copy of a name/attribute path with Load contexts (so that a store target and a read compare equal)"""
    if isinstance(e, ast.Attribute):
        return ast.Attribute(value=_strip_ctx(e.value), attr=e.attr, ctx=ast.Load())
    if isinstance(e, ast.Name):
        return ast.Name(id=e.id, ctx=ast.Load())
    return e


class _SubstName(ast.NodeTransformer):
    def __init__(self, name, expr):
        self.name = name
        self.expr = expr

    def visit_Name(self, n):
        if n.id == self.name and isinstance(n.ctx, ast.Load):
            return copy.deepcopy(self.expr)
        return n


def _is_num(e):
    return isinstance(e, ast.Constant) and isinstance(e.value, (int, float)) and not isinstance(e.value, bool)


def terminates(body):
    return bool(body) and isinstance(body[-1], (ast.Return, ast.Raise, ast.Continue, ast.Break))


class Desugar(ast.NodeTransformer):
    def visit_Assign(self, n):
        self.generic_visit(n)
        if len(n.targets) == 1 and isinstance(n.targets[0], (ast.Name, ast.Attribute)) and isinstance(n.value, ast.BinOp):
            t = n.targets[0]
            v = n.value
            if _same_path(t, v.left):
                return ast.copy_location(ast.AugAssign(target=t, op=v.op, value=v.right), n)
            if isinstance(v.op, (ast.Add, ast.Mult)) and _same_path(t, v.right) and _is_num(v.left):
                return ast.copy_location(ast.AugAssign(target=t, op=v.op, value=v.left), n)
        return n

    def visit_For(self, n, _visited=False):
        if not _visited:
            self.generic_visit(n)
        # N20: for x in (A if c else B): BODY   ->   if c: for x in A: BODY  else: for x in B: BODY
        if isinstance(n.iter, ast.IfExp) and not n.orelse:
            a = ast.copy_location(ast.For(target=copy.deepcopy(n.target), iter=n.iter.body, body=copy.deepcopy(n.body), orelse=[]), n)
            b = ast.copy_location(ast.For(target=copy.deepcopy(n.target), iter=n.iter.orelse, body=copy.deepcopy(n.body), orelse=[]), n)
            ra, rb = self.visit_For(a, True), self.visit_For(b, True)
            new = ast.copy_location(ast.If(test=n.iter.test, body=ra if isinstance(ra, list) else [ra],
                                           orelse=rb if isinstance(rb, list) else [rb]), n)
            ast.fix_missing_locations(new)
            return new
        if isinstance(n.iter, (ast.Tuple, ast.List)) and _unrollable(n.iter) \
                and isinstance(n.target, ast.Name) and not n.orelse:
            # `if C: continue` followed by REST  ==  `if not C: REST`   (only here, to make the body unrollable)
            def fold(stmts):
                for i, st in enumerate(stmts):
                    if isinstance(st, ast.If) and not st.orelse and len(st.body) == 1 and isinstance(st.body[0], ast.Continue) and i + 1 < len(stmts):
                        t = st.test.operand if isinstance(st.test, ast.UnaryOp) and isinstance(st.test.op, ast.Not) else \
                            ast.copy_location(ast.UnaryOp(op=ast.Not(), operand=st.test), st.test)
                        new = ast.copy_location(ast.If(test=t, body=fold(stmts[i + 1:]), orelse=[]), st)
                        return stmts[:i] + [new]
                return stmts
            folded = fold(list(n.body))
            if not any(isinstance(x, (ast.Break, ast.Continue)) for s_ in folded for x in ast.walk(s_)):
                n.body = folded
                ast.fix_missing_locations(n)
        if isinstance(n.iter, (ast.Tuple, ast.List)) and _unrollable(n.iter) \
                and isinstance(n.target, ast.Name) and not n.orelse \
                and not any(isinstance(x, (ast.Break, ast.Continue)) for s_ in n.body for x in ast.walk(s_)) \
                and not any(isinstance(x, ast.Name) and x.id == n.target.id and isinstance(x.ctx, ast.Store) for s_ in n.body for x in ast.walk(s_)):
            out = []
            for e in n.iter.elts:
                for s_ in n.body:
                    out.append(_SubstName(n.target.id, e).visit(copy.deepcopy(s_)))
            return out
        return n

    def visit_If(self, n):
        # N24: a running maximum / minimum spelled as a guarded assignment
        #   if E > T: T = E            ->  T = max(T, E)          (also T < E, >=, <=; mirror image for min)
        #   if T is None or E < T: T = E   ->  if T is None: T = E  else: T = min(T, E)
        # T is the assigned path, E a plain name / attribute path / number (evaluating it twice changes nothing)
        self.generic_visit(n)
        if n.orelse or len(n.body) != 1 or not isinstance(n.body[0], ast.Assign) or len(n.body[0].targets) != 1:
            return n
        asg = n.body[0]
        T, E = asg.targets[0], asg.value
        if not _is_path(T) or not (_is_path(E) or _is_num(E)):
            return n

        def same(a, b):
            return _is_path(a) and _is_path(b) and _same_path(a, b) or (_is_num(a) and _is_num(b) and a.value == b.value)

        def direction(t):
            if not (isinstance(t, ast.Compare) and len(t.ops) == 1):
                return None
            l, r, op = t.left, t.comparators[0], t.ops[0]
            if same(l, E) and same(r, T):
                return "max" if isinstance(op, (ast.Gt, ast.GtE)) else ("min" if isinstance(op, (ast.Lt, ast.LtE)) else None)
            if same(l, T) and same(r, E):
                return "max" if isinstance(op, (ast.Lt, ast.LtE)) else ("min" if isinstance(op, (ast.Gt, ast.GtE)) else None)
            return None

        def fold(kind):
            call = ast.Call(func=ast.Name(id=kind, ctx=ast.Load()), args=[_strip_ctx(copy.deepcopy(T)), copy.deepcopy(E)], keywords=[])
            return ast.copy_location(ast.Assign(targets=[copy.deepcopy(T)], value=call), asg)
        d = direction(n.test)
        if d is not None:
            new = fold(d)
            ast.fix_missing_locations(new)
            return new
        t = n.test
        if isinstance(t, ast.BoolOp) and isinstance(t.op, ast.Or) and len(t.values) == 2:
            a, b = t.values
            isnone = isinstance(a, ast.Compare) and len(a.ops) == 1 and isinstance(a.ops[0], ast.Is) and same(a.left, T) \
                and isinstance(a.comparators[0], ast.Constant) and a.comparators[0].value is None
            d = direction(b)
            if isnone and d is not None:
                new = ast.copy_location(ast.If(test=a, body=[asg], orelse=[fold(d)]), n)
                ast.fix_missing_locations(new)
                return new
        return n

    def visit_While(self, n):
        # N15: while True: if X: break; REST   ->   while not X: REST      (no else clause on the loop)
        self.generic_visit(n)
        if isinstance(n.test, ast.Constant) and n.test.value is True and not n.orelse and n.body and isinstance(n.body[0], ast.If) \
                and not n.body[0].orelse and len(n.body[0].body) == 1 and isinstance(n.body[0].body[0], ast.Break) and len(n.body) > 1:
            t = n.body[0].test
            if isinstance(t, ast.UnaryOp) and isinstance(t.op, ast.Not):
                nt = t.operand
            else:
                nt = ast.copy_location(ast.UnaryOp(op=ast.Not(), operand=t), t)
            new = ast.copy_location(ast.While(test=nt, body=n.body[1:], orelse=[]), n)
            ast.fix_missing_locations(new)
            return new
        return n

    def visit_Call(self, n):
        self.generic_visit(n)
        # N19: dict(k=v, ...) with keywords only  ->  {"k": v, ...}
        if isinstance(n.func, ast.Name) and n.func.id == "dict" and not n.args and n.keywords and all(k.arg for k in n.keywords):
            return ast.copy_location(ast.Dict(keys=[ast.copy_location(ast.Constant(value=k.arg), n) for k in n.keywords],
                                              values=[k.value for k in n.keywords]), n)
        if isinstance(n.func, ast.Name) and n.func.id in ("max", "min", "sum", "any", "all") and len(n.args) == 1 and not n.keywords \
                and isinstance(n.args[0], (ast.GeneratorExp, ast.ListComp)):
            g = n.args[0]
            if len(g.generators) == 1 and not g.generators[0].ifs and isinstance(g.generators[0].iter, (ast.Tuple, ast.List)) \
                    and 2 <= len(g.generators[0].iter.elts) <= 4 and all(_is_path(e) for e in g.generators[0].iter.elts) \
                    and isinstance(g.generators[0].target, ast.Name):
                v = g.generators[0].target.id
                items = [_SubstName(v, e).visit(copy.deepcopy(g.elt)) for e in g.generators[0].iter.elts]
                if n.func.id in ("max", "min"):
                    return ast.copy_location(ast.Call(func=n.func, args=items, keywords=[]), n)
                if n.func.id == "sum":
                    acc = items[0]
                    for it in items[1:]:
                        acc = ast.BinOp(left=acc, op=ast.Add(), right=it)
                    return ast.copy_location(acc, n)
                return ast.copy_location(ast.BoolOp(op=ast.Or() if n.func.id == "any" else ast.And(), values=items), n)
        return n

    def visit_JoinedStr(self, n):
        self.generic_visit(n)
        fmt = []
        args = []
        for v in n.values:
            if isinstance(v, ast.Constant) and isinstance(v.value, str):
                fmt.append(v.value.replace("%", "%%"))
            elif isinstance(v, ast.FormattedValue) and v.format_spec is None and v.conversion in (-1, 115, 114):
                fmt.append("%r" if v.conversion == 114 else "%s")
                args.append(v.value)
            else:
                return n
        if not args:
            return ast.copy_location(ast.Constant(value="".join(fmt).replace("%%", "%")), n)
        right = args[0] if len(args) == 1 and not isinstance(args[0], ast.Tuple) else ast.Tuple(elts=args, ctx=ast.Load())
        return ast.copy_location(ast.BinOp(left=ast.Constant(value="".join(fmt)), op=ast.Mod(), right=right), n)

    def visit_ExceptHandler(self, n):
        self.generic_visit(n)
        if n.name is None and n.body:
            st = n.body[0]
            if isinstance(st, ast.Assign) and len(st.targets) == 1 and isinstance(st.targets[0], ast.Name):
                try:
                    txt = ast.unparse(st.value)
                except Exception:
                    txt = ""
                if txt == "sys.exc_info()[1]":
                    n.name = st.targets[0].id
                    n.body = n.body[1:] or [ast.copy_location(ast.Pass(), st)]
        return n

    def _dict_calls(self, stmts):
        # N13
        out = []
        for st in stmts:
            c = st.value if isinstance(st, ast.Expr) and isinstance(st.value, ast.Call) else None
            if c is not None and isinstance(c.func, ast.Attribute) and _is_path(c.func.value):
                d = c.func.value
                if c.func.attr == "update" and not c.args and c.keywords and all(k.arg is not None for k in c.keywords):
                    for k in c.keywords:
                        new = ast.copy_location(ast.Assign(targets=[ast.Subscript(value=copy.deepcopy(d), slice=ast.Constant(value=k.arg),
                                                                                  ctx=ast.Store())], value=k.value), st)
                        ast.fix_missing_locations(new)
                        out.append(new)
                    continue
                if c.func.attr == "setdefault" and len(c.args) == 2 and not c.keywords and isinstance(c.args[0], ast.Constant):
                    asg = ast.Assign(targets=[ast.Subscript(value=copy.deepcopy(d), slice=c.args[0], ctx=ast.Store())], value=c.args[1])
                    test = ast.Compare(left=copy.deepcopy(c.args[0]), ops=[ast.NotIn()], comparators=[copy.deepcopy(d)])
                    new = ast.copy_location(ast.If(test=test, body=[asg], orelse=[]), st)
                    ast.fix_missing_locations(new)
                    out.append(new)
                    continue
            out.append(st)
        return out

    def _counting_loops(self, stmts):
        # N27: for i in count(): if T: return i; BODY     (last statement of the block, no else, i a plain name)
        #      ->  i = 0; while not T: BODY; i += 1        followed by   return i
        out = []
        for s in stmts:
            if isinstance(s, ast.For) and not s.orelse and isinstance(s.target, ast.Name) and isinstance(s.iter, ast.Call) \
                    and not s.iter.args and not s.iter.keywords \
                    and (getattr(s.iter.func, "id", None) == "count" or getattr(s.iter.func, "attr", None) == "count") \
                    and len(s.body) >= 2 and isinstance(s.body[0], ast.If) and not s.body[0].orelse and len(s.body[0].body) == 1 \
                    and isinstance(s.body[0].body[0], ast.Return) and isinstance(s.body[0].body[0].value, ast.Name) \
                    and s.body[0].body[0].value.id == s.target.id and s is stmts[-1] \
                    and not any(isinstance(x, (ast.Break, ast.Continue)) for b in s.body[1:] for x in ast.walk(b)):
                t = s.body[0].test
                if isinstance(t, ast.BoolOp) and isinstance(t.op, ast.Or) and all(isinstance(v, ast.UnaryOp) and isinstance(v.op, ast.Not)
                                                                                   for v in t.values):
                    nt = ast.BoolOp(op=ast.And(), values=[v.operand for v in t.values])
                elif isinstance(t, ast.UnaryOp) and isinstance(t.op, ast.Not):
                    nt = t.operand
                else:
                    nt = ast.UnaryOp(op=ast.Not(), operand=t)
                i = s.target.id
                init = ast.Assign(targets=[ast.Name(id=i, ctx=ast.Store())], value=ast.Constant(value=0))
                inc = ast.AugAssign(target=ast.Name(id=i, ctx=ast.Store()), op=ast.Add(), value=ast.Constant(value=1))
                loop = ast.While(test=nt, body=list(s.body[1:]) + [inc], orelse=[])
                ret = ast.Return(value=ast.Name(id=i, ctx=ast.Load()))
                for x in (init, loop, ret):
                    ast.copy_location(x, s)
                    ast.fix_missing_locations(x)
                out.extend([init, loop, ret])
                continue
            out.append(s)
        return out

    def _index_struct_unpack(self, stmts):
        # N26: (a, b, c, ...) = S.unpack(...)   ->   t = S.unpack(...); a = t[0]; b = t[1]; ...   (three or more plain names)
        out = []
        for s in stmts:
            if isinstance(s, ast.Assign) and len(s.targets) == 1 and isinstance(s.targets[0], ast.Tuple) \
                    and len(s.targets[0].elts) >= 3 and all(isinstance(e, ast.Name) for e in s.targets[0].elts) \
                    and isinstance(s.value, ast.Call) and isinstance(s.value.func, ast.Attribute) \
                    and s.value.func.attr in ("unpack", "unpack_from"):
                tmp = "_n26_%d" % getattr(s, "lineno", 0)
                a = ast.Assign(targets=[ast.Name(id=tmp, ctx=ast.Store())], value=s.value)
                ast.copy_location(a, s)
                out.append(a)
                for i, e in enumerate(s.targets[0].elts):
                    b = ast.Assign(targets=[ast.Name(id=e.id, ctx=ast.Store())],
                                   value=ast.Subscript(value=ast.Name(id=tmp, ctx=ast.Load()), slice=ast.Constant(value=i), ctx=ast.Load()))
                    ast.copy_location(b, s)
                    ast.fix_missing_locations(b)
                    out.append(b)
                ast.fix_missing_locations(a)
                continue
            out.append(s)
        return out

    def _sink_callable_choice(self, stmts):
        # N25: f = P if c else Q   directly followed by the statement   f(args)   (f a plain local used nowhere else in the block)
        #      ->  if c: P(args)  else: Q(args)
        out = []
        i = 0
        while i < len(stmts):
            s = stmts[i]
            nxt = stmts[i + 1] if i + 1 < len(stmts) else None
            if isinstance(s, ast.Assign) and len(s.targets) == 1 and isinstance(s.targets[0], ast.Name) \
                    and isinstance(s.value, ast.IfExp) and _is_path(s.value.body) and _is_path(s.value.orelse) \
                    and isinstance(nxt, ast.Expr) and isinstance(nxt.value, ast.Call) and isinstance(nxt.value.func, ast.Name) \
                    and nxt.value.func.id == s.targets[0].id:
                name = s.targets[0].id
                uses = sum(1 for st in stmts for x in ast.walk(st) if isinstance(x, ast.Name) and x.id == name)
                if uses == 2:
                    def mk(target):
                        c = ast.Call(func=copy.deepcopy(target), args=copy.deepcopy(nxt.value.args),
                                     keywords=copy.deepcopy(nxt.value.keywords))
                        e = ast.Expr(value=c)
                        ast.copy_location(e, nxt)
                        ast.fix_missing_locations(e)
                        return e
                    node = ast.If(test=s.value.test, body=[mk(s.value.body)], orelse=[mk(s.value.orelse)])
                    ast.copy_location(node, s)
                    ast.fix_missing_locations(node)
                    out.append(node)
                    i += 2
                    continue
            out.append(s)
            i += 1
        return out

    def _return_temps(self, stmts):
        # N14: `x = E` directly followed by `return x` (x a plain local name)  ->  `return E`
        out = []
        i = 0
        while i < len(stmts):
            st = stmts[i]
            nxt = stmts[i + 1] if i + 1 < len(stmts) else None
            if isinstance(st, ast.Assign) and len(st.targets) == 1 and isinstance(st.targets[0], ast.Name) \
                    and isinstance(nxt, ast.Return) and isinstance(nxt.value, ast.Name) and nxt.value.id == st.targets[0].id \
                    and not isinstance(st.value, (ast.Yield, ast.YieldFrom, ast.Await)):
                out.append(ast.copy_location(ast.Return(value=st.value), st))
                i += 2
                continue
            out.append(st)
            i += 1
        return out

    def _split_parallel_assignments(self, stmts):
        # N12
        out = []
        for st in stmts:
            if isinstance(st, ast.Assign) and len(st.targets) == 1 and isinstance(st.targets[0], (ast.Tuple, ast.List)) \
                    and isinstance(st.value, (ast.Tuple, ast.List)) and len(st.value.elts) == len(st.targets[0].elts) \
                    and all(_is_path(t) for t in st.targets[0].elts) \
                    and not any(isinstance(v, ast.Starred) for v in st.value.elts):
                tnames = set()
                tpaths = set()
                for t in st.targets[0].elts:
                    if isinstance(t, ast.Name):
                        tnames.add(t.id)
                    else:
                        tpaths.add(ast.dump(_strip_ctx(t)))
                clash = False
                for v in st.value.elts:
                    for x in ast.walk(v):
                        if isinstance(x, ast.Name) and x.id in tnames:
                            clash = True
                        if isinstance(x, ast.Attribute) and ast.dump(_strip_ctx(x)) in tpaths:
                            clash = True
                        if isinstance(x, (ast.Call, ast.Yield, ast.YieldFrom, ast.Await)) and tpaths:
                            clash = True   # a call could read the attribute being stored
                if not clash and len(tnames) + len(tpaths) == len(st.targets[0].elts):
                    for t, v in zip(st.targets[0].elts, st.value.elts):
                        new = ast.copy_location(ast.Assign(targets=[t], value=v), st)
                        ast.fix_missing_locations(new)
                        out.append(new)
                    continue
            out.append(st)
        return out

    def _ifexp_statements(self, stmts):
        out = []
        for st in stmts:
            if isinstance(st, ast.Assign) and len(st.targets) == 1 and isinstance(st.targets[0], (ast.Name, ast.Attribute)) \
                    and isinstance(st.value, ast.IfExp):
                v = st.value
                a = ast.copy_location(ast.Assign(targets=[copy.deepcopy(st.targets[0])], value=v.body), st)
                b = ast.copy_location(ast.Assign(targets=[copy.deepcopy(st.targets[0])], value=v.orelse), st)
                new = ast.copy_location(ast.If(test=v.test, body=[a], orelse=[b]), st)
                ast.fix_missing_locations(new)
                out.append(new)
            elif isinstance(st, ast.Expr) and isinstance(st.value, ast.Call) and len(st.value.args) == 1 and not st.value.keywords \
                    and isinstance(st.value.args[0], ast.IfExp) and _is_path(st.value.func):
                v = st.value.args[0]
                a = ast.copy_location(ast.Expr(value=ast.Call(func=copy.deepcopy(st.value.func), args=[v.body], keywords=[])), st)
                b = ast.copy_location(ast.Expr(value=ast.Call(func=copy.deepcopy(st.value.func), args=[v.orelse], keywords=[])), st)
                new = ast.copy_location(ast.If(test=v.test, body=[a], orelse=[b]), st)
                ast.fix_missing_locations(new)
                out.append(new)
            elif isinstance(st, ast.Return) and isinstance(st.value, ast.IfExp):
                v = st.value
                a = ast.copy_location(ast.Return(value=v.body), st)
                b = ast.copy_location(ast.Return(value=v.orelse), st)
                new = ast.copy_location(ast.If(test=v.test, body=[a], orelse=[]), st)
                ast.fix_missing_locations(new)
                out.append(new)
                out.append(b)
            else:
                out.append(st)
        return out

    def _shortcircuit_statements(self, stmts):
        # N18
        def self_call(e):
            return any(isinstance(n, ast.Call) and isinstance(n.func, ast.Attribute) and isinstance(n.func.value, ast.Name)
                       and n.func.value.id == "self" for n in ast.walk(e))
        out = []
        for st in stmts:
            v = getattr(st, "value", None)
            ok = isinstance(v, ast.BoolOp) and any(self_call(x) for x in v.values[1:]) and (
                isinstance(st, (ast.Return, ast.Expr)) or
                (isinstance(st, ast.Assign) and len(st.targets) == 1 and isinstance(st.targets[0], ast.Name)))
            if not ok:
                out.append(st)
                continue
            tname = st.targets[0].id if isinstance(st, ast.Assign) else "_sc%d" % getattr(st, "lineno", 0)

            def load():
                return ast.Name(id=tname, ctx=ast.Load())
            new = [ast.Assign(targets=[ast.Name(id=tname, ctx=ast.Store())], value=v.values[0])]
            cur = new
            for x in v.values[1:]:
                test = ast.UnaryOp(op=ast.Not(), operand=load()) if isinstance(v.op, ast.Or) else load()
                inner = [ast.Assign(targets=[ast.Name(id=tname, ctx=ast.Store())], value=x)]
                cur.append(ast.If(test=test, body=inner, orelse=[]))
                cur = inner
            if isinstance(st, ast.Return):
                new.append(ast.Return(value=load()))
            for n in new:
                ast.copy_location(n, st)
                ast.fix_missing_locations(n)
            out.extend(new)
        return out

    def _sink_flag_tests(self, stmts):
        # N23: if A: ...; x = E1  else: ...; x = E2   followed by   if x: BODY   (x a plain name used nowhere else in the block)
        #      ->  if A: ...; if E1: BODY   else: ...; if E2: BODY
        out = []
        i = 0
        while i < len(stmts):
            st = stmts[i]
            nxt = stmts[i + 1] if i + 1 < len(stmts) else None
            done = False
            if isinstance(st, ast.If) and st.orelse and isinstance(nxt, ast.If) and not nxt.orelse and isinstance(nxt.test, ast.Name):
                x = nxt.test.id

                def last_assign(block):
                    if block and isinstance(block[-1], ast.Assign) and len(block[-1].targets) == 1 \
                            and isinstance(block[-1].targets[0], ast.Name) and block[-1].targets[0].id == x:
                        return block[-1]
                    if block and isinstance(block[-1], ast.If) and block[-1].orelse:
                        a, b = last_assign(block[-1].body), last_assign(block[-1].orelse)
                        return (a, b) if a is not None and b is not None else None
                    return None
                la, lb = last_assign(st.body), last_assign(st.orelse)
                others = [y for s_ in stmts[i + 2:] + list(nxt.body) for y in ast.walk(s_) if isinstance(y, ast.Name) and y.id == x]
                inner_uses = sum(1 for s_ in [st] for y in ast.walk(s_) if isinstance(y, ast.Name) and y.id == x)

                def count(a):
                    return 1 if isinstance(a, ast.Assign) else (count(a[0]) + count(a[1]))
                if la is not None and lb is not None and not others and inner_uses == count(la) + count(lb):
                    def sink(block):
                        last = block[-1]
                        if isinstance(last, ast.Assign):
                            new = ast.copy_location(ast.If(test=last.value, body=copy.deepcopy(nxt.body), orelse=[]), nxt)
                            return block[:-1] + [new]
                        last.body = sink(last.body)
                        last.orelse = sink(last.orelse)
                        return block
                    st.body = sink(st.body)
                    st.orelse = sink(st.orelse)
                    ast.fix_missing_locations(st)
                    out.append(st)
                    i += 2
                    done = True
            if not done:
                out.append(st)
                i += 1
        return out

    def _propagate_constants(self, stmts):
        # N21: in one statement list, a local bound to a number is written as that number in the following simple statements
        # (assignments, expression statements, returns, and the tests/headers of compound statements that do not rebind it), up
        # to its next assignment.  Only names that are bound at least twice in the list (a running cursor: `start = 0 ...
        # start = 4 ...`), so that ordinary named constants keep their names.
        counts = {}
        for st in stmts:
            if isinstance(st, ast.Assign) and len(st.targets) == 1 and isinstance(st.targets[0], ast.Name) and _is_num(st.value):
                counts[st.targets[0].id] = counts.get(st.targets[0].id, 0) + 1
        cursors = set(k for k, v in counts.items() if v >= 2)
        if not cursors:
            return stmts
        env = {}
        out = []
        for st in stmts:
            stores = set(x.id for x in ast.walk(st) if isinstance(x, ast.Name) and isinstance(x.ctx, (ast.Store, ast.Del)))
            if isinstance(st, ast.Assign) and len(st.targets) == 1 and isinstance(st.targets[0], ast.Name) and st.targets[0].id in cursors \
                    and _is_num(st.value):
                env[st.targets[0].id] = st.value
                out.append(st)
                continue
            live = dict((k, v) for k, v in env.items() if k not in stores)
            if live and not isinstance(st, (ast.FunctionDef, ast.AsyncFunctionDef, ast.ClassDef, ast.For, ast.While, ast.AugAssign)):
                for k, v in live.items():
                    st = _SubstName(k, v).visit(st)
            for k in stores:
                env.pop(k, None)
            if isinstance(st, (ast.For, ast.While)):
                env.clear()
            out.append(st)
        return out

    def _loops_to_builtins(self, stmts):
        out = []
        i = 0
        while i < len(stmts):
            st = stmts[i]
            nxt = stmts[i + 1] if i + 1 < len(stmts) else None
            # N8
            if isinstance(st, ast.Assign) and len(st.targets) == 1 and isinstance(st.targets[0], ast.Name) and _is_num(st.value) \
                    and st.value.value == 0 and isinstance(nxt, ast.For) and not nxt.orelse and len(nxt.body) == 1:
                x = st.targets[0].id
                b = nxt.body[0]
                cond = None
                if isinstance(b, ast.If) and not b.orelse and len(b.body) == 1:
                    cond, b = b.test, b.body[0]
                if isinstance(b, ast.AugAssign) and isinstance(b.op, ast.Add) and isinstance(b.target, ast.Name) and b.target.id == x \
                        and not any(isinstance(n_, ast.Name) and n_.id == x for n_ in ast.walk(b.value)) \
                        and not (cond is not None and any(isinstance(n_, ast.Name) and n_.id == x for n_ in ast.walk(cond))):
                    gen = ast.GeneratorExp(elt=b.value, generators=[ast.comprehension(target=nxt.target, iter=nxt.iter,
                                                                                     ifs=[cond] if cond is not None else [], is_async=0)])
                    call = ast.Call(func=ast.Name(id="sum", ctx=ast.Load()), args=[gen], keywords=[])
                    new = ast.copy_location(ast.Assign(targets=st.targets, value=call), nxt)
                    ast.fix_missing_locations(new)
                    out.append(new)
                    i += 2
                    continue
            # N16: x = []; for a in xs: [if c:] x.append(E)   ->   x = [E for a in xs if c]
            if isinstance(st, ast.Assign) and len(st.targets) == 1 and isinstance(st.targets[0], ast.Name) and isinstance(st.value, ast.List) \
                    and not st.value.elts and isinstance(nxt, ast.For) and not nxt.orelse and len(nxt.body) == 1:
                x = st.targets[0].id
                b = nxt.body[0]
                conds = []
                while isinstance(b, ast.If) and not b.orelse and len(b.body) == 1:
                    conds.append(b.test)
                    b = b.body[0]
                if isinstance(b, ast.Expr) and isinstance(b.value, ast.Call) and isinstance(b.value.func, ast.Attribute) \
                        and b.value.func.attr == "append" and isinstance(b.value.func.value, ast.Name) and b.value.func.value.id == x \
                        and len(b.value.args) == 1 and not b.value.keywords \
                        and not any(isinstance(n_, ast.Name) and n_.id == x for e_ in [b.value.args[0], nxt.iter] + conds for n_ in ast.walk(e_)):
                    comp = ast.ListComp(elt=b.value.args[0], generators=[ast.comprehension(target=nxt.target, iter=nxt.iter, ifs=conds, is_async=0)])
                    new = ast.copy_location(ast.Assign(targets=st.targets, value=comp), nxt)
                    ast.fix_missing_locations(new)
                    out.append(new)
                    i += 2
                    continue
            # N9
            if isinstance(st, ast.For) and not st.orelse and len(st.body) == 1 and isinstance(st.body[0], ast.If) and not st.body[0].orelse \
                    and len(st.body[0].body) == 1 and isinstance(st.body[0].body[0], ast.Return) and isinstance(nxt, ast.Return) \
                    and isinstance(st.body[0].body[0].value, ast.Constant) and isinstance(nxt.value, ast.Constant) \
                    and isinstance(st.body[0].body[0].value.value, bool) and isinstance(nxt.value.value, bool) \
                    and st.body[0].body[0].value.value != nxt.value.value:
                inner = st.body[0].body[0].value.value
                test = st.body[0].test
                if inner is False:
                    # all(not test)
                    elt = test.operand if isinstance(test, ast.UnaryOp) and isinstance(test.op, ast.Not) else ast.UnaryOp(op=ast.Not(), operand=test)
                    fn = "all"
                else:
                    elt = test
                    fn = "any"
                gen = ast.GeneratorExp(elt=elt, generators=[ast.comprehension(target=st.target, iter=st.iter, ifs=[], is_async=0)])
                new = ast.copy_location(ast.Return(value=ast.Call(func=ast.Name(id=fn, ctx=ast.Load()), args=[gen], keywords=[])), st)
                ast.fix_missing_locations(new)
                out.append(new)
                i += 2
                continue
            out.append(st)
            i += 1
        return out

    def _block(self, stmts):
        out = []
        if len(stmts) > 1 and any(isinstance(s, ast.Pass) for s in stmts):
            kept = [s for s in stmts if not isinstance(s, ast.Pass)]
            stmts = kept or stmts[:1]
        visited = []
        for s in stmts:
            r = self.visit(s)
            visited.extend(r if isinstance(r, list) else [r])
        visited = self._loops_to_builtins(visited)
        visited = self._sink_callable_choice(visited)
        visited = self._index_struct_unpack(visited)
        visited = self._counting_loops(visited)
        visited = self._return_temps(visited)
        visited = self._split_parallel_assignments(visited)
        visited = self._dict_calls(visited)
        visited = self._sink_flag_tests(visited)
        visited = self._propagate_constants(visited)
        visited = self._ifexp_statements(visited)
        visited = self._shortcircuit_statements(visited)
        for s in visited:
            if isinstance(s, ast.If):
                # N2
                if s.orelse and isinstance(s.test, ast.UnaryOp) and isinstance(s.test.op, ast.Not) \
                        and not (len(s.orelse) == 1 and isinstance(s.orelse[0], ast.If)):
                    s.test, s.body, s.orelse = s.test.operand, s.orelse, s.body
                # N3
                if s.orelse and terminates(s.body) and not (len(s.orelse) == 1 and isinstance(s.orelse[0], ast.If)):
                    tail = s.orelse
                    s.orelse = []
                    out.append(s)
                    out.extend(tail)
                    continue
            out.append(s)
        return out

    def generic_visit(self, node):
        for field, v in ast.iter_fields(node):
            if isinstance(v, list):
                if v and isinstance(v[0], ast.stmt):
                    setattr(node, field, self._block(v))
                else:
                    for i, x in enumerate(v):
                        if isinstance(x, ast.AST):
                            v[i] = self.visit(x)
            elif isinstance(v, ast.AST):
                setattr(node, field, self.visit(v))
        return node


def _unpack_loop_targets(tree):
    """N11: `for x in xs: a, b = x; ...` with x used nowhere else in the function -> `for a, b in xs: ...`"""
    for fn in ast.walk(tree):
        if not isinstance(fn, (ast.FunctionDef, ast.AsyncFunctionDef)):
            continue
        uses = {}
        for n in ast.walk(fn):
            if isinstance(n, ast.Name):
                uses[n.id] = uses.get(n.id, 0) + 1
        for lp in ast.walk(fn):
            if isinstance(lp, ast.For) and isinstance(lp.target, ast.Name) and uses.get(lp.target.id) == 2 and len(lp.body) > 1:
                st = lp.body[0]
                if isinstance(st, ast.Assign) and len(st.targets) == 1 and isinstance(st.targets[0], ast.Tuple) \
                        and all(isinstance(e, ast.Name) for e in st.targets[0].elts) \
                        and isinstance(st.value, ast.Name) and st.value.id == lp.target.id:
                    lp.target = st.targets[0]
                    lp.body = lp.body[1:]
    return tree


def desugar(tree):
    return _unpack_loop_targets(Desugar().visit(tree))
