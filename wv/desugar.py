"""Load-time normal forms, applied to every module before any rule sees it, so
that rules are invariant under the commonest behaviour-preserving rewrites:

  N1  `x = x <op> e`                      ->  `x <op>= e`      (x a name or attribute path)
      `x = c + x` / `x = c * x`           ->  `x += c`         (c a numeric constant)
  N2  `if not c: A else: B`               ->  `if c: B else: A` (no elif chain involved)
  N3  `if c: ...; return/raise/continue/break  else: B`  ->  `if c: ...` followed by B
  N4  `pass` statements are dropped from blocks that have other statements
  N5  f"{a}.{b}" (plain fields, no format spec, conversion only !r/!s)  ->  "%s.%s" % (a, b)
  N6  `except T as e:` binding is kept, but the py2 idiom `e = sys.exc_info()[1]` as the first statement of a handler
      is rewritten to the binding form (`except T as e:`)

Nodes keep their original line numbers (reports still point into the real
file).  N1 treats the rebinding form and the in-place form alike, which is
what every rule wants (they read `+=` as "the new value is old + e").
"""

import ast


def _same_path(a, b):
    if isinstance(a, ast.Name) and isinstance(b, ast.Name):
        return a.id == b.id
    if isinstance(a, ast.Attribute) and isinstance(b, ast.Attribute):
        return a.attr == b.attr and _same_path(a.value, b.value)
    return False


def _is_num(e):
    return isinstance(e, ast.Constant) and isinstance(e.value, (int, float)) and not isinstance(e.value, bool)


def terminates(body):
    return bool(body) and isinstance(body[-1], (ast.Return, ast.Raise, ast.Continue, ast.Break))


class Desugar(ast.NodeTransformer):
    def visit_Assign(self, n):
        self.generic_visit(n)
        if len(n.targets) == 1 and isinstance(n.targets[0], (ast.Name, ast.Attribute)) and isinstance(n.value, ast.BinOp):
            t = n.targets[0]
            v = n.value
            if _same_path(t, v.left):
                return ast.copy_location(ast.AugAssign(target=t, op=v.op, value=v.right), n)
            if isinstance(v.op, (ast.Add, ast.Mult)) and _same_path(t, v.right) and _is_num(v.left):
                return ast.copy_location(ast.AugAssign(target=t, op=v.op, value=v.left), n)
        return n

    def visit_JoinedStr(self, n):
        self.generic_visit(n)
        fmt = []
        args = []
        for v in n.values:
            if isinstance(v, ast.Constant) and isinstance(v.value, str):
                fmt.append(v.value.replace("%", "%%"))
            elif isinstance(v, ast.FormattedValue) and v.format_spec is None and v.conversion in (-1, 115, 114):
                fmt.append("%r" if v.conversion == 114 else "%s")
                args.append(v.value)
            else:
                return n
        if not args:
            return ast.copy_location(ast.Constant(value="".join(fmt).replace("%%", "%")), n)
        right = args[0] if len(args) == 1 and not isinstance(args[0], ast.Tuple) else ast.Tuple(elts=args, ctx=ast.Load())
        return ast.copy_location(ast.BinOp(left=ast.Constant(value="".join(fmt)), op=ast.Mod(), right=right), n)

    def visit_ExceptHandler(self, n):
        self.generic_visit(n)
        if n.name is None and n.body:
            st = n.body[0]
            if isinstance(st, ast.Assign) and len(st.targets) == 1 and isinstance(st.targets[0], ast.Name):
                try:
                    txt = ast.unparse(st.value)
                except Exception:
                    txt = ""
                if txt == "sys.exc_info()[1]":
                    n.name = st.targets[0].id
                    n.body = n.body[1:] or [ast.copy_location(ast.Pass(), st)]
        return n

    def _block(self, stmts):
        out = []
        if len(stmts) > 1 and any(isinstance(s, ast.Pass) for s in stmts):
            kept = [s for s in stmts if not isinstance(s, ast.Pass)]
            stmts = kept or stmts[:1]
        for s in stmts:
            s = self.visit(s)
            if isinstance(s, ast.If):
                # N2
                if s.orelse and isinstance(s.test, ast.UnaryOp) and isinstance(s.test.op, ast.Not) \
                        and not (len(s.orelse) == 1 and isinstance(s.orelse[0], ast.If)):
                    s.test, s.body, s.orelse = s.test.operand, s.orelse, s.body
                # N3
                if s.orelse and terminates(s.body) and not (len(s.orelse) == 1 and isinstance(s.orelse[0], ast.If)):
                    tail = s.orelse
                    s.orelse = []
                    out.append(s)
                    out.extend(tail)
                    continue
            out.append(s)
        return out

    def generic_visit(self, node):
        for field, v in ast.iter_fields(node):
            if isinstance(v, list):
                if v and isinstance(v[0], ast.stmt):
                    setattr(node, field, self._block(v))
                else:
                    for i, x in enumerate(v):
                        if isinstance(x, ast.AST):
                            v[i] = self.visit(x)
            elif isinstance(v, ast.AST):
                setattr(node, field, self.visit(v))
        return node


def desugar(tree):
    return Desugar().visit(tree)
