"""Matcher inventory: kinds, cursor-bearing children, realignment specs.

Kinds are read from the AST of the resolved is_active(); the alignment specs
are a frozen table (one entry per base class, inherited by subclasses), each
confirmed by reading the class.
"""

import ast

from . import norm
from .model import AnalysisError

MATCHER_BASE = "matching.mcore.Matcher"
CURSOR_MOVES = ("next", "skip_to", "skip_to_quality", "reset")
MUTATORS = ("__init__", "reset", "next", "skip_to", "skip_to_quality")
POSTING_READS = ("score", "weight", "value", "value_as", "spans")
QUALITY_READS = ("block_quality", "max_quality")

# base class -> alignment spec (inherited by subclasses unless they have their own entry)
#   children : attributes holding child cursors that this class advances itself
#   own      : own cursor attributes (assignment = an advance)
#   realign  : helper method names whose call re-establishes the class invariant,
#              or "cache:<attr>" (assigning None to the cached-id attribute),
#              or "follow" (b.skip_to(<expr mentioning a.id()>))
#   excuse   : extra accepted reasons for not realigning after the last advance
ALIGN_SPECS = {
    "matching.binary.UnionMatcher": dict(
        children=["a", "b"], own=[], realign=["cache:_id"], excuse=[],
        why="id() caches min(a.id(), b.id()) in _id; every cursor move must invalidate it"),
    "matching.binary.IntersectionMatcher": dict(
        children=["a", "b"], own=[], realign=["_find_next", "_find_first"], excuse=["ids_equal"],
        why="invariant a.id() == b.id() while active; _find_next (asserts ids differ) restores it"),
    "matching.binary.AndNotMatcher": dict(
        children=["a", "b"], own=[], realign=["_find_next"], excuse=[],
        why="invariant: current a.id() is not in b; _find_next skips excluded ids"),
    "matching.binary.AndMaybeMatcher": dict(
        children=["a", "b"], own=[], realign=["follow", "_first_b"], excuse=["ids_equal"],
        why="invariant: b is positioned at the first id >= a.id() so score() can compare ids"),
    "matching.wrappers.FilterMatcher": dict(
        children=["child"], own=[], realign=["_find_next"], excuse=[],
        why="invariant: child.id() passes the filter; _find_next skips filtered ids"),
    "matching.wrappers.InverseMatcher": dict(
        children=[], own=["_id"], realign=["_find_next"], excuse=[],
        why="invariant: _id is not in child and not missing"),
    "matching.wrappers.RequireMatcher": dict(
        children=["a", "b"], own=[], realign=["child._find_next", "child._find_first"], excuse=["ids_equal"],
        ctor_realign=["IntersectionMatcher"],
        why="child is IntersectionMatcher(a, b); moving a or b directly bypasses its alignment"),
    "matching.wrappers.MultiMatcher": dict(
        children=["matchers"], own=["current"], realign=["_next_matcher"], excuse=["sub_active"],
        why="invariant: matchers[current] is active (or current == len)"),
    "matching.combo.ArrayUnionMatcher": dict(
        children=["_submatchers"], own=["_docnum"], realign=["_find_next", "_read_part"], excuse=[],
        why="invariant: _a holds the part containing _docnum and _docnum is a matching id"),
    "query.spans.SpanWrappingMatcher": dict(
        children=["child"], own=[], realign=["_find_next"], excuse=[],
        why="invariant: _spans are the (non-empty) spans of the current child document"),
    "query.nested.NestedParent.NestedParentMatcher": dict(
        children=["child"], own=[], realign=["_gather"], excuse=[],
        why="invariant: _nextparent/_nextscore describe the next parent with matching children"),
}


def matcher_classes(prog):
    """every class under Matcher -- except a private intermediate base that a refactoring pulled shared methods up into: a class
    the reference tree does not have (no function of the frozen inventory lives in it), whose name is private, that has strict
    subclasses and that no code constructs or passes around.  It is judged through the classes that inherit from it."""
    cached = getattr(prog, "_matcher_classes", None)
    if cached is not None:
        return cached
    from . import inline
    base = prog.cls(MATCHER_BASE)
    inv = inline.inventory()
    inst = instantiated_classes(prog)
    out = []
    for k in prog.subclasses(base):
        if inv and k.name.startswith("_") and not k.name.startswith("__") and k.qualname not in inst \
                and prog.subclasses(k, strict=True) and not any(q.startswith(k.qualname + ".") for q in inv):
            continue
        out.append(k)
    prog._matcher_classes = out
    return out


def spec_for(prog, cls):
    for k in prog.mro(cls):
        if isinstance(k, str):
            continue
        s = ALIGN_SPECS.get(k.short)
        if s is not None:
            return k, s
    return None, None


def validate_specs(prog):
    for name, s in ALIGN_SPECS.items():
        c = prog.cls(name)
        for h in s["realign"]:
            if h.startswith("cache:") or h == "follow":
                continue
            hn = h.split(".")[-1]
            if "." in h:
                continue
            if prog.lookup(c, hn) is None:
                raise AnalysisError("alignment spec: %s has no helper %s" % (name, hn))


def is_active_kind(prog, cls):
    """union / intersection / leader:<attr> / wrapper / own / none"""
    f = prog.lookup(cls, "is_active")
    if f is None:
        return "none"
    rets = [n for n in ast.walk(f.node) if isinstance(n, ast.Return) and n.value is not None]
    if len(rets) != 1:
        return "own"
    e = rets[0].value
    if isinstance(e, ast.BoolOp):
        parts = [norm.canon(v) for v in e.values]
        if all(p.endswith(".is_active()") for p in parts) and len(parts) == 2:
            return "union" if isinstance(e.op, ast.Or) else "intersection"
        return "own"
    t = norm.canon(e)
    if t.startswith("self.") and t.endswith(".is_active()") and t.count(".") == 2:
        attr = t.split(".")[1]
        return "wrapper" if attr == "child" else "leader:" + attr
    if isinstance(e, ast.Constant):
        return "const"
    return "own"


def constant_false_sbq(prog, cls):
    """supports_block_quality() resolved on cls returns the constant False."""
    f = prog.lookup(cls, "supports_block_quality")
    if f is None:
        return True
    rets = [n for n in ast.walk(f.node) if isinstance(n, ast.Return) and n.value is not None]
    return len(rets) == 1 and isinstance(rets[0].value, ast.Constant) and rets[0].value.value is False


def child_of_receiver(recv_text, spec, loopvars):
    """Which child (if any) a call receiver denotes."""
    for ch in spec["children"]:
        base = "self." + ch
        if recv_text == base or recv_text.startswith(base + "["):
            return ch
    if recv_text in loopvars:
        return loopvars[recv_text]
    return None


def loop_vars_over_children(funcnode, spec, al):
    """Loop/comprehension variables iterating over an n-ary child collection,
    and locals bound to one element of it:  name -> child attribute."""
    out = {}
    coll = ["self." + ch for ch in spec["children"]]

    def from_coll(e):
        t = norm.canon(e, al)
        for c in coll:
            if t == c or t.startswith(c + "[") or t.startswith(c + "."):
                return c.split(".", 1)[1]
            if t.startswith("enumerate(" + c):
                return c.split(".", 1)[1]
        return None

    for n in ast.walk(funcnode):
        if isinstance(n, (ast.For, ast.comprehension)):
            ch = from_coll(n.iter)
            if ch:
                tgt = n.target
                if isinstance(tgt, ast.Tuple) and tgt.elts:
                    tgt = tgt.elts[-1]
                if isinstance(tgt, ast.Name):
                    out[tgt.id] = ch
        elif isinstance(n, ast.Assign) and len(n.targets) == 1 and isinstance(n.targets[0], ast.Name):
            if isinstance(n.value, ast.Subscript):
                ch = from_coll(n.value.value)
                if ch and norm.canon(n.value.value, al) in coll:
                    out[n.targets[0].id] = ch
    return out


def instantiated_classes(prog):
    """Classes referenced as values somewhere (constructed, stored in a class
    attribute such as `matcher_type = UnionMatcher`, passed as an argument, or
    reached as a nested class through self.X): an over-approximation of the
    classes that can be instantiated."""
    cache = getattr(prog, "_instantiated", None)
    if cache is not None:
        return cache
    out = set()

    def note(r):
        if r is not None and r[0] == "class":
            out.add(r[1].qualname)

    for f in prog.functions.values():
        for n in ast.walk(f.node):
            if isinstance(n, (ast.Name, ast.Attribute)) and isinstance(getattr(n, "ctx", None), ast.Load):
                if isinstance(n, ast.Attribute) and isinstance(n.value, ast.Name) and n.value.id in ("self", "cls") \
                        and f.cls is not None:
                    for k in prog.mro(f.cls):
                        if not isinstance(k, str) and n.attr in k.nested:
                            out.add(k.nested[n.attr].qualname)
                            break
                    continue
                try:
                    note(prog.resolve_in_func(f, n))
                except Exception:
                    pass
    for c in prog.classes.values():
        for v in c.attrs.values():
            if isinstance(v, (ast.Name, ast.Attribute)):
                note(prog.resolve_expr(c.module, v, c))
    for m in prog.modules.values():
        for v in m.assigns.values():
            for n in ast.walk(v):
                if isinstance(n, (ast.Name, ast.Attribute)):
                    note(prog.resolve_expr(m, n))
    prog._instantiated = out
    return out


def read_kind(prog, cls, depth=0):
    """How a class's children relate to the current document, for guarded-read rules:
    ("union", "a", "b") / ("leader", leader_attr, follower_attr) / None."""
    k = is_active_kind(prog, cls)
    if k == "union":
        return ("union", "a", "b")
    if k.startswith("leader:"):
        lead = k.split(":")[1]
        other = "b" if lead == "a" else "a"
        return ("leader", lead, other)
    if k == "wrapper" and depth < 2:
        init = prog.lookup(cls, "__init__")
        if init is not None:
            for c in norm.calls_in(init.node):
                if isinstance(c.func, (ast.Name, ast.Attribute)) and len(c.args) == 2:
                    r = prog.resolve_in_func(init, c.func)
                    if r is not None and r[0] == "class" and [norm.canon(a) for a in c.args] in (["a", "b"], ["self.a", "self.b"]):
                        return read_kind(prog, r[1], depth + 1)
    return None
