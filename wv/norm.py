"""E3 -- local aliases and canonical printing of expressions.

`aliases(func)` maps a local name to the attribute path it stands for when the
function assigns it exactly once from a pure path expression (`a = self.a`).
`canon(expr, al)` prints an expression modulo those aliases and modulo
commutativity of and/or/==/!=/+/*, so that sibling expressions can be compared
and findings keyed by normalised text instead of line numbers.
"""

import ast
import copy


def is_path(expr):
    """Name or dotted attribute chain (optionally with constant subscripts)."""
    while True:
        if isinstance(expr, ast.Name):
            return True
        if isinstance(expr, ast.Attribute):
            expr = expr.value
            continue
        return False


def path_str(expr):
    try:
        return ast.unparse(expr)
    except Exception:
        return None


_asg_cache = {}
_alias_cache = {}


def assigned_names(funcnode):
    r = _asg_cache.get(id(funcnode))
    if r is None or r[0] is not funcnode:
        r = (funcnode, _assigned_names(funcnode))
        _asg_cache[id(funcnode)] = r
    return r[1]


def aliases(funcnode):
    r = _alias_cache.get(id(funcnode))
    if r is None or r[0] is not funcnode:
        r = (funcnode, _aliases(funcnode))
        _alias_cache[id(funcnode)] = r
    return r[1]


def _assigned_names(funcnode):
    """name -> list of value nodes (None for non-simple bindings: loop targets,
    augmented assignments, with-as, tuple targets, except-as, parameters)."""
    out = {}
    a = funcnode.args
    for x in list(getattr(a, "posonlyargs", [])) + list(a.args) + list(a.kwonlyargs):
        out.setdefault(x.arg, []).append(None)
    if a.vararg:
        out.setdefault(a.vararg.arg, []).append(None)
    if a.kwarg:
        out.setdefault(a.kwarg.arg, []).append(None)

    def bind_target(t, value):
        if isinstance(t, ast.Name):
            out.setdefault(t.id, []).append(value)
        elif isinstance(t, (ast.Tuple, ast.List)):
            if isinstance(value, (ast.Tuple, ast.List)) and len(value.elts) == len(t.elts):
                for tt, vv in zip(t.elts, value.elts):
                    bind_target(tt, vv)
            else:
                for tt in t.elts:
                    bind_target(tt, None)
        elif isinstance(t, ast.Starred):
            bind_target(t.value, None)

    for st in ast.walk(funcnode):
        if st is funcnode:
            continue
        if isinstance(st, ast.Assign):
            for t in st.targets:
                bind_target(t, st.value)
        elif isinstance(st, ast.AugAssign):
            bind_target(st.target, None)
        elif isinstance(st, ast.AnnAssign) and st.value is not None:
            bind_target(st.target, st.value)
        elif isinstance(st, (ast.For, ast.AsyncFor)):
            bind_target(st.target, None)
        elif isinstance(st, ast.comprehension):
            bind_target(st.target, None)
        elif isinstance(st, (ast.With, ast.AsyncWith)):
            for i in st.items:
                if i.optional_vars is not None:
                    bind_target(i.optional_vars, None)
        elif isinstance(st, ast.ExceptHandler) and st.name:
            out.setdefault(st.name, []).append(None)
        elif isinstance(st, ast.NamedExpr):
            bind_target(st.target, None)
    return out


def _aliases(funcnode):
    """local name -> path expression node it is an alias of."""
    out = {}
    asg = assigned_names(funcnode)
    for name, vals in asg.items():
        if len(vals) == 1 and vals[0] is not None and is_path(vals[0]) \
                and not isinstance(vals[0], ast.Name):
            out[name] = vals[0]
        elif len(vals) > 1 and all(v is not None and is_path(v) and not isinstance(v, ast.Name) for v in vals) \
                and len(set(canon(v) for v in vals)) == 1:
            # bound more than once, every time to the same attribute path (a helper inlined at two call sites brings its
            # `limit = self.limit` twice): still an alias, as long as the function never stores into that path
            path = canon(vals[0])
            stored = any(isinstance(x, (ast.Attribute, ast.Subscript)) and isinstance(x.ctx, (ast.Store, ast.Del)) and
                         (canon(x) == path or path.startswith(canon(x) + ".")) for x in ast.walk(funcnode))
            if not stored:
                out[name] = vals[0]
    # resolve chains (x = self.a ; y = x.child)
    for _ in range(3):
        for name, v in list(out.items()):
            out[name] = substitute(v, {k: w for k, w in out.items() if k != name})
    return out


class _Subst(ast.NodeTransformer):
    def __init__(self, al):
        self.al = al

    def visit_Name(self, node):
        if isinstance(getattr(node, "ctx", None) or ast.Load(), ast.Load) and node.id in self.al:
            return copy.deepcopy(self.al[node.id])
        return node


def substitute(expr, al):
    if not al:
        return expr
    return _Subst(al).visit(copy.deepcopy(expr))


_COMM = (ast.Add, ast.Mult, ast.BitAnd, ast.BitOr)
_FLIP = {ast.Lt: ast.Gt, ast.Gt: ast.Lt, ast.LtE: ast.GtE, ast.GtE: ast.LtE}


def canon(expr, al=None):
    """Canonical text of an expression."""
    if al:
        expr = substitute(expr, al)
    return _canon(expr)


def _canon(e):
    if isinstance(e, ast.BoolOp):
        parts = sorted(_canon(v) for v in e.values)
        op = " and " if isinstance(e.op, ast.And) else " or "
        return "(" + op.join(parts) + ")"
    if isinstance(e, ast.Compare) and len(e.ops) == 1:
        l = _canon(e.left)
        r = _canon(e.comparators[0])
        op = e.ops[0]
        if isinstance(op, (ast.Eq, ast.NotEq, ast.Is, ast.IsNot)):
            if r < l:
                l, r = r, l
        elif type(op) in (ast.Gt, ast.GtE):
            l, r = r, l
            op = _FLIP[type(op)]()
        sym = {ast.Eq: "==", ast.NotEq: "!=", ast.Lt: "<", ast.LtE: "<=", ast.Is: "is",
               ast.IsNot: "is not", ast.In: "in", ast.NotIn: "not in", ast.Gt: ">",
               ast.GtE: ">="}[type(op)]
        return "(%s %s %s)" % (l, sym, r)
    if isinstance(e, ast.BinOp) and isinstance(e.op, _COMM):
        l, r = _canon(e.left), _canon(e.right)
        if r < l:
            l, r = r, l
        sym = {ast.Add: "+", ast.Mult: "*", ast.BitAnd: "&", ast.BitOr: "|"}[type(e.op)]
        return "(%s %s %s)" % (l, sym, r)
    if isinstance(e, ast.BinOp):
        return "(%s %s %s)" % (_canon(e.left), _opsym(e.op), _canon(e.right))
    if isinstance(e, ast.UnaryOp):
        if isinstance(e.op, ast.Not):
            return "(not %s)" % _canon(e.operand)
        return "(%s%s)" % ({ast.USub: "-", ast.UAdd: "+", ast.Invert: "~"}[type(e.op)], _canon(e.operand))
    if isinstance(e, ast.Call):
        args = [_canon(a) for a in e.args]
        args += ["%s=%s" % (k.arg, _canon(k.value)) if k.arg else "**" + _canon(k.value)
                 for k in sorted(e.keywords, key=lambda k: k.arg or "")]
        return "%s(%s)" % (_canon(e.func), ", ".join(args))
    if isinstance(e, ast.Attribute):
        return "%s.%s" % (_canon(e.value), e.attr)
    if isinstance(e, ast.Subscript):
        return "%s[%s]" % (_canon(e.value), _canon(e.slice))
    if isinstance(e, ast.Starred):
        return "*" + _canon(e.value)
    if isinstance(e, ast.Tuple):
        return "(" + ", ".join(_canon(x) for x in e.elts) + ("," if len(e.elts) == 1 else "") + ")"
    if isinstance(e, ast.IfExp):
        return "(%s if %s else %s)" % (_canon(e.body), _canon(e.test), _canon(e.orelse))
    try:
        return ast.unparse(e)
    except Exception:
        return "<%s>" % type(e).__name__


def _opsym(op):
    return {ast.Sub: "-", ast.Div: "/", ast.FloorDiv: "//", ast.Mod: "%", ast.Pow: "**",
            ast.LShift: "<<", ast.RShift: ">>", ast.BitXor: "^", ast.MatMult: "@",
            ast.Add: "+", ast.Mult: "*", ast.BitAnd: "&", ast.BitOr: "|"}[type(op)]


def stmt_text(node, al=None):
    """Normalised one-line text of a statement/expression (for finding keys)."""
    try:
        if isinstance(node, ast.expr):
            return canon(node, al)
        n = substitute(node, al) if al else node
        return " ".join(ast.unparse(n).split())
    except Exception:
        return type(node).__name__


def calls_in(node, include_nested_defs=False):
    """All ast.Call nodes under `node` in evaluation order (post-order: a
    call's receiver and arguments come before the call itself)."""
    out = []

    def rec(x):
        for ch in ast.iter_child_nodes(x):
            if not include_nested_defs and isinstance(ch, (ast.FunctionDef, ast.AsyncFunctionDef,
                                                           ast.Lambda, ast.ClassDef)):
                continue
            rec(ch)
            if isinstance(ch, ast.Call):
                out.append(ch)
    if isinstance(node, ast.Call):
        rec(node)
        out.append(node)
    else:
        rec(node)
    return out


def call_name(call):
    """Simple name of the callee: `f(...)` -> f, `x.y.m(...)` -> m."""
    f = call.func
    if isinstance(f, ast.Name):
        return f.id
    if isinstance(f, ast.Attribute):
        return f.attr
    return None


def receiver(call):
    """Receiver expression of a method call or None."""
    f = call.func
    if isinstance(f, ast.Attribute):
        return f.value
    return None


def own_nodes(stmt):
    """The expression(s) a CFG node evaluates itself (for compound statements
    only the header, never the nested bodies)."""
    return stmt


# --------------------------------------------------------------- definitions
_def_cache = {}


def definitions(funcnode):
    """local name -> its defining value node, for names bound exactly once by a
    plain assignment (any right-hand side)."""
    r = _def_cache.get(id(funcnode))
    if r is None or r[0] is not funcnode:
        d = {}
        for name, vals in assigned_names(funcnode).items():
            if len(vals) == 1 and vals[0] is not None:
                d[name] = vals[0]
        r = (funcnode, d)
        _def_cache[id(funcnode)] = r
    return r[1]


def inline_defs(expr, funcnode, depth=5):
    """Substitute single-assignment locals by their defining expressions,
    recursively (bounded)."""
    d = definitions(funcnode)
    e = expr
    for _ in range(depth):
        names = set(n.id for n in ast.walk(e) if isinstance(n, ast.Name) and isinstance(n.ctx, ast.Load))
        sub = {k: d[k] for k in names if k in d}
        if not sub:
            break
        e = substitute(e, sub)
    return e


def deep_canon(expr, funcnode):
    return canon(inline_defs(expr, funcnode))


def names_in(expr):
    return set(n.id for n in ast.walk(expr) if isinstance(n, ast.Name))


def parse_expr(text):
    return ast.parse(text, mode="eval").body


def root_name(expr, funcnode, depth=6):
    """Follow single-assignment Name -> Name copies (x = y) to the first name that is not such a copy."""
    d = definitions(funcnode)
    e = expr
    for _ in range(depth):
        if isinstance(e, ast.Name) and e.id in d and isinstance(d[e.id], ast.Name):
            e = d[e.id]
        else:
            break
    return canon(e)


_pos_cache = {}


def source_pos(funcnode):
    """pos(node) -> position of `node` in source (pre-order) order inside `funcnode`.  Use this, not line numbers, to ask which of two
    statements comes first: statements inlined back from an extracted helper keep the helper's line numbers."""
    r = _pos_cache.get(id(funcnode))
    if r is None or r[0] is not funcnode:
        seq = {}

        def number(n):
            seq[id(n)] = len(seq)
            for ch in ast.iter_child_nodes(n):
                number(ch)
        number(funcnode)
        r = (funcnode, seq)
        _pos_cache[id(funcnode)] = r
    seq = r[1]
    return lambda node: seq.get(id(node), 10 ** 9)


def positional(loop, expr, funcnode):
    """Canonical text of `expr` inside the body of `loop`, with "the element at the loop's current position" written the same way for
    the three spellings of parallel iteration:
        for i, m in enumerate(S): ... T[i] ...      for m, t in zip(S, T): ... t ...      for i in range(len(S)): ... S[i] ... T[i] ...
    The element of sequence S at the current position becomes `S[@]` (local aliases of S are expanded first)."""
    import copy
    it = loop.iter
    tg = loop.target
    subst = {}      # local name -> sequence text
    index = None
    if isinstance(it, ast.Call) and isinstance(it.func, ast.Name):
        fn = it.func.id
        if fn == "enumerate" and len(it.args) == 1 and isinstance(tg, ast.Tuple) and len(tg.elts) == 2 \
                and all(isinstance(e, ast.Name) for e in tg.elts):
            index = tg.elts[0].id
            subst[tg.elts[1].id] = deep_canon(it.args[0], funcnode)
        elif fn in ("zip", "izip") and isinstance(tg, ast.Tuple) and len(tg.elts) == len(it.args) \
                and all(isinstance(e, ast.Name) for e in tg.elts):
            for e, a in zip(tg.elts, it.args):
                subst[e.id] = deep_canon(a, funcnode)
        elif fn in ("range", "xrange") and len(it.args) == 1 and isinstance(tg, ast.Name) and isinstance(it.args[0], ast.Call) \
                and isinstance(it.args[0].func, ast.Name) and it.args[0].func.id == "len":
            index = tg.id

    class T(ast.NodeTransformer):
        def visit_Subscript(self, n):
            self.generic_visit(n)
            if index is not None and isinstance(n.slice, ast.Name) and n.slice.id == index:
                return ast.Subscript(value=n.value, slice=ast.Name(id="@", ctx=ast.Load()), ctx=n.ctx)
            return n

        def visit_Name(self, n):
            if n.id in subst:
                return ast.Subscript(value=parse_expr(subst[n.id]), slice=ast.Name(id="@", ctx=ast.Load()), ctx=ast.Load())
            return n
    e = inline_defs(copy.deepcopy(expr), funcnode)
    return canon(T().visit(e))
