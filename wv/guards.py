"""K2 support -- branch facts that must hold at each CFG node.

A fact is (polarity, canonical text) for a test expression whose outcome is
known on *every* path reaching the node (forward must-analysis, intersection at
joins).  Facts are killed when a name they mention is re-bound, or -- for
facts about cursor state -- by caller-supplied kill rules.
"""

import ast
import re

from . import cfg as cfgmod
from . import norm


def _target_names(t, out):
    """Names re-bound by an assignment target (attribute/subscript stores do
    not re-bind the base name)."""
    if isinstance(t, ast.Name):
        out.add(t.id)
    elif isinstance(t, (ast.Tuple, ast.List)):
        for e in t.elts:
            _target_names(e, out)
    elif isinstance(t, ast.Starred):
        _target_names(t.value, out)


def _bound_names(node):
    """Names (re)bound by a CFG node."""
    a = node.ast
    out = set()
    if a is None:
        return out
    if node.kind == "for":
        for n in ast.walk(a.target):
            if isinstance(n, ast.Name):
                out.add(n.id)
        return out
    if node.kind in ("stmt", "iter_init"):
        targets = []
        if isinstance(a, ast.Assign):
            targets = a.targets
        elif isinstance(a, (ast.AugAssign, ast.AnnAssign)):
            targets = [a.target]
        elif isinstance(a, (ast.FunctionDef, ast.ClassDef)):
            out.add(a.name)
        for t in targets:
            _target_names(t, out)
    if node.kind == "with_enter":
        for i in a.items:
            if i.optional_vars is not None:
                for n in ast.walk(i.optional_vars):
                    if isinstance(n, ast.Name):
                        out.add(n.id)
    if node.kind == "except_entry" and a.name:
        out.add(a.name)
    return out


class Facts(object):
    def __init__(self, func, al=None, kill=None, include_exc=True, textfn=None, nonnull=None):
        """kill(node, fact) -> True if executing `node` invalidates `fact`
        (fact = (pol, text, names)); name re-binding is always applied."""
        self.func = func
        self.g = cfgmod.cfg_of(func)
        self.al = al if al is not None else norm.aliases(func.node)
        self.kill = kill
        self.nonnull = nonnull   # nonnull(call) -> True if the call cannot return None: `x = call` then establishes (F, "(None is x)")
        self.textfn = textfn or (lambda e: norm.canon(e, self.al))
        self._names = {}
        # a state is a bounded disjunction: a frozenset of alternatives, each a frozenset of facts.  Joins keep the
        # alternatives apart (up to MAX_ALTS, then they collapse to their intersection), so that after
        #     if a and b: return ...
        # a later `if a:` knows b is false: the alternative (F:a) is contradicted by the new fact and dropped.
        self._sin, self._sout = cfgmod.forward(
            self.g, frozenset([frozenset()]), self._transfer, self._edge, meet=self._meet, include_exc=include_exc)

    MAX_ALTS = 6

    @staticmethod
    def _flat(state):
        if state is None:
            return None
        alts = list(state)
        if not alts:
            return frozenset()
        out = set(alts[0])
        for a in alts[1:]:
            out &= a
        return frozenset(out)

    def _norm(self, alts):
        alts = set(alts)
        keep = [a for a in alts if not any(b < a for b in alts)]
        if len(keep) > self.MAX_ALTS:
            return frozenset([self._flat(keep)])
        return frozenset(keep)

    def _meet(self, a, b):
        return self._norm(set(a) | set(b))

    def _fact(self, pol, expr):
        pol, expr = positive(pol, expr)
        text = self.textfn(expr)
        if text not in self._names:
            self._names[text] = frozenset(re.findall(r"[A-Za-z_][A-Za-z_0-9]*", text))
        return (pol, text)

    def _transfer(self, node, state):
        bound = _bound_names(node)
        if not bound and self.kill is None:
            return state
        # a boolean flag: `add = True` / `found = False` establishes the fact (T/F, "add") -- with the alternatives kept
        # apart at joins, a later `if add:` then recovers the conditions under which the flag was set
        flag = None
        a = node.ast
        if node.kind == "stmt" and isinstance(a, ast.Assign) and len(a.targets) == 1 and isinstance(a.targets[0], ast.Name) \
                and isinstance(a.value, ast.Constant) and isinstance(a.value.value, bool):
            flag = ("T" if a.value.value else "F", a.targets[0].id)
            self._names.setdefault(flag[1], frozenset([flag[1]]))
        if self.nonnull is not None and node.kind == "stmt" and isinstance(a, ast.Assign) and len(a.targets) == 1 \
                and isinstance(a.targets[0], ast.Name) and isinstance(a.value, ast.Call) and self.nonnull(a.value):
            flag = ("F", "(None is %s)" % a.targets[0].id)
            self._names.setdefault(flag[1], frozenset([a.targets[0].id]))
        res = set()
        for alt in state:
            out = []
            for f in alt:
                if bound and (self._names[f[1]] & bound):
                    continue
                if self.kill is not None and self.kill(node, f):
                    continue
                out.append(f)
            if flag is not None:
                out.append(flag)
            res.add(frozenset(out))
        return self._norm(res)

    def alternatives(self, node):
        """The disjunction of fact sets known on entry to `node` (one of them describes the path actually taken);
        None if unreachable.  `at(node)` is their intersection."""
        s = self._sin[node.id]
        return None if s is None else list(s)

    def node_of(self, astnode):
        """the CFG node whose expressions contain `astnode`"""
        for n in self.g.nodes:
            for frag in cfgmod.node_exprs(n):
                for x in ast.walk(frag):
                    if x is astnode:
                        return n
        return None

    def _edge(self, src, label, dst, state):
        if isinstance(label, tuple):
            f = self._fact(label[0], label[1])
            anti = (_FLIP[f[0]], f[1])
            live = [alt for alt in state if anti not in alt]
            if live:
                # alternatives that assumed the opposite outcome of this very test are not the way we got here
                return self._norm(alt | {f} for alt in live)
            # every alternative holds a stale opposite fact (the expression changed value): the new outcome wins
            return self._norm((alt - {anti}) | {f} for alt in state)
        return state

    def at(self, node):
        """Facts holding on entry to `node` (None if unreachable)."""
        return self._flat(self._sin[node.id])

    def per_entry(self, node):
        """One fact set per incoming edge of `node` (facts after the predecessor plus the edge's own branch fact): a node
        reached by `a or b` has two entries with different facts, whose intersection (`at`) may be empty."""
        out = []
        for pred in self.g.nodes:
            for (succ, label) in pred.succs:
                if succ is not node or label == "exc":
                    continue
                base = self._sout[pred.id]
                if base is None:
                    continue
                st = self._edge(pred, label, node, base)
                out.extend(st)
        return out

    def holds(self, node, pol, text):
        s = self.at(node)
        return s is not None and (pol, text) in s


def expr_facts(expr, target, base=frozenset(), textfn=None):
    """Facts established by short-circuit evaluation *inside* expression
    `expr` at sub-expression `target` (BoolOp / IfExp / comprehension ifs).
    Returns the set of (pol, text) or None if target is not inside expr."""
    textfn = textfn or norm.canon

    def rec(e, facts):
        if e is target:
            return facts
        if isinstance(e, ast.BoolOp):
            cur = set(facts)
            for v in e.values:
                r = rec(v, frozenset(cur))
                if r is not None:
                    return r
                pol = "T" if isinstance(e.op, ast.And) else "F"
                for (p, x) in atoms(v, pol):
                    cur.add((p, textfn(x)))
            return None
        if isinstance(e, ast.IfExp):
            r = rec(e.test, facts)
            if r is not None:
                return r
            r = rec(e.body, frozenset(set(facts) | {(p, textfn(x)) for p, x in atoms(e.test, "T")}))
            if r is not None:
                return r
            return rec(e.orelse, frozenset(set(facts) | {(p, textfn(x)) for p, x in atoms(e.test, "F")}))
        if isinstance(e, (ast.GeneratorExp, ast.ListComp, ast.SetComp, ast.DictComp)):
            cur = set(facts)
            for gen in e.generators:
                r = rec(gen.iter, frozenset(cur))
                if r is not None:
                    return r
                for c in gen.ifs:
                    r = rec(c, frozenset(cur))
                    if r is not None:
                        return r
                    for (p, x) in atoms(c, "T"):
                        cur.add((p, textfn(x)))
            elts = [e.key, e.value] if isinstance(e, ast.DictComp) else [e.elt]
            for x in elts:
                r = rec(x, frozenset(cur))
                if r is not None:
                    return r
            return None
        for ch in ast.iter_child_nodes(e):
            if isinstance(ch, (ast.Lambda, ast.FunctionDef)):
                continue
            r = rec(ch, facts)
            if r is not None:
                return r
        return None

    return rec(expr, frozenset(base))


_FLIP = {"T": "F", "F": "T"}


def positive(pol, expr):
    """Canonical polarity of a comparison fact: only `is`, `==`, `in` and strict `<` are kept as operators;
    `is not`, `!=`, `not in`, `<=`, `>=` become the negation of the positive form, `>` swaps its operands.
    So `if x is not None:` (true branch) and `if x is None: ... else:` (false branch) establish the same fact."""
    if isinstance(expr, ast.Compare) and len(expr.ops) == 1:
        op = expr.ops[0]
        l, r = expr.left, expr.comparators[0]
        new = None
        if isinstance(op, ast.IsNot):
            new, pol = ast.Compare(left=l, ops=[ast.Is()], comparators=[r]), _FLIP[pol]
        elif isinstance(op, ast.NotEq):
            new, pol = ast.Compare(left=l, ops=[ast.Eq()], comparators=[r]), _FLIP[pol]
        elif isinstance(op, ast.NotIn):
            new, pol = ast.Compare(left=l, ops=[ast.In()], comparators=[r]), _FLIP[pol]
        elif isinstance(op, ast.LtE):
            new, pol = ast.Compare(left=r, ops=[ast.Lt()], comparators=[l]), _FLIP[pol]
        elif isinstance(op, ast.GtE):
            new, pol = ast.Compare(left=l, ops=[ast.Lt()], comparators=[r]), _FLIP[pol]
        elif isinstance(op, ast.Gt):
            new = ast.Compare(left=r, ops=[ast.Lt()], comparators=[l])
        if new is not None:
            return pol, ast.copy_location(new, expr)
    return pol, expr


def atoms(test, pol):
    """Decompose a test known to be `pol` into atomic (pol, expr) facts."""
    if isinstance(test, ast.UnaryOp) and isinstance(test.op, ast.Not):
        return atoms(test.operand, "F" if pol == "T" else "T")
    if isinstance(test, ast.BoolOp):
        if (isinstance(test.op, ast.And) and pol == "T") or (isinstance(test.op, ast.Or) and pol == "F"):
            out = []
            for v in test.values:
                out.extend(atoms(v, pol))
            return out
        return [positive(pol, test)]
    return [positive(pol, test)]
