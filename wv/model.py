"""E1 -- program model of /repo/src/whoosh built from the syntax trees only.

Modules, import resolution (absolute, relative, aliases, star re-exports),
classes (nested ones included) with resolved bases and C3 MRO, method lookup,
module-level alias chains and constant folding of literal string expressions.
"""

import ast
import os
import sys


class AnalysisError(Exception):
    """The analysis cannot give a verdict (vanished anchor, parse error, ...).

    Always reported as ANALYSIS-ERROR / exit 2, never as a pass or violation.
    """


SRC_ROOT_DEFAULT = "/repo/src"
PKG = "whoosh"


class FuncInfo(object):
    __slots__ = ("name", "qualname", "module", "cls", "node", "decorators")

    def __init__(self, name, qualname, module, cls, node):
        self.name = name
        self.qualname = qualname
        self.module = module
        self.cls = cls
        self.node = node
        self.decorators = []
        for d in node.decorator_list:
            if isinstance(d, ast.Name):
                self.decorators.append(d.id)
            elif isinstance(d, ast.Attribute):
                self.decorators.append(d.attr)
            elif isinstance(d, ast.Call) and isinstance(d.func, ast.Name):
                self.decorators.append(d.func.id)

    @property
    def params(self):
        a = self.node.args
        return [x.arg for x in getattr(a, "posonlyargs", [])] + [x.arg for x in a.args]

    @property
    def loc(self):
        return "%s:%d" % (self.module.relpath, self.node.lineno)

    @property
    def short(self):
        """module-relative qualified name, e.g. matching.binary.UnionMatcher.next"""
        q = self.qualname
        return q[len(PKG) + 1:] if q.startswith(PKG + ".") else q

    def __repr__(self):
        return "<Func %s>" % self.qualname


class ClassInfo(object):
    def __init__(self, name, qualname, module, node, outer):
        self.name = name
        self.qualname = qualname
        self.module = module
        self.node = node
        self.outer = outer  # enclosing ClassInfo or None
        self.methods = {}  # name -> FuncInfo
        self.attrs = {}  # class-level simple assignments name -> value node
        self.nested = {}  # name -> ClassInfo
        self.base_exprs = list(node.bases)
        self.bases = []  # resolved ClassInfo or str (external dotted name)
        self._mro = None

    @property
    def short(self):
        q = self.qualname
        return q[len(PKG) + 1:] if q.startswith(PKG + ".") else q

    @property
    def loc(self):
        return "%s:%d" % (self.module.relpath, self.node.lineno)

    def __repr__(self):
        return "<Class %s>" % self.qualname


class Module(object):
    def __init__(self, name, path, relpath, source, is_pkg):
        self.name = name
        self.path = path
        self.relpath = relpath
        self.source = source
        self.is_pkg = is_pkg
        self.tree = ast.parse(source, filename=path)
        self.refactor_info = {}
        if not os.environ.get("WV_NO_INLINE"):
            from . import inline
            # helpers are dropped, and the normal forms applied, by Program._load once every module is parsed (a new helper may
            # be called from a subclass in another module)
            self.tree, self.refactor_info = inline.apply(name, self.tree, drop=False)
        self.lines = source.splitlines()
        self.imports = {}  # local name -> ("module", dotted) | ("symbol", dotted_module, name)
        self.star_imports = []  # dotted module names
        self.classes = {}  # top-level name -> ClassInfo
        self.functions = {}  # top-level name -> FuncInfo
        self.assigns = {}  # top-level name -> value node (last assignment wins)

    def segment(self, node):
        return ast.get_source_segment(self.source, node)

    def __repr__(self):
        return "<Module %s>" % self.name


def _top_level_statements(body):
    """Yield statements of a module/class body, descending into if/try blocks
    (conditional definitions such as the py2/py3 split in compat.py)."""
    for st in body:
        if isinstance(st, ast.If):
            for x in _top_level_statements(st.body):
                yield x
            for x in _top_level_statements(st.orelse):
                yield x
        elif isinstance(st, ast.Try):
            for x in _top_level_statements(st.body):
                yield x
            for h in st.handlers:
                for x in _top_level_statements(h.body):
                    yield x
            for x in _top_level_statements(st.orelse):
                yield x
            for x in _top_level_statements(st.finalbody):
                yield x
        else:
            yield st


class Program(object):
    def __init__(self, src_root=None, overlay=None):
        """overlay: {relpath (relative to src_root): source text} replaces the
        on-disk text of those files (used by the sensitivity self-test)."""
        self.src_root = src_root or os.environ.get("WV_SRC_ROOT") or SRC_ROOT_DEFAULT
        self.overlay = overlay or {}
        self.modules = {}
        self.classes = {}  # qualname -> ClassInfo
        self.functions = {}  # qualname -> FuncInfo (module functions and methods)
        self._subclasses = None
        self._by_method_name = None
        self.parse_errors = []
        self._load()
        self._resolve_bases()
        if not os.environ.get("WV_NO_SUPERNORM"):
            self._explicit_base_calls()
        if not os.environ.get("WV_NO_KWNORM"):
            self._positional_normal_form()

    def _explicit_base_calls(self):
        """Whole-program normal form N22: inside a method of class K, `super().m(a)` / `super(K, self).m(a)` is written as the explicit
        call `B.m(self, a)`, B being the first class after K in K's own MRO that defines m -- provided the name B means that class in
        the method's module (else the call is left alone).  Rules then read one spelling of "call the base implementation"."""
        from . import norm
        for f in list(self.functions.values()):
            if f.cls is None or not f.params or f.params[0] != "self" or "staticmethod" in f.decorators or "classmethod" in f.decorators:
                continue
            changed = False
            for c in norm.calls_in(f.node, include_nested_defs=False):
                fn = c.func
                if not (isinstance(fn, ast.Attribute) and isinstance(fn.value, ast.Call) and isinstance(fn.value.func, ast.Name)
                        and fn.value.func.id == "super" and not fn.value.keywords):
                    continue
                sa = fn.value.args
                if not (len(sa) == 0 or (len(sa) == 2 and isinstance(sa[0], ast.Name) and sa[0].id == f.cls.name
                                         and isinstance(sa[1], ast.Name) and sa[1].id == "self")):
                    continue
                target = None
                for k in self.mro(f.cls)[1:]:
                    if isinstance(k, str):
                        break
                    if fn.attr in k.methods:
                        target = k
                        break
                if target is None:
                    continue
                try:
                    r = self.resolve_in_func(f, ast.Name(id=target.name, ctx=ast.Load()))
                except Exception:
                    r = None
                if r is None or r[0] != "class" or r[1] is not target:
                    continue
                c.func = ast.copy_location(ast.Attribute(value=ast.copy_location(ast.Name(id=target.name, ctx=ast.Load()), fn), attr=fn.attr,
                                                         ctx=ast.Load()), fn)
                c.args.insert(0, ast.copy_location(ast.Name(id="self", ctx=ast.Load()), fn))
                changed = True
            if changed and hasattr(norm, "invalidate"):
                norm.invalidate(f.node)

    def _positional_normal_form(self):
        """Whole-program normal form N17: in a call that resolves to exactly one project function, keyword arguments that name the
        next parameters in order are moved into the positional list (`f(x=a, y=b)` == `f(a, b)`), so that rules can read
        `call.args[i]` whichever spelling the code uses.  Only the analyser's tree is changed; unresolved calls, **kwargs, and
        keywords that skip a parameter stay as they are."""
        from .calls import Calls
        from . import norm
        calls = Calls(self)
        self._calls = calls
        for f in list(self.functions.values()):
            for c in norm.calls_in(f.node):
                if not c.keywords or any(k.arg is None for k in c.keywords) or any(isinstance(a, ast.Starred) for a in c.args):
                    continue
                try:
                    r = calls.resolve(f, c)
                except Exception:
                    continue
                if r.kind not in ("exact", "cha", "typed") or not r.targets:
                    continue

                def plist(t):
                    a = t.node.args
                    if getattr(a, "posonlyargs", None):
                        return None
                    ps = [x.arg for x in a.args]
                    unbound = isinstance(c.func, ast.Attribute) and c.args and isinstance(c.args[0], ast.Name) and c.args[0].id == "self" \
                        and "classmethod" not in t.decorators and norm.canon(c.func.value) != "self" and not isinstance(c.func.value, ast.Call) \
                        and t.cls is not None
                    if t.cls is not None and "staticmethod" not in t.decorators and ps and ps[0] in ("self", "cls") and not unbound:
                        ps = ps[1:]
                    return ps
                plists = [plist(t) for t in r.targets]
                if any(p is None for p in plists):
                    continue
                # a method with overrides: every implementation the call may reach must name the parameters alike, in the same order
                params = plists[0]
                if any(p != params for p in plists[1:]):
                    n_ = min(len(p) for p in plists)
                    k_ = 0
                    while k_ < n_ and all(p[k_] == params[k_] for p in plists):
                        k_ += 1
                    params = params[:k_]
                i = len(c.args)
                kws = dict((k.arg, k) for k in c.keywords)
                moved = False
                while i < len(params) and params[i] in kws:
                    k = kws.pop(params[i])
                    c.args.append(k.value)
                    c.keywords.remove(k)
                    i += 1
                    moved = True
                if moved:
                    norm.invalidate(f.node) if hasattr(norm, "invalidate") else None

    # ------------------------------------------------------------------ load
    def _load(self):
        pkgdir = os.path.join(self.src_root, PKG)
        if not os.path.isdir(pkgdir):
            raise AnalysisError("source root %s has no %s package" % (self.src_root, PKG))
        for dirpath, dirnames, filenames in os.walk(pkgdir):
            dirnames.sort()
            for fn in sorted(filenames):
                if not fn.endswith(".py"):
                    continue
                path = os.path.join(dirpath, fn)
                rel = os.path.relpath(path, self.src_root)
                parts = rel[:-3].split(os.sep)
                is_pkg = parts[-1] == "__init__"
                if is_pkg:
                    parts = parts[:-1]
                name = ".".join(parts)
                if rel in self.overlay:
                    source = self.overlay[rel]
                else:
                    with open(path, "rb") as f:
                        source = f.read().decode("utf-8", "replace")
                try:
                    m = Module(name, path, "src/" + rel, source, is_pkg)
                except SyntaxError as e:
                    raise AnalysisError("cannot parse %s: %s" % (rel, e))
                self.modules[name] = m
        if not os.environ.get("WV_NO_INLINE"):
            from . import inline
            trees = dict((n_, m_.tree) for n_, m_ in self.modules.items())
            rens = dict((n_, m_.refactor_info["renamed_back"]) for n_, m_ in self.modules.items()
                        if m_.refactor_info.get("renamed_back"))
            if rens:
                inline.apply_renames_across(trees, rens)
            across = inline.inline_across_modules(trees)
            for n_, callers in across.items():
                self.modules[n_].refactor_info.setdefault("inlined_into", []).extend(callers)
            refs = {}
            for n_, m_ in self.modules.items():
                for x in ast.walk(m_.tree):
                    if isinstance(x, ast.Attribute):
                        refs.setdefault(x.attr, set()).add(n_)
                    elif isinstance(x, ast.Name):
                        refs.setdefault(x.id, set()).add(n_)
                    elif isinstance(x, ast.alias):
                        refs.setdefault(x.name, set()).add(n_)
            for n_, m_ in self.modules.items():
                if m_.refactor_info.get("inlined_into"):
                    ext = set(k for k, v in refs.items() if v - {n_})
                    dropped = inline.finish(n_, m_.tree, ext)
                    if dropped:
                        m_.refactor_info["dropped_helpers"] = dropped
        if not os.environ.get("WV_NO_DESUGAR"):
            from .desugar import desugar
            for m_ in self.modules.values():
                m_.tree = desugar(m_.tree)
        for m in self.modules.values():
            self._index_module(m)

    def _index_module(self, m):
        for st in _top_level_statements(m.tree.body):
            if isinstance(st, ast.Import):
                for a in st.names:
                    if a.asname:
                        m.imports[a.asname] = ("module", a.name)
                    else:
                        top = a.name.split(".")[0]
                        m.imports[top] = ("module", top)
            elif isinstance(st, ast.ImportFrom):
                base = self._abs_module(m, st.module, st.level)
                for a in st.names:
                    if a.name == "*":
                        m.star_imports.append(base)
                    else:
                        m.imports[a.asname or a.name] = ("symbol", base, a.name)
            elif isinstance(st, (ast.FunctionDef, ast.AsyncFunctionDef)):
                f = FuncInfo(st.name, m.name + "." + st.name, m, None, st)
                m.functions[st.name] = f
                self.functions[f.qualname] = f
            elif isinstance(st, ast.ClassDef):
                self._index_class(m, st, None)
            elif isinstance(st, ast.Assign):
                for t in st.targets:
                    if isinstance(t, ast.Name):
                        m.assigns[t.id] = st.value
                    elif isinstance(t, ast.Tuple) and isinstance(st.value, ast.Tuple) \
                            and len(t.elts) == len(st.value.elts):
                        for tt, vv in zip(t.elts, st.value.elts):
                            if isinstance(tt, ast.Name):
                                m.assigns[tt.id] = vv

    def _index_class(self, m, node, outer):
        qual = (outer.qualname if outer else m.name) + "." + node.name
        c = ClassInfo(node.name, qual, m, node, outer)
        self.classes[qual] = c
        if outer is None:
            m.classes[node.name] = c
        else:
            outer.nested[node.name] = c
        for st in _top_level_statements(node.body):
            if isinstance(st, (ast.FunctionDef, ast.AsyncFunctionDef)):
                f = FuncInfo(st.name, qual + "." + st.name, m, c, st)
                c.methods[st.name] = f
                self.functions[f.qualname] = f
            elif isinstance(st, ast.ClassDef):
                self._index_class(m, st, c)
            elif isinstance(st, ast.Assign):
                for t in st.targets:
                    if isinstance(t, ast.Name):
                        c.attrs[t.id] = st.value
        return c

    def _abs_module(self, m, modname, level):
        if level == 0:
            return modname
        parts = m.name.split(".")
        if not m.is_pkg:
            parts = parts[:-1]
        if level > 1:
            parts = parts[:len(parts) - (level - 1)]
        if modname:
            parts = parts + modname.split(".")
        return ".".join(parts)

    # ------------------------------------------------------- name resolution
    def module_export(self, modname, name, _seen=None):
        """Resolve `name` as exported by module `modname`.

        Returns ("class", ClassInfo) | ("func", FuncInfo) | ("module", Module)
        | ("value", Module, node) | ("external", dotted) | None.
        """
        _seen = _seen or set()
        key = (modname, name)
        if key in _seen:
            return None
        _seen.add(key)
        m = self.modules.get(modname)
        if m is None:
            return ("external", modname + "." + name)
        if name in m.classes:
            return ("class", m.classes[name])
        if name in m.functions:
            return ("func", m.functions[name])
        if name in m.assigns:
            # follow alias chains to classes/functions (FileLock = FcntlLock)
            v = m.assigns[name]
            if isinstance(v, (ast.Name, ast.Attribute)):
                r = self.resolve_expr(m, v, _seen=_seen)
                if r is not None and r[0] in ("class", "func", "module"):
                    return r
            return ("value", m, v)
        if name in m.imports:
            imp = m.imports[name]
            if imp[0] == "module":
                tgt = self.modules.get(imp[1])
                return ("module", tgt) if tgt is not None else ("external", imp[1])
            sub = imp[1] + "." + imp[2]
            if sub in self.modules:
                return ("module", self.modules[sub])
            return self.module_export(imp[1], imp[2], _seen)
        sub = modname + "." + name
        if sub in self.modules:
            return ("module", self.modules[sub])
        for star in m.star_imports:
            r = self.module_export(star, name, _seen)
            if r is not None and r[0] != "external":
                return r
        return None

    def resolve_name(self, module, name, cls=None):
        """Resolve a bare name used in `module` (optionally inside class
        `cls`, whose nested classes are visible to it)."""
        c = cls
        while c is not None:
            if name in c.nested:
                return ("class", c.nested[name])
            c = c.outer
        return self.module_export(module.name, name)

    def resolve_expr(self, module, expr, cls=None, _seen=None):
        """Resolve a Name / dotted Attribute expression to a program symbol."""
        if isinstance(expr, ast.Name):
            if _seen is not None:
                return self.module_export(module.name, expr.id, _seen)
            return self.resolve_name(module, expr.id, cls)
        if isinstance(expr, ast.Attribute):
            base = self.resolve_expr(module, expr.value, cls, _seen)
            if base is None:
                return None
            if base[0] == "module":
                return self.module_export(base[1].name, expr.attr)
            if base[0] == "class":
                c = base[1]
                if expr.attr in c.nested:
                    return ("class", c.nested[expr.attr])
                f = self.lookup(c, expr.attr)
                if f is not None:
                    return ("func", f)
                for k in self.mro(c):
                    if not isinstance(k, str) and expr.attr in k.attrs:
                        return ("value", k.module, k.attrs[expr.attr])
                return None
            if base[0] == "external":
                return ("external", base[1] + "." + expr.attr)
        return None

    def local_imports(self, func):
        """Imports executed inside a function body: name -> import record."""
        cache = self.__dict__.setdefault("_local_imports", {})
        r = cache.get(func.qualname)
        if r is None:
            r = {}
            for st in ast.walk(func.node):
                if isinstance(st, ast.Import):
                    for a in st.names:
                        if a.asname:
                            r[a.asname] = ("module", a.name)
                        else:
                            r[a.name.split(".")[0]] = ("module", a.name.split(".")[0])
                elif isinstance(st, ast.ImportFrom):
                    base = self._abs_module(func.module, st.module, st.level)
                    for a in st.names:
                        if a.name != "*":
                            r[a.asname or a.name] = ("symbol", base, a.name)
            cache[func.qualname] = r
        return r

    def resolve_in_func(self, func, expr):
        """resolve_expr with the function's local imports taken into account."""
        root = expr
        while isinstance(root, ast.Attribute):
            root = root.value
        if isinstance(root, ast.Name):
            li = self.local_imports(func)
            if root.id in li:
                imp = li[root.id]
                if imp[0] == "module":
                    tgt = self.modules.get(imp[1])
                    base = ("module", tgt) if tgt is not None else ("external", imp[1])
                else:
                    sub = imp[1] + "." + imp[2]
                    if sub in self.modules:
                        base = ("module", self.modules[sub])
                    else:
                        base = self.module_export(imp[1], imp[2])
                # walk the attribute chain from the resolved root
                chain = []
                e = expr
                while isinstance(e, ast.Attribute):
                    chain.append(e.attr)
                    e = e.value
                chain.reverse()
                cur = base
                for attr in chain:
                    if cur is None:
                        return None
                    if cur[0] == "module":
                        cur = self.module_export(cur[1].name, attr)
                    elif cur[0] == "class":
                        c = cur[1]
                        if attr in c.nested:
                            cur = ("class", c.nested[attr])
                        else:
                            f = self.lookup(c, attr)
                            cur = ("func", f) if f is not None else None
                    elif cur[0] == "external":
                        cur = ("external", cur[1] + "." + attr)
                    else:
                        return None
                return cur
        return self.resolve_expr(func.module, expr, func.cls)

    # --------------------------------------------------------------- classes
    def _resolve_bases(self):
        for c in self.classes.values():
            out = []
            for b in c.base_exprs:
                r = self.resolve_expr(c.module, b, c.outer)
                if r is not None and r[0] == "class":
                    out.append(r[1])
                else:
                    try:
                        out.append(ast.unparse(b))
                    except Exception:
                        out.append("?")
            c.bases = out

    def mro(self, c):
        if c._mro is not None:
            return c._mro
        c._mro = [c]  # recursion guard
        seqs = []
        for b in c.bases:
            if isinstance(b, str):
                seqs.append([b])
            else:
                seqs.append(list(self.mro(b)))
        seqs.append(list(c.bases))
        res = [c]
        seqs = [s for s in seqs if s]
        while seqs:
            cand = None
            for s in seqs:
                h = s[0]
                if not any(h in t[1:] for t in seqs):
                    cand = h
                    break
            if cand is None:
                # inconsistent: fall back to plain depth-first order
                for s in seqs:
                    for x in s:
                        if x not in res:
                            res.append(x)
                break
            res.append(cand)
            seqs = [[x for x in s if x is not cand and x != cand] for s in seqs]
            seqs = [s for s in seqs if s]
        c._mro = res
        return res

    def lookup(self, c, name):
        """Method `name` as seen from class `c` (MRO order) or None."""
        for k in self.mro(c):
            if isinstance(k, str):
                continue
            if name in k.methods:
                return k.methods[name]
        return None

    def lookup_attr(self, c, name):
        """Class-level attribute value node `name` via MRO, or None."""
        for k in self.mro(c):
            if isinstance(k, str):
                continue
            if name in k.attrs:
                return k.attrs[name]
        return None

    def is_subclass(self, c, base):
        return base in self.mro(c)

    def subclasses(self, base, strict=False):
        """All classes whose MRO contains `base` (including itself unless strict)."""
        out = []
        for c in self.classes.values():
            if base in self.mro(c) and not (strict and c is base):
                out.append(c)
        out.sort(key=lambda k: k.qualname)
        return out

    def methods_named(self, name):
        if self._by_method_name is None:
            d = {}
            for f in self.functions.values():
                d.setdefault(f.name, []).append(f)
            self._by_method_name = d
        return self._by_method_name.get(name, [])

    # --------------------------------------------------------------- anchors
    def cls(self, dotted):
        """Class by module-relative dotted name, e.g. 'matching.binary.UnionMatcher'."""
        q = PKG + "." + dotted
        c = self.classes.get(q)
        if c is None:
            raise AnalysisError("anchor class %s not found" % dotted)
        return c

    def func(self, dotted):
        """Function or method by module-relative dotted name."""
        q = PKG + "." + dotted
        f = self.functions.get(q)
        if f is None:
            raise AnalysisError("anchor function %s not found" % dotted)
        return f

    def method(self, cls_dotted, name, inherited=True):
        c = self.cls(cls_dotted)
        f = self.lookup(c, name) if inherited else c.methods.get(name)
        if f is None:
            raise AnalysisError("anchor method %s.%s not found" % (cls_dotted, name))
        return f

    def has_func(self, dotted):
        return (PKG + "." + dotted) in self.functions

    def has_cls(self, dotted):
        return (PKG + "." + dotted) in self.classes

    def module(self, dotted):
        m = self.modules.get(PKG + "." + dotted if dotted else PKG)
        if m is None:
            raise AnalysisError("anchor module %s not found" % dotted)
        return m

    # ------------------------------------------------------ constant folding
    def fold_str(self, module, expr, cls=None, depth=0):
        """Fold an expression to a python str/bytes/int constant if it is built
        from literals, module/class constants, `+`, `%` and `*`; else None."""
        if depth > 8:
            return None
        if isinstance(expr, ast.Constant):
            return expr.value
        if isinstance(expr, ast.Name):
            r = self.resolve_name(module, expr.id, cls)
            if r is not None and r[0] == "value":
                return self.fold_str(r[1], r[2], None, depth + 1)
            return None
        if isinstance(expr, ast.Attribute):
            r = self.resolve_expr(module, expr, cls)
            if r is not None and r[0] == "value":
                return self.fold_str(r[1], r[2], None, depth + 1)
            return None
        if isinstance(expr, ast.BinOp):
            l = self.fold_str(module, expr.left, cls, depth + 1)
            r = self.fold_str(module, expr.right, cls, depth + 1)
            if l is None or r is None:
                return None
            try:
                if isinstance(expr.op, ast.Add):
                    return l + r
                if isinstance(expr.op, ast.Mod):
                    return l % r
                if isinstance(expr.op, ast.Mult):
                    return l * r
                if isinstance(expr.op, ast.Sub):
                    return l - r
                if isinstance(expr.op, ast.LShift):
                    return l << r
                if isinstance(expr.op, ast.Pow):
                    return l ** r
            except Exception:
                return None
        if isinstance(expr, ast.Tuple):
            vals = [self.fold_str(module, e, cls, depth + 1) for e in expr.elts]
            if any(v is None for v in vals):
                return None
            return tuple(vals)
        if isinstance(expr, ast.Call) and isinstance(expr.func, (ast.Name, ast.Attribute)) and \
                (expr.func.id if isinstance(expr.func, ast.Name) else expr.func.attr) == "calcsize" \
                and len(expr.args) == 1:
            v = self.fold_str(module, expr.args[0], cls, depth + 1)
            if isinstance(v, str):
                import struct
                try:
                    return struct.calcsize(v)
                except Exception:
                    return None
        if isinstance(expr, ast.Call):
            # emptybytes / b("..") / u("..") helpers from whoosh.compat
            if isinstance(expr.func, ast.Name) and expr.func.id in ("b", "u") \
                    and len(expr.args) == 1 and not expr.keywords:
                v = self.fold_str(module, expr.args[0], cls, depth + 1)
                if isinstance(v, str) and expr.func.id == "b":
                    return v.encode("latin-1")
                return v
        return None

    # ---------------------------------------------------------------- stats
    def stats(self):
        return {"modules": len(self.modules), "classes": len(self.classes),
                "functions": len(self.functions),
                "lines": sum(len(m.lines) for m in self.modules.values())}


def self_attr_assignments(prog, cls, inherited=True):
    """attr -> [(FuncInfo, value node, stmt)] for every `self.attr = value`
    (plain, tuple-unpacked or augmented) in the methods visible from `cls`."""
    out = {}
    seen = set()
    klasses = prog.mro(cls) if inherited else [cls]
    for k in klasses:
        if isinstance(k, str):
            continue
        for name, f in k.methods.items():
            if name in seen:
                continue
            seen.add(name)
            for st in ast.walk(f.node):
                targets = []
                if isinstance(st, ast.Assign):
                    for t in st.targets:
                        if isinstance(t, ast.Tuple):
                            if isinstance(st.value, ast.Tuple) and len(st.value.elts) == len(t.elts):
                                targets.extend(zip(t.elts, st.value.elts))
                            else:
                                targets.extend((e, st.value) for e in t.elts)
                        else:
                            targets.append((t, st.value))
                elif isinstance(st, ast.AugAssign):
                    targets.append((st.target, st.value))
                for t, v in targets:
                    if isinstance(t, ast.Attribute) and isinstance(t.value, ast.Name) \
                            and t.value.id == "self":
                        out.setdefault(t.attr, []).append((f, v, st))
    return out
