"""Load-time "virtual refactoring undo", so that rules written against the
reference layout of whoosh keep seeing the same program after the two
commonest structural refactorings:

  * a private helper was RENAMED (`_first_b` -> `_sync_optional`): if a class
    (or module) lost exactly the private names it gained -- judged against the
    frozen inventory of function names of the reference tree,
    wv/inventory.json -- and the bodies are similar, the new name is renamed
    back everywhere in that module;

  * a block was EXTRACTED into a new private helper (a function whose qualified
    name is not in the inventory): its body is inlined at every call site in the
    same class / module (`self._h(a)`, `cls._h(a)`, `Class._h(a)`, `_h(a)`),
    parameters substituted, its locals renamed apart.  The helper's definition
    stays in place (harmless), the callers are analysed as if the block had
    never moved.  Helpers that are generators, recurse, or return from inside a
    loop are left alone.

Nothing here weakens a rule: what is inlined is additional code the rules then
see.  Without the inventory file nothing happens.
"""

import ast
import copy
import difflib
import json
import os

HERE = os.path.dirname(os.path.abspath(__file__))
INVENTORY_FILE = os.path.join(HERE, "inventory.json")
_inv = None


def inventory():
    global _inv
    if _inv is None:
        try:
            with open(INVENTORY_FILE) as f:
                _inv = set(json.load(f))
        except (OSError, ValueError):
            _inv = set()
    return _inv


def _is_private(name):
    return name.startswith("_") and not (name.startswith("__") and name.endswith("__"))


SHAPES_FILE = os.path.join(os.path.dirname(os.path.abspath(__file__)), "inventory_shapes.json")
_shapes = None


def shapes():
    """qualname -> shape digest of the private functions of the reference tree (see function_shape)"""
    global _shapes
    if _shapes is None:
        try:
            with open(SHAPES_FILE) as f:
                _shapes = json.load(f)
        except (OSError, ValueError):
            _shapes = {}
    return _shapes


def function_shape(fn):
    """A digest of a function that survives renaming: statement and expression structure with every identifier (names,
    parameters, attribute names, the function's own name) replaced by the order of its first occurrence; docstrings dropped."""
    import hashlib
    order = {}

    def nm(x):
        return order.setdefault(x, len(order))
    parts = []

    def rec(n):
        if isinstance(n, ast.Name):
            parts.append("N%d" % nm(n.id))
        elif isinstance(n, ast.arg):
            parts.append("A%d" % nm(n.arg))
        elif isinstance(n, ast.Attribute):
            rec(n.value)
            parts.append(".%d" % nm("." + n.attr))
        elif isinstance(n, ast.Constant):
            parts.append("C%r" % (n.value,))
        elif isinstance(n, ast.AST):
            parts.append(type(n).__name__)
            parts.append("(")
            for field, v in ast.iter_fields(n):
                if field in ("ctx", "lineno", "col_offset", "end_lineno", "end_col_offset", "type_comment", "name", "decorator_list",
                             "returns"):
                    continue
                if isinstance(v, list):
                    vs = v
                    if field == "body" and vs and isinstance(vs[0], ast.Expr) and isinstance(getattr(vs[0], "value", None), ast.Constant) \
                            and isinstance(vs[0].value.value, str):
                        vs = vs[1:]
                    parts.append("[")
                    for x in vs:
                        rec(x)
                    parts.append("]")
                elif isinstance(v, ast.AST):
                    rec(v)
                elif v is not None and field not in ("id", "arg", "attr"):
                    parts.append(repr(v))
            parts.append(")")
    rec(fn)
    return hashlib.sha1(" ".join(parts).encode("utf-8")).hexdigest()[:16]


def _params(fn):
    a = fn.args
    return [x.arg for x in list(getattr(a, "posonlyargs", [])) + list(a.args)]


def _body_text(fn):
    body = fn.body
    if body and isinstance(body[0], ast.Expr) and isinstance(body[0].value, ast.Constant) and isinstance(body[0].value.value, str):
        body = body[1:]
    try:
        return "\n".join(ast.unparse(s) for s in body)
    except Exception:
        return ""


def _scopes(modname, tree):
    """yield (qual_prefix, container_node, [FunctionDef...]) for the module and every class (nested too)."""
    def rec(prefix, node):
        funcs = [s for s in _flat(node.body) if isinstance(s, (ast.FunctionDef, ast.AsyncFunctionDef))]
        yield prefix, node, funcs
        for s in _flat(node.body):
            if isinstance(s, ast.ClassDef):
                for x in rec(prefix + "." + s.name, s):
                    yield x
    for x in rec(modname, tree):
        yield x


def _flat(body):
    for st in body:
        if isinstance(st, (ast.If, ast.Try)):
            for x in _flat(st.body):
                yield x
            for x in _flat(getattr(st, "orelse", [])):
                yield x
            if isinstance(st, ast.Try):
                for h in st.handlers:
                    for x in _flat(h.body):
                        yield x
                for x in _flat(st.finalbody):
                    yield x
        else:
            yield st


class _RenameAttr(ast.NodeTransformer):
    def __init__(self, mapping):
        self.m = mapping

    def visit_Attribute(self, n):
        self.generic_visit(n)
        if n.attr in self.m:
            n.attr = self.m[n.attr]
        return n

    def visit_Name(self, n):
        if n.id in self.m:
            n.id = self.m[n.id]
        return n

    def visit_FunctionDef(self, n):
        if n.name in self.m:
            n.name = self.m[n.name]
        self.generic_visit(n)
        return n


def undo_renames(modname, tree, inv):
    all_last = set(q.rsplit(".", 1)[1] for q in inv)
    mapping = {}
    for prefix, node, funcs in _scopes(modname, tree):
        old = set(q[len(prefix) + 1:] for q in inv if q.startswith(prefix + ".") and "." not in q[len(prefix) + 1:])
        if not old:
            continue
        cur = {f.name: f for f in funcs}
        missing = [n for n in old - set(cur) if _is_private(n)]
        new = [n for n in set(cur) - old if _is_private(n) and n not in all_last]
        if not missing or not new:
            continue
        # the reference bodies are not available; pair by parameter list recorded in the inventory? Only names are
        # frozen, so pair when the counts agree and the call sites tell: every caller of the old name is gone.
        if len(missing) == 1 and len(new) == 1:
            mapping[new[0]] = missing[0]
        else:
            # several helpers renamed at once: pair a new name with the missing one whose body has the same shape modulo names
            sh = shapes()
            want = {}
            for o in missing:
                d = sh.get(prefix + "." + o)
                if d:
                    want.setdefault(d, []).append(o)
            got = {}
            for nname in new:
                got.setdefault(function_shape(cur[nname]), []).append(nname)
            for d, ns in got.items():
                if len(ns) == 1 and len(want.get(d, [])) == 1:
                    mapping[ns[0]] = want[d][0]
    if mapping:
        _RenameAttr(mapping).visit(tree)
    return mapping


def apply_renames_across(trees, mappings):
    """A private method renamed in its own module is still called under the new name from other modules: give those call sites
    the reference name too.  `mappings`: module -> {new: old} as found by undo_renames; a new name that some module still
    defines (or binds as an attribute) is left alone."""
    allmap = {}
    for m, mp in mappings.items():
        for new, old in mp.items():
            allmap.setdefault(new, set()).add(old)
    allmap = dict((new, list(olds)[0]) for new, olds in allmap.items() if len(olds) == 1)
    if not allmap:
        return {}
    defined = set()
    for t in trees.values():
        for x in ast.walk(t):
            if isinstance(x, (ast.FunctionDef, ast.AsyncFunctionDef, ast.ClassDef)):
                defined.add(x.name)
            elif isinstance(x, ast.Attribute) and isinstance(x.ctx, ast.Store):
                defined.add(x.attr)
    allmap = dict((n_, o_) for n_, o_ in allmap.items() if n_ not in defined)
    done = {}
    for m, t in trees.items():
        hit = False
        for x in ast.walk(t):
            if isinstance(x, ast.Attribute) and x.attr in allmap:
                x.attr = allmap[x.attr]
                hit = True
        if hit:
            done[m] = True
    return done


# ----------------------------------------------------------------------------- inlining

class _HasYield(ast.NodeVisitor):
    def __init__(self):
        self.found = False

    def visit_Yield(self, n):
        self.found = True

    visit_YieldFrom = visit_Yield

    def visit_FunctionDef(self, n):
        pass

    visit_Lambda = visit_FunctionDef


def _returns(fn):
    """(list of Return nodes not inside nested defs, any return inside a loop/try/with?)"""
    rets = []
    nested = [False]

    def rec(node, in_compound):
        for ch in ast.iter_child_nodes(node):
            if isinstance(ch, (ast.FunctionDef, ast.AsyncFunctionDef, ast.Lambda, ast.ClassDef)):
                continue
            if isinstance(ch, ast.Return):
                rets.append(ch)
                if in_compound:
                    nested[0] = True
            rec(ch, in_compound or isinstance(ch, (ast.For, ast.While, ast.Try, ast.With)))
    rec(fn, False)
    return rets, nested[0]


def _pure_arg(e):
    """no calls, no comprehension: evaluating it twice (or not at all) cannot be observed"""
    return not any(isinstance(x, (ast.Call, ast.ListComp, ast.GeneratorExp, ast.SetComp, ast.DictComp, ast.Yield, ast.Await, ast.NamedExpr))
                   for x in ast.walk(e))


def _simple_arg(e):
    while isinstance(e, ast.Attribute):
        e = e.value
    return isinstance(e, (ast.Name, ast.Constant))


class _Subst(ast.NodeTransformer):
    def __init__(self, names, exprs):
        self.names = names  # old local name -> new local name
        self.exprs = exprs  # param name -> expression

    def visit_Name(self, n):
        if n.id in self.exprs and isinstance(n.ctx, ast.Load):
            return copy.deepcopy(self.exprs[n.id])
        if n.id in self.names:
            n.id = self.names[n.id]
        return n

    def visit_ExceptHandler(self, n):
        if n.name and n.name in self.names:
            n.name = self.names[n.name]
        self.generic_visit(n)
        return n


def _stored_names(fn):
    out = set()
    for x in ast.walk(fn):
        if isinstance(x, ast.Name) and isinstance(x.ctx, (ast.Store, ast.Del)):
            out.add(x.id)
        elif isinstance(x, ast.ExceptHandler) and x.name:
            out.add(x.name)
    return out


def _all_names(fn):
    return set(x.id for x in ast.walk(fn) if isinstance(x, ast.Name)) | set(_params(fn))


def _destructure(body):
    """`if c: ...; return` guard clauses at the top level of a procedure become if/else (no early return left)."""
    for i, st in enumerate(body):
        if isinstance(st, ast.If) and not st.orelse and st.body and isinstance(st.body[-1], ast.Return) and st.body[-1].value is None \
                and not any(isinstance(x, ast.Return) for s2 in st.body[:-1] for x in ast.walk(s2)):
            rest = _destructure(body[i + 1:])
            if rest is None:
                return None
            if not rest:
                new_if = ast.copy_location(ast.If(test=st.test, body=st.body[:-1] or [ast.copy_location(ast.Pass(), st)], orelse=[]), st)
            else:
                new_if = ast.copy_location(ast.If(test=st.test, body=st.body[:-1] or [ast.copy_location(ast.Pass(), st)], orelse=rest), st)
            return list(body[:i]) + [new_if]
    return list(body)


def _tailify(body):
    """Rewrite a statement list so that every `return` is in tail position (last statement of the list, or last statement of
    a branch of an if/else that is itself the last statement).  `if c: ...; return X` followed by more statements becomes
    `if c: ...; return X  else: <the rest>`.  Returns None when a return sits inside a loop/try/with."""
    body = list(body)
    for i, st in enumerate(body):
        has_ret = any(isinstance(x, ast.Return) for x in ast.walk(st))
        if not has_ret:
            continue
        if isinstance(st, ast.Return):
            return body[:i + 1]  # anything after it is dead
        if isinstance(st, ast.If):
            rest = body[i + 1:]
            b = _tailify(st.body)
            o = _tailify(st.orelse) if st.orelse else []
            if b is None or o is None:
                return None
            b_term = bool(b) and _all_paths_return(b)
            o_term = bool(o) and _all_paths_return(o)
            if rest:
                r = _tailify(rest)
                if r is None:
                    return None
                if b_term and not o_term:
                    o = o + r
                elif o_term and not b_term:
                    b = b + r
                elif not b_term and not o_term:
                    # a return somewhere inside but not on every path: duplicate the rest into both branches
                    if any(isinstance(x, ast.Return) for s2 in b for x in ast.walk(s2)) or any(isinstance(x, ast.Return) for s2 in o for x in ast.walk(s2)):
                        return None
                    return body
                # both terminate: rest is dead
            new_if = ast.copy_location(ast.If(test=st.test, body=b or [ast.copy_location(ast.Pass(), st)], orelse=o), st)
            return body[:i] + [new_if]
        return None  # return inside a loop / try / with
    return body


def _all_paths_return(body):
    if not body:
        return False
    last = body[-1]
    if isinstance(last, ast.Return):
        return True
    if isinstance(last, ast.If) and last.orelse:
        return _all_paths_return(last.body) and _all_paths_return(last.orelse)
    return False


def _replace_tail_returns(body, make):
    """apply make(return_node) -> list of statements to every tail return"""
    if not body:
        return body
    last = body[-1]
    if isinstance(last, ast.Return):
        return body[:-1] + make(last)
    if isinstance(last, ast.If):
        last.body = _replace_tail_returns(last.body, make) or [ast.copy_location(ast.Pass(), last)]
        if last.orelse:
            last.orelse = _replace_tail_returns(last.orelse, make)
    return body


class Helper(object):
    def __init__(self, fn, kind, clsname):
        self.fn = fn
        self.kind = kind  # "method" | "static" | "class" | "func"
        self.clsname = clsname
        hy = _HasYield()
        for s in fn.body:
            hy.visit(s)
        self.rets, nested = _returns(fn)
        body = fn.body
        if body and isinstance(body[0], ast.Expr) and isinstance(body[0].value, ast.Constant) and isinstance(body[0].value.value, str):
            body = body[1:]
        body = _destructure([copy.deepcopy(x) for x in body])
        self.body = body
        def _own_returns(node):
            # the helper's own return statements (those of functions nested in it are theirs)
            for ch in ast.iter_child_nodes(node):
                if isinstance(ch, (ast.FunctionDef, ast.AsyncFunctionDef, ast.Lambda, ast.ClassDef)):
                    continue
                if isinstance(ch, ast.Return):
                    yield ch
                for x in _own_returns(ch):
                    yield x
        allrets = [x for s2 in body if not isinstance(s2, (ast.FunctionDef, ast.AsyncFunctionDef, ast.ClassDef))
                   for x in ([s2] if isinstance(s2, ast.Return) else []) + list(_own_returns(s2))]
        shape_ok = not allrets or (len(allrets) == 1 and body and allrets[0] is body[-1])
        self.tail = False
        if not shape_ok and body is not None:
            tb = _tailify([copy.deepcopy(x) for x in body])
            if tb is not None and _all_paths_return(tb):
                body = tb
                self.body = tb
                shape_ok = True
                self.tail = True
        self.ok = not hy.found and shape_ok and bool(body) and not fn.args.vararg and not fn.args.kwarg and not fn.args.kwonlyargs
        # recursion
        for c in ast.walk(fn):
            if isinstance(c, ast.Call) and ((isinstance(c.func, ast.Attribute) and c.func.attr == fn.name) or
                                           (isinstance(c.func, ast.Name) and c.func.id == fn.name)):
                self.ok = False
        self.expr_only = len(body) == 1 and isinstance(body[0], ast.Return) and body[0].value is not None
        self.expr_body = body[0].value if self.expr_only else None
        if not self.expr_only and self.ok and body and isinstance(body[-1], ast.Return) and body[-1].value is not None:
            # `a = self.x; b = self.y; return f(a, b)`: plain aliases of attribute paths folded into the result
            al = {}
            good = True
            for st in body[:-1]:
                if isinstance(st, ast.Assign) and len(st.targets) == 1 and isinstance(st.targets[0], ast.Name) and _simple_arg(st.value) \
                        and st.targets[0].id not in al:
                    al[st.targets[0].id] = st.value
                else:
                    good = False
            if good and al:
                stores = [x.id for x in ast.walk(fn) if isinstance(x, ast.Name) and isinstance(x.ctx, ast.Store)]
                if all(stores.count(k) == 1 for k in al):
                    self.expr_only = True
                    self.expr_body = _Subst({}, al).visit(copy.deepcopy(body[-1].value))
        if not self.expr_only and not hy.found and not fn.args.vararg and not fn.args.kwarg and not fn.args.kwonlyargs:
            # a predicate written with plain assignments and `if c: return e` guards is one conditional expression
            try:
                from .paths import func_as_expr
                e = func_as_expr(fn)
            except Exception:
                e = None
            if e is not None and not any(isinstance(x, ast.Return) and x.value is None for x in ast.walk(fn)):
                self.expr_only = True
                self.expr_body = e
                self.ok = True


def _bind(helper, call):
    """-> {param: arg expr} or None"""
    fn = helper.fn
    params = _params(fn)
    if helper.kind in ("method", "class"):
        params = params[1:]
    if any(isinstance(a, ast.Starred) for a in call.args) or any(k.arg is None for k in call.keywords):
        return None
    if len(call.args) > len(params):
        return None
    m = dict(zip(params, call.args))
    for k in call.keywords:
        if k.arg not in params or k.arg in m:
            return None
        m[k.arg] = k.value
    defaults = fn.args.defaults
    dparams = _params(fn)[len(_params(fn)) - len(defaults):] if defaults else []
    for p, d in zip(dparams, defaults):
        if p not in m and p in params:
            m[p] = d
    if set(m) != set(params):
        return None
    return m


_ALIASES = {}


def _is_call_to(call, helper, in_class):
    f = call.func
    name = helper.fn.name
    if isinstance(f, ast.Name) and _ALIASES.get(f.id) == name and helper.kind != "func":
        return in_class == helper.clsname
    if helper.kind == "func":
        return isinstance(f, ast.Name) and f.id == name
    if not (isinstance(f, ast.Attribute) and f.attr == name and isinstance(f.value, ast.Name)):
        return False
    r = f.value.id
    if helper.kind == "method":
        if r != "self" and getattr(helper, "unique", False) and helper.expr_only and in_class == helper.clsname:
            # `other._h()` inside the class that owns the new helper _h (no other class of the module has an _h): the same helper,
            # asked of another object of the class -- inlined with that object in the place of self
            return True
        return r == "self" and in_class == helper.clsname
    return r in ("self", "cls", helper.clsname) and (in_class == helper.clsname or r == helper.clsname)


def _instantiate(helper, call, caller, counter, keep=()):
    """-> (prelude statements, body statements with returns still in place, selfname) or None"""
    m = _bind(helper, call)
    if m is None:
        return None
    fn = helper.fn
    caller_names = _all_names(caller)
    stored = _stored_names(fn)
    names = {}
    exprs = {}
    prelude = []
    params = list(m)
    for p in params:
        arg = m[p]
        if p not in stored and _simple_arg(arg):
            exprs[p] = arg
        else:
            newp = p
            if p in caller_names:
                newp = "%s_%s%d" % (p, "h", counter)
            names[p] = newp
            prelude.append(ast.copy_location(ast.Assign(targets=[ast.Name(id=newp, ctx=ast.Store())], value=copy.deepcopy(arg)), call))
    for loc in stored - set(params):
        if loc in caller_names and loc not in keep:
            names[loc] = "%s_%s%d" % (loc, "h", counter)
    if helper.kind == "method" and isinstance(call.func, ast.Attribute) and isinstance(call.func.value, ast.Name) and call.func.value.id != "self":
        exprs["self"] = call.func.value
    if helper.kind == "class":
        first = _params(fn)[0]
        exprs[first] = ast.Name(id=helper.clsname, ctx=ast.Load()) if not (isinstance(call.func.value, ast.Name) and call.func.value.id in ("self", "cls")) \
            else (ast.Attribute(value=ast.Name(id="self", ctx=ast.Load()), attr="__class__", ctx=ast.Load()) if call.func.value.id == "self"
                  else ast.Name(id="cls", ctx=ast.Load()))
    body = [_Subst(names, exprs).visit(copy.deepcopy(s)) for s in helper.body]
    for s in prelude + body:
        ast.fix_missing_locations(s)
    return prelude, body


class _ExprInliner(ast.NodeTransformer):
    """replace calls to expression-only helpers inside expressions"""

    def __init__(self, helpers, in_class, caller, counter):
        self.helpers = helpers
        self.in_class = in_class
        self.caller = caller
        self.counter = counter
        self.changed = False

    def visit_FunctionDef(self, n):
        return n  # do not descend into nested defs

    visit_Lambda = visit_FunctionDef

    def visit_Call(self, n):
        self.generic_visit(n)
        for h in self.helpers:
            if h.ok and h.expr_only and _is_call_to(n, h, self.in_class):
                m = _bind(h, n)
                if m is None or not all(_pure_arg(a) for a in m.values()):
                    continue
                exprs = dict(m)
                if h.kind == "class":
                    continue
                if h.kind == "method" and isinstance(n.func, ast.Attribute) and isinstance(n.func.value, ast.Name) and n.func.value.id != "self":
                    exprs["self"] = n.func.value
                e = _Subst({}, exprs).visit(copy.deepcopy(h.expr_body))
                self.changed = True
                return ast.copy_location(e, n)
        return n


def _lift_nested_helper_calls(stmts, helpers, in_class, state):
    """`x = f(self._h(a))` where _h is a statement helper: the inner call gets its own statement first (`t = self._h(a); x = f(t)`),
    so that the statement-level inlining below applies to it"""
    out = []
    for st in stmts:
        v = getattr(st, "value", None)
        if isinstance(st, (ast.Assign, ast.Expr, ast.Return)) and isinstance(v, ast.Call):
            for i, a in enumerate(v.args):
                if isinstance(a, ast.Call) and any(h.ok and not h.expr_only and _is_call_to(a, h, in_class) for h in helpers) \
                        and not any(isinstance(x, ast.Call) for b in v.args[:i] for x in ast.walk(b)):
                    state["n"] += 1
                    tname = "_lifted%d" % state["n"]
                    pre = ast.copy_location(ast.Assign(targets=[ast.Name(id=tname, ctx=ast.Store())], value=a), st)
                    v.args[i] = ast.copy_location(ast.Name(id=tname, ctx=ast.Load()), a)
                    ast.fix_missing_locations(pre)
                    out.append(pre)
                    break
        out.append(st)
    return out


def _inline_block(stmts, helpers, in_class, caller, state):
    out = []
    stmts = _lift_nested_helper_calls(stmts, helpers, in_class, state)
    for st in stmts:
        # recurse into compound statements first
        for field in ("body", "orelse", "finalbody"):
            v = getattr(st, field, None)
            if isinstance(v, list) and v and isinstance(v[0], ast.stmt) and not isinstance(st, (ast.FunctionDef, ast.AsyncFunctionDef, ast.ClassDef)):
                setattr(st, field, _inline_block(v, helpers, in_class, caller, state))
        if isinstance(st, ast.Try):
            for h in st.handlers:
                h.body = _inline_block(h.body, helpers, in_class, caller, state)
        call = None
        mode = None
        if isinstance(st, ast.Expr) and isinstance(st.value, ast.Call):
            call, mode = st.value, "expr"
        elif isinstance(st, ast.Assign) and isinstance(st.value, ast.Call) and len(st.targets) == 1:
            call, mode = st.value, "assign"
        elif isinstance(st, ast.Return) and isinstance(st.value, ast.Call):
            call, mode = st.value, "return"
        done = False
        if call is not None:
            for h in helpers:
                if not h.ok or not _is_call_to(call, h, in_class):
                    continue
                state["n"] += 1
                # `a, b = self._h()` where the helper ends in `return a, b`: the helper's locals of the same names ARE the
                # caller's variables (no renaming apart, no copy)
                keep = ()
                hret = h.body[-1].value if h.body and isinstance(h.body[-1], ast.Return) else None
                if mode == "assign" and hret is not None:
                    tg = st.targets[0]
                    tn = [x.id for x in tg.elts] if isinstance(tg, ast.Tuple) and all(isinstance(x, ast.Name) for x in tg.elts) else \
                        ([tg.id] if isinstance(tg, ast.Name) else None)
                    rn = [x.id for x in hret.elts] if isinstance(hret, ast.Tuple) and all(isinstance(x, ast.Name) for x in hret.elts) else \
                        ([hret.id] if isinstance(hret, ast.Name) else None)
                    if tn is not None and tn == rn and not (set(tn) & set(_params(h.fn))):
                        used_before = set(x.id for prev in out for x in ast.walk(prev) if isinstance(x, ast.Name))
                        if not (set(tn) & used_before):
                            keep = tuple(tn)
                inst = _instantiate(h, call, caller, state["n"], keep)
                if inst is None:
                    continue
                prelude, body = inst
                if getattr(h, "tail", False):
                    if mode == "assign":
                        mk = lambda r, st=st: [ast.copy_location(ast.Assign(targets=copy.deepcopy(st.targets), value=r.value if r.value is not None else ast.Constant(value=None)), r)]
                    elif mode == "return":
                        mk = lambda r: [r]
                    else:
                        mk = lambda r: ([ast.copy_location(ast.Expr(value=r.value), r)] if r.value is not None and any(isinstance(x, ast.Call) for x in ast.walk(r.value)) else [])
                    body = _replace_tail_returns(body, mk)
                    for s in prelude + body:
                        ast.fix_missing_locations(s)
                    out.extend(prelude + body)
                    state["changed"] = True
                    done = True
                    break
                last = body[-1] if body else None
                val = None
                if isinstance(last, ast.Return):
                    body = body[:-1]
                    val = last.value
                if mode == "assign" and keep:
                    pass
                elif mode == "assign":
                    body.append(ast.copy_location(ast.Assign(targets=st.targets, value=val if val is not None else ast.Constant(value=None)), st))
                elif mode == "return":
                    body.append(ast.copy_location(ast.Return(value=val), st))
                elif val is not None and any(isinstance(x, ast.Call) for x in ast.walk(val)):
                    body.append(ast.copy_location(ast.Expr(value=val), st))
                if not body:
                    body = [ast.copy_location(ast.Pass(), st)]
                for s in prelude + body:
                    ast.fix_missing_locations(s)
                out.extend(prelude + body)
                state["changed"] = True
                done = True
                break
        if not done and not isinstance(st, (ast.FunctionDef, ast.AsyncFunctionDef, ast.ClassDef, ast.While)):
            # a helper call nested in the statement's own expression (for-iterable, if-test, argument ...):
            # hoist it -- the helper's body runs first, its result lands in a fresh temporary
            own = []
            for field, v in ast.iter_fields(st):
                if field in ("body", "orelse", "finalbody", "handlers", "targets", "target"):
                    continue
                if isinstance(v, ast.AST):
                    own.append(v)
                elif isinstance(v, list):
                    own.extend(x for x in v if isinstance(x, ast.AST) and not isinstance(x, ast.stmt))
            hoisted = []
            for root in own:
                for c in [x for x in ast.walk(root) if isinstance(x, ast.Call)]:
                    for h in helpers:
                        if not h.ok or h.expr_only or not _is_call_to(c, h, in_class):
                            continue
                        if not (h.body and isinstance(h.body[-1], ast.Return) and h.body[-1].value is not None):
                            continue
                        state["n"] += 1
                        inst = _instantiate(h, c, caller, state["n"])
                        if inst is None:
                            continue
                        prelude, body = inst
                        tmp = "_%s_result%d" % (h.fn.name.strip("_"), state["n"])
                        val = body[-1].value
                        body = body[:-1] + [ast.copy_location(ast.Assign(targets=[ast.Name(id=tmp, ctx=ast.Store())], value=val), st)]
                        for s2 in prelude + body:
                            ast.fix_missing_locations(s2)
                        hoisted.extend(prelude + body)
                        # replace the call node in place by the temporary
                        c.__class__ = ast.Name
                        c.__dict__.clear()
                        c.id = tmp
                        c.ctx = ast.Load()
                        ast.copy_location(c, st)
                        state["changed"] = True
                        break
            out.extend(hoisted)
        if not done:
            ei = _ExprInliner(helpers, in_class, caller, state["n"])
            st2 = st
            if not isinstance(st, (ast.FunctionDef, ast.AsyncFunctionDef, ast.ClassDef)):
                # only the statement's own expressions (nested blocks were handled above)
                for field, v in ast.iter_fields(st):
                    if field in ("body", "orelse", "finalbody", "handlers"):
                        continue
                    if isinstance(v, ast.AST):
                        setattr(st, field, ei.visit(v))
                    elif isinstance(v, list):
                        for i, x in enumerate(v):
                            if isinstance(x, ast.AST) and not isinstance(x, ast.stmt):
                                v[i] = ei.visit(x)
                if ei.changed:
                    state["changed"] = True
                    ast.fix_missing_locations(st)
            out.append(st2)
    return out


def _ends_with_return(body):
    return bool(body) and isinstance(body[-1], ast.Return)


def inline_new_helpers(modname, tree, inv):
    inlined = []
    for _round in range(2):
        changed_any = False
        for prefix, node, funcs in _scopes(modname, tree):
            is_class = isinstance(node, ast.ClassDef)
            helpers = []
            for f in funcs:
                q = prefix + "." + f.name
                if q in inv or not _is_private(f.name):
                    continue
                decos = [d.id if isinstance(d, ast.Name) else getattr(d, "attr", "") for d in f.decorator_list]
                if any(d in ("property", "abstractmethod") for d in decos):
                    continue
                kind = "func" if not is_class else ("static" if "staticmethod" in decos else ("class" if "classmethod" in decos else "method"))
                helpers.append(Helper(f, kind, node.name if is_class else None))
            if not helpers:
                continue
            for h_ in helpers:
                h_.unique = sum(1 for x in ast.walk(tree) if isinstance(x, (ast.FunctionDef, ast.AsyncFunctionDef)) and x.name == h_.fn.name) == 1
            if is_class:
                callers = [(f, node.name) for f in funcs]
                # static helpers may also be called as Class._h(...) from module functions
            else:
                callers = [(f, None) for f in funcs]
                for p2, n2, f2 in _scopes(modname, tree):
                    if isinstance(n2, ast.ClassDef):
                        callers.extend((f, n2.name) for f in f2)
            for f, cname in callers:
                if any(f is h.fn for h in helpers):
                    hs = [h for h in helpers if h.fn is not f]
                else:
                    hs = helpers
                state = {"n": 0, "changed": False}
                # bound-method aliases of the helpers in this caller:  h = self._helper  (single assignment)
                _ALIASES.clear()
                stores = {}
                for x in ast.walk(f):
                    if isinstance(x, ast.Name) and isinstance(x.ctx, ast.Store):
                        stores[x.id] = stores.get(x.id, 0) + 1
                alias_stmts = []
                for x in ast.walk(f):
                    if isinstance(x, ast.Assign) and len(x.targets) == 1 and isinstance(x.targets[0], ast.Name) and stores.get(x.targets[0].id) == 1 \
                            and isinstance(x.value, ast.Attribute) and isinstance(x.value.value, ast.Name) and x.value.value.id == "self" \
                            and any(h.fn.name == x.value.attr and h.ok for h in hs):
                        _ALIASES[x.targets[0].id] = x.value.attr
                        alias_stmts.append(x)
                f.body = _inline_block(f.body, hs, cname, f, state)
                if _ALIASES and state["changed"]:
                    # drop alias assignments that are no longer used
                    used = set(x.id for x in ast.walk(f) if isinstance(x, ast.Name) and isinstance(x.ctx, ast.Load))
                    dead = [a_ for a_ in alias_stmts if a_.targets[0].id not in used]
                    if dead:
                        for holder in ast.walk(f):
                            for field in ("body", "orelse", "finalbody"):
                                b = getattr(holder, field, None)
                                if isinstance(b, list):
                                    for a_ in dead:
                                        if a_ in b:
                                            b.remove(a_)
                                    if not b and field == "body":
                                        b.append(ast.Pass())
                _ALIASES.clear()
                if state["changed"]:
                    changed_any = True
                    inlined.append("%s.%s" % (prefix if cname is None or not is_class else prefix, f.name))
        if not changed_any:
            break
    return inlined


def drop_unreferenced_new_helpers(modname, tree, inv, external_refs=()):
    """A new private helper whose every call site was inlined is removed from the analysed tree: the program then looks
    exactly as before the extraction (rules that enumerate functions do not see a function the reference lacks).
    external_refs: names still referenced from other modules (a subclass elsewhere calls the helper)."""
    dropped = []
    for prefix, node, funcs in _scopes(modname, tree):
        for f in funcs:
            q = prefix + "." + f.name
            if q in inv or not _is_private(f.name) or f.name in external_refs:
                continue
            refs = 0
            for x in ast.walk(tree):
                if x is f:
                    continue
                if isinstance(x, ast.Attribute) and x.attr == f.name:
                    refs += 1
                elif isinstance(x, ast.Name) and x.id == f.name:
                    refs += 1
            # references inside the helper's own body (recursion) do not count; those are excluded from inlining anyway
            own = sum(1 for x in ast.walk(f) if (isinstance(x, ast.Attribute) and x.attr == f.name) or (isinstance(x, ast.Name) and x.id == f.name))
            if refs - own == 0:
                for holder in ast.walk(tree):
                    for field in ("body", "orelse", "finalbody"):
                        b = getattr(holder, field, None)
                        if isinstance(b, list) and f in b:
                            b.remove(f)
                            if not b:
                                b.append(ast.copy_location(ast.Pass(), f))
                dropped.append(q)
    return dropped


class _YieldToAdd(ast.NodeTransformer):
    def __init__(self, target, method):
        self.target = target
        self.method = method

    def visit_FunctionDef(self, n):
        return n

    visit_Lambda = visit_FunctionDef

    def visit_Expr(self, n):
        if isinstance(n.value, ast.Yield) and n.value.value is not None:
            call = ast.Call(func=ast.Attribute(value=ast.Name(id=self.target, ctx=ast.Load()), attr=self.method, ctx=ast.Load()),
                            args=[n.value.value], keywords=[])
            return ast.copy_location(ast.Expr(value=call), n)
        return self.generic_visit(n)


def inline_generator_collectors(modname, tree, inv):
    """`T = set(_h(args))` / `list(_h(args))` where _h is a new private generator function whose yields are all plain statements
    (`yield E`) and which has no return: the collection is built in place -- `T = set()` followed by the body of _h with every
    `yield E` read as `T.add(E)` (list: append).  That is what the code was before the generator was split off."""
    done = []
    for prefix, node, funcs in _scopes(modname, tree):
        is_class = isinstance(node, ast.ClassDef)
        gens = []
        for f in funcs:
            q = prefix + "." + f.name
            if q in inv or not _is_private(f.name) or f.decorator_list and is_class and any(
                    (getattr(d, "id", None) or getattr(d, "attr", "")) in ("property", "classmethod") for d in f.decorator_list):
                continue
            ys = [x for x in ast.walk(f) if isinstance(x, (ast.Yield, ast.YieldFrom))]
            if not ys or any(isinstance(x, ast.YieldFrom) for x in ys):
                continue
            stmt_yields = [st.value for st in ast.walk(f) if isinstance(st, ast.Expr) and isinstance(st.value, ast.Yield)]
            if len(stmt_yields) != len(ys) or any(y.value is None for y in ys):
                continue
            if any(isinstance(x, ast.Return) for x in ast.walk(f)):
                continue
            if f.args.vararg or f.args.kwarg or f.args.kwonlyargs:
                continue
            decos = [d.id if isinstance(d, ast.Name) else getattr(d, "attr", "") for d in f.decorator_list]
            kind = "func" if not is_class else ("static" if "staticmethod" in decos else "method")
            gens.append((f, kind))
        if not gens:
            continue
        callers = []
        for p2, n2, f2 in _scopes(modname, tree):
            cname = n2.name if isinstance(n2, ast.ClassDef) else None
            callers.extend((f, cname) for f in f2)
        for caller, cname in callers:
            counter = [0]

            def rewrite(stmts):
                out = []
                for st in stmts:
                    for field in ("body", "orelse", "finalbody"):
                        v = getattr(st, field, None)
                        if isinstance(v, list) and v and isinstance(v[0], ast.stmt) and not isinstance(st, (ast.FunctionDef, ast.AsyncFunctionDef, ast.ClassDef)):
                            setattr(st, field, rewrite(v))
                    if isinstance(st, ast.Try):
                        for h_ in st.handlers:
                            h_.body = rewrite(h_.body)
                    hit = None
                    if isinstance(st, ast.Assign) and len(st.targets) == 1 and isinstance(st.targets[0], ast.Name) \
                            and isinstance(st.value, ast.Call) and isinstance(st.value.func, ast.Name) and st.value.func.id in ("set", "list") \
                            and len(st.value.args) == 1 and not st.value.keywords and isinstance(st.value.args[0], ast.Call):
                        inner = st.value.args[0]
                        for f, kind in gens:
                            if f is caller:
                                continue
                            h = Helper(f, kind, node.name if is_class else None)
                            if _is_call_to(inner, h, cname):
                                hit = (h, inner)
                                break
                    if hit is None:
                        out.append(st)
                        continue
                    h, inner = hit
                    tname = st.targets[0].id
                    method = "add" if st.value.func.id == "set" else "append"
                    body = h.fn.body
                    if body and isinstance(body[0], ast.Expr) and isinstance(body[0].value, ast.Constant) and isinstance(body[0].value.value, str):
                        body = body[1:]
                    h.body = [_YieldToAdd(tname, method).visit(copy.deepcopy(x)) for x in body]
                    counter[0] += 1
                    inst = _instantiate(h, inner, caller, 900 + counter[0], keep=(tname,))
                    if inst is None:
                        out.append(st)
                        continue
                    prelude, ibody = inst
                    init = ast.copy_location(ast.Assign(targets=[ast.Name(id=tname, ctx=ast.Store())],
                                                        value=ast.Call(func=ast.Name(id=st.value.func.id, ctx=ast.Load()), args=[], keywords=[])), st)
                    for s_ in [init] + prelude + ibody:
                        ast.fix_missing_locations(s_)
                    out.extend([init] + prelude + ibody)
                    done.append("%s.%s" % (prefix, caller.name))
                return out
            caller.body = rewrite(caller.body)
    return done


def specialise_overridden_helpers(modname, tree, inv):
    """Template method introduced by a refactoring: a base-class method m now calls a new private hook self._h(...) that the base
    class and a subclass define differently (the subclass used to have its own m).  The subclass gets its own copy of m, so that
    the ordinary inlining gives each class the m it had: base.m with base._h inlined, sub.m with sub._h inlined.
    Only within one module; methods that call super() are not copied."""
    classes = {}
    for prefix, node, funcs in _scopes(modname, tree):
        if isinstance(node, ast.ClassDef):
            classes.setdefault(node.name, (prefix, node, funcs))
    made = []

    def base_names(node):
        out = []
        for b in node.bases:
            if isinstance(b, ast.Name):
                out.append(b.id)
            elif isinstance(b, ast.Attribute):
                out.append(b.attr)
        return out

    def ancestors(name, seen=()):
        if name not in classes:
            return []
        out = []
        for b in base_names(classes[name][1]):
            if b in classes and b not in seen:
                out.append(b)
                out.extend(ancestors(b, seen + (name,)))
        return out
    for cname, (prefix, node, funcs) in list(classes.items()):
        own = dict((f.name, f) for f in funcs)
        hooks = [f for f in funcs if (prefix + "." + f.name) not in inv and _is_private(f.name)]
        if not hooks:
            continue
        for anc in ancestors(cname):
            aprefix, anode, afuncs = classes[anc]
            adefs = dict((f.name, f) for f in afuncs)
            for h in hooks:
                if h.name not in adefs or (aprefix + "." + h.name) in inv:
                    continue
                for m in afuncs:
                    if m.name in own or m.name == h.name or m.name.startswith("__"):
                        continue
                    refs = any(isinstance(x, ast.Attribute) and x.attr == h.name and isinstance(x.value, ast.Name) and x.value.id == "self"
                               for x in ast.walk(m))
                    if not refs or any(isinstance(x, ast.Name) and x.id == "super" for x in ast.walk(m)):
                        continue
                    cp = copy.deepcopy(m)
                    node.body.append(cp)
                    own[m.name] = cp
                    made.append("%s.%s" % (prefix, m.name))
    return made



# ----------------------------------------------------------------------------- closures
NESTED_FILE = os.path.join(HERE, "inventory_nested.json")
_nested = None


def nested_inventory():
    """'module[.Class].function::nested' of every function nested directly in a function of the reference tree"""
    global _nested
    if _nested is None:
        try:
            with open(NESTED_FILE) as f:
                _nested = set(json.load(f))
        except (OSError, ValueError):
            _nested = None
    return _nested


def nested_names(modname, tree):
    out = []
    for prefix, node, funcs in _scopes(modname, tree):
        for f in funcs:
            for st in f.body:
                if isinstance(st, (ast.FunctionDef, ast.AsyncFunctionDef)):
                    out.append("%s.%s::%s" % (prefix, f.name, st.name))
    return out


def lift_new_closures(modname, tree):
    """A block extracted into a NEW nested function (one the reference tree does not have) that is only ever called, does not
    yield and rebinds nothing of its host: it becomes a module-level private helper that takes the host's locals it reads as
    extra parameters, and inline_new_helpers then puts it back where it is called.  Returns the lifted names."""
    ninv = nested_inventory()
    if ninv is None:
        return []
    lifted = []
    for prefix, node, funcs in list(_scopes(modname, tree)):
        for f in funcs:
            for g in [st for st in f.body if isinstance(st, ast.FunctionDef)]:
                if "%s.%s::%s" % (prefix, f.name, g.name) in ninv or g.decorator_list:
                    continue
                a = g.args
                if a.vararg or a.kwarg or a.kwonlyargs or a.defaults or getattr(a, "posonlyargs", []):
                    continue
                hy = _HasYield()
                for st in g.body:
                    hy.visit(st)
                if hy.found or any(isinstance(x, (ast.Nonlocal, ast.Global, ast.FunctionDef, ast.Lambda, ast.ClassDef)) for st in g.body for x in ast.walk(st)):
                    continue
                uses = [x for x in ast.walk(f) if isinstance(x, ast.Name) and x.id == g.name]
                calls = [x for x in ast.walk(f) if isinstance(x, ast.Call) and isinstance(x.func, ast.Name) and x.func.id == g.name]
                inner = [x for st in g.body for x in ast.walk(st) if isinstance(x, ast.Name) and x.id == g.name]
                if not calls or len(uses) != len(calls) or inner:
                    continue
                gparams = set(x.arg for x in a.args)
                gstores = set(x.id for st in g.body for x in ast.walk(st) if isinstance(x, ast.Name) and isinstance(x.ctx, (ast.Store, ast.Del)))
                gloads = set(x.id for st in g.body for x in ast.walk(st) if isinstance(x, ast.Name) and isinstance(x.ctx, ast.Load))
                fparams = set(x.arg for x in f.args.args + f.args.kwonlyargs + getattr(f.args, "posonlyargs", []))
                if f.args.vararg:
                    fparams.add(f.args.vararg.arg)
                if f.args.kwarg:
                    fparams.add(f.args.kwarg.arg)
                fstores = {}
                for st in f.body:
                    if st is g:
                        continue
                    for x in ast.walk(st):
                        if isinstance(x, ast.Name) and isinstance(x.ctx, ast.Store):
                            fstores[x.id] = fstores.get(x.id, 0) + 1
                free = sorted(v for v in (gloads - gparams - gstores) if v in fparams or v in fstores)
                if any(fstores.get(v, 0) > 1 or (v in fparams and v in fstores) for v in free):
                    continue            # a captured local is re-bound: the closure reads the binding current at the call
                if gstores & (fparams | set(fstores)) - gparams:
                    pass                # plain assignment in g makes the name local to g: nothing of the host is re-bound
                newname = "_%s__lifted_%s" % (g.name.lstrip("_"), f.name.strip("_"))
                newfn = ast.FunctionDef(name=newname,
                                        args=ast.arguments(posonlyargs=[], args=list(a.args) + [ast.arg(arg=v) for v in free], vararg=None,
                                                           kwonlyargs=[], kw_defaults=[], kwarg=None, defaults=[]),
                                        body=g.body, decorator_list=[], returns=None, type_comment=None)
                if hasattr(g, "type_params"):
                    newfn.type_params = []
                ast.copy_location(newfn, g)
                for c in calls:
                    c.func = ast.copy_location(ast.Name(id=newname, ctx=ast.Load()), c.func)
                    c.args = list(c.args) + [ast.copy_location(ast.Name(id=v, ctx=ast.Load()), c) for v in free]
                f.body = [st for st in f.body if st is not g] or [ast.copy_location(ast.Pass(), g)]
                # before the top-level statement that holds the host
                top = None
                for i_, st in enumerate(tree.body):
                    if any(x is f for x in ast.walk(st)):
                        top = i_
                        break
                tree.body.insert(top if top is not None else len(tree.body), newfn)
                ast.fix_missing_locations(newfn)
                lifted.append("%s.%s::%s" % (prefix, f.name, g.name))
    return lifted

def apply(modname, tree, drop=True):
    inv = inventory()
    if not inv:
        return tree, {}
    info = {}
    ren = undo_renames(modname, tree, inv)
    if ren:
        info["renamed_back"] = ren
    spec = specialise_overridden_helpers(modname, tree, inv)
    if spec:
        info["specialised"] = spec
    gen = inline_generator_collectors(modname, tree, inv)
    lifted = lift_new_closures(modname, tree)
    if lifted:
        info["lifted_closures"] = lifted
    inl = inline_new_helpers(modname, tree, inv)
    if gen:
        inl = list(inl) + gen
    if inl:
        info["inlined_into"] = sorted(set(inl))
        if drop:
            dropped = drop_unreferenced_new_helpers(modname, tree, inv)
            if dropped:
                info["dropped_helpers"] = dropped
    return tree, info


def new_method_helpers(modname, tree):
    """[(class name, FunctionDef)] of the private methods of this module that the reference tree lacks"""
    inv = inventory()
    out = []
    if not inv:
        return out
    for prefix, node, funcs in _scopes(modname, tree):
        if not isinstance(node, ast.ClassDef):
            continue
        for f in funcs:
            if (prefix + "." + f.name) in inv or not _is_private(f.name):
                continue
            decos = [d.id if isinstance(d, ast.Name) else getattr(d, "attr", "") for d in f.decorator_list]
            if any(d in ("property", "abstractmethod", "staticmethod", "classmethod") for d in decos):
                continue
            out.append((node.name, f))
    return out


def inline_across_modules(trees):
    """trees: {module name: tree}.  A new private method of class K (module A) that a subclass of K in another module calls as
    self._h(...) is inlined there too (subclass relation by base-class names; a subclass that defines its own _h is skipped).
    -> {module name: [caller qualified names]}"""
    helpers = []
    for mn, tree in trees.items():
        for cname, f in new_method_helpers(mn, tree):
            helpers.append((mn, cname, f))
    if not helpers:
        return {}
    bases = {}
    classes = []
    for mn, tree in trees.items():
        for prefix, node, funcs in _scopes(mn, tree):
            if isinstance(node, ast.ClassDef):
                bs = set()
                for b in node.bases:
                    if isinstance(b, ast.Name):
                        bs.add(b.id)
                    elif isinstance(b, ast.Attribute):
                        bs.add(b.attr)
                bases.setdefault(node.name, set()).update(bs)
                classes.append((mn, prefix, node, funcs))

    def derives(c, k, seen=()):
        if c == k:
            return True
        return any(derives(b, k, seen + (c,)) for b in bases.get(c, ()) if b not in seen)
    done = {}
    for hmod, hcls, hf in helpers:
        for mn, prefix, node, funcs in classes:
            if mn == hmod or node.name == hcls or not derives(node.name, hcls):
                continue
            if any(f.name == hf.name for f in funcs):
                continue
            h = Helper(hf, "method", node.name)
            if not h.ok:
                continue
            for f in funcs:
                state = {"n": 0, "changed": False}
                _ALIASES.clear()
                f.body = _inline_block(f.body, [h], node.name, f, state)
                if state["changed"]:
                    done.setdefault(mn, []).append("%s.%s" % (prefix, f.name))
    return done


def finish(modname, tree, external_refs):
    inv = inventory()
    if not inv:
        return []
    return drop_unreferenced_new_helpers(modname, tree, inv, external_refs)
