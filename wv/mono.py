"""Monotonicity domain for scorer formulas (C12-R4).

mono(expr, var) in {"+", "-", "0", "?"}: non-decreasing / non-increasing /
independent / not derivable, for positive inputs.  sign(expr) in {"+", "?"}
tracks whether an expression is known non-negative (needed for products).
Assumption recorded by the rule: weights, lengths, idf, avgfl, B in [0,1], K1,
qf, c are all positive.
"""

import ast

from . import norm


def flip(m):
    return {"+": "-", "-": "+", "0": "0", "?": "?"}[m]


def add(a, b):
    if a == "0":
        return b
    if b == "0":
        return a
    if a == b:
        return a
    return "?"


class Mono(object):
    def __init__(self, prog, module, var, env=None, depth=0):
        self.prog = prog
        self.module = module
        self.var = var
        self.env = env or {}  # local name -> expr (single assignment)
        self.depth = depth

    def depends(self, e):
        for n in ast.walk(e):
            if isinstance(n, ast.Name):
                if n.id == self.var:
                    return True
                if n.id in self.env and self.depends(self.env[n.id]):
                    return True
        return False

    def sign(self, e):
        """'+' if e >= 0 is known under the positivity assumption, else '?'"""
        if isinstance(e, ast.Constant):
            return "+" if isinstance(e.value, (int, float)) and e.value >= 0 else "?"
        if isinstance(e, ast.Name):
            if e.id in self.env:
                return self.sign(self.env[e.id])
            return "+"
        if isinstance(e, ast.Attribute):
            return "+"
        if isinstance(e, ast.BinOp):
            if isinstance(e.op, (ast.Add, ast.Mult, ast.Div)):
                return "+" if self.sign(e.left) == "+" and self.sign(e.right) == "+" else "?"
            if isinstance(e.op, ast.Sub):
                # (1 - B) with B in [0, 1]
                rn = e.right.id if isinstance(e.right, ast.Name) else (
                    e.right.attr if isinstance(e.right, ast.Attribute) else None)
                if isinstance(e.left, ast.Constant) and e.left.value == 1 and rn == "B":
                    return "+"
                return "?"
            if isinstance(e.op, ast.Pow):
                return self.sign(e.left)
        if isinstance(e, ast.Call):
            return "?"  # log(...) may be negative
        return "?"

    def mono(self, e):
        if not self.depends(e):
            return "0"
        if isinstance(e, ast.Name):
            if e.id == self.var:
                return "+"
            if e.id in self.env:
                return self.mono(self.env[e.id])
            return "0"
        if isinstance(e, ast.BinOp):
            l, r = e.left, e.right
            ml, mr = self.mono(l), self.mono(r)
            if isinstance(e.op, ast.Add):
                return add(ml, mr)
            if isinstance(e.op, ast.Sub):
                return add(ml, flip(mr))
            if isinstance(e.op, ast.Mult):
                if self.sign(l) != "+" or self.sign(r) != "+":
                    return "?"
                return add(ml, mr) if "?" not in (ml, mr) else "?"
            if isinstance(e.op, ast.Div):
                if self.sign(l) != "+" or self.sign(r) != "+":
                    return "?"
                sat = self._saturating(l, r)
                if sat:
                    return sat
                return add(ml, flip(mr)) if "?" not in (ml, mr) else "?"
            return "?"
        if isinstance(e, ast.UnaryOp) and isinstance(e.op, ast.USub):
            return flip(self.mono(e.operand))
        if isinstance(e, ast.Call):
            nm = norm.call_name(e)
            if nm in ("log", "sqrt", "log2", "log10", "exp") and len(e.args) == 1:
                return self.mono(e.args[0])
            # module-level formula: inline
            if isinstance(e.func, ast.Name) and self.depth < 3:
                r = self.prog.module_export(self.module.name, nm)
                if r is not None and r[0] == "func":
                    f = r[1]
                    params = f.params
                    if len(params) >= len(e.args):
                        env = dict(zip(params, e.args))
                        # evaluate the callee body: straight-line assignments then return
                        body_env = {}
                        ret = None
                        for st in f.node.body:
                            if isinstance(st, ast.Assign) and len(st.targets) == 1 and isinstance(st.targets[0], ast.Name):
                                body_env[st.targets[0].id] = st.value
                            elif isinstance(st, ast.Return):
                                ret = st.value
                        if ret is None:
                            return "?"
                        # substitute actual arguments for parameters everywhere
                        sub = {p: a for p, a in env.items()}
                        body_env = {k: norm.substitute(v, sub) for k, v in body_env.items()}
                        inner = Mono(self.prog, f.module, self.var, dict(self.env, **body_env), self.depth + 1)
                        # temporaries of the formula (numerator = ...; denominator = ...) are written out, so that the shape
                        # rules (sign, saturating quotient) see the formula itself
                        ret2 = norm.substitute(ret, sub)
                        for _ in range(4):
                            names_ = set(x.id for x in ast.walk(ret2) if isinstance(x, ast.Name))
                            if not (names_ & set(body_env)):
                                break
                            ret2 = norm.substitute(ret2, body_env)
                        return inner.mono(ret2)
            return "?"
        return "?"

    def _saturating(self, num, den):
        """(k * x) / (x + c): non-decreasing in x when k, c >= 0 do not depend on x;
        and with x only in c (denominator grows): handled by the generic rule."""
        def strip_const_factor(e):
            if isinstance(e, ast.BinOp) and isinstance(e.op, ast.Mult):
                if not self.depends(e.right):
                    return strip_const_factor(e.left)
                if not self.depends(e.left):
                    return strip_const_factor(e.right)
            return e
        x = strip_const_factor(num)
        if not isinstance(den, ast.BinOp) or not isinstance(den.op, ast.Add):
            return None
        xt = norm.canon(x)
        for a, b in ((den.left, den.right), (den.right, den.left)):
            if norm.canon(a) == xt and self.mono(x) == "+":
                mb = self.mono(b)
                if mb == "0" and self.sign(b) == "+":
                    return "+"
        return None
