"""wv -- static-analysis machinery for the whoosh properties (see /verif/DESIGN.md).

Pure stdlib; nothing from whoosh is ever imported or executed.
"""
