"""Helpers shared by the rule modules."""

import ast

from .. import norm
from ..calls import Calls
from ..model import AnalysisError


def calls_of(prog):
    c = getattr(prog, "_calls", None)
    if c is None:
        c = Calls(prog)
        prog._calls = c
    return c


def writer_classes(prog):
    """Concrete SegmentWriter classes (the ones that own an index lock/TOC)."""
    base = prog.cls("writing.SegmentWriter")
    return prog.subclasses(base)


def all_calls(func):
    return norm.calls_in(func.node)


def find_calls(func, name):
    return [c for c in norm.calls_in(func.node) if norm.call_name(c) == name]


def arg_or_kw(call, index, name):
    """Positional argument `index` or keyword `name` of a call, or None."""
    if index is not None and index < len(call.args) and not any(isinstance(a, ast.Starred) for a in call.args[:index + 1]):
        return call.args[index]
    for k in call.keywords:
        if k.arg == name:
            return k.value
    return None


def bound_arg(prog, func, call, name, default=None):
    """The expression a call binds to the callee's parameter `name`, whichever way it is spelled (keyword or positional): by
    keyword if present, else through the exactly resolved callee's parameter list."""
    for k in call.keywords:
        if k.arg == name:
            return k.value
    try:
        r = calls_of(prog).resolve(func, call)
    except Exception:
        return default
    if r.kind == "exact" and len(r.targets) == 1:
        m, _ = bind_args(call, r.targets[0])
        if m and name in m:
            return m[name]
    elif r.kind in ("exact", "cha", "typed") and r.targets:
        # a method with overrides: every implementation the call may reach must bind the same argument to `name`
        got = []
        for t in r.targets:
            m, _ = bind_args(call, t)
            got.append(m.get(name) if m else None)
        if got and got[0] is not None and all(g is got[0] for g in got):
            return got[0]
    return default


def bind_args(call, target_func, skip_self=True):
    """Map parameter name -> argument expression for a call to target_func.
    Returns (mapping, problems) where problems lists arity/keyword misfits."""
    a = target_func.node.args
    params = [x.arg for x in getattr(a, "posonlyargs", [])] + [x.arg for x in a.args]
    if skip_self and params and params[0] in ("self", "cls") and (
            target_func.cls is not None and "staticmethod" not in target_func.decorators):
        params = params[1:]
    kwonly = [x.arg for x in a.kwonlyargs]
    mapping = {}
    problems = []
    pos = [x for x in call.args]
    if any(isinstance(x, ast.Starred) for x in pos) or any(k.arg is None for k in call.keywords):
        return None, []  # *args / **kwargs at the call site: not checkable
    if len(pos) > len(params) and a.vararg is None:
        problems.append("%d positional arguments for %d parameters" % (len(pos), len(params)))
    for p, x in zip(params, pos):
        mapping[p] = x
    for k in call.keywords:
        if k.arg in mapping:
            problems.append("parameter %r given twice" % k.arg)
        elif k.arg in params or k.arg in kwonly:
            mapping[k.arg] = k.value
        elif a.kwarg is None:
            problems.append("unknown keyword %r" % k.arg)
    ndefaults = len(a.defaults)
    required = params[:len(params) - ndefaults] if ndefaults else params
    for p in required:
        if p not in mapping:
            problems.append("required parameter %r missing" % p)
    for p, d in zip(kwonly, a.kw_defaults):
        if d is None and p not in mapping:
            problems.append("required keyword-only parameter %r missing" % p)
    return mapping, problems


def returns_of(func):
    out = []
    for n in ast.walk(func.node):
        if isinstance(n, ast.Return):
            out.append(n)
    return out


def _is_noise(st):
    """docstring-like / pure expression statements that do nothing a caller can rely on."""
    return isinstance(st, ast.Pass) or (isinstance(st, ast.Expr) and not isinstance(st.value, (ast.Yield, ast.YieldFrom, ast.Await)))


def is_abstract_body(func):
    """Body is only a docstring / pass / raise NotImplementedError (plus expression statements before the raise)."""
    body = list(func.node.body)
    if body and isinstance(body[0], ast.Expr) and isinstance(body[0].value, ast.Constant) \
            and isinstance(body[0].value.value, str):
        body = body[1:]
    if not body:
        return "abstractmethod" in func.decorators
    st = body[-1]
    if isinstance(st, ast.Raise) and st.exc is not None and all(_is_noise(x) and not norm_calls_self(x) for x in body[:-1]):
        e = st.exc
        if isinstance(e, ast.Call):
            e = e.func
        if isinstance(e, ast.Name) and e.id == "NotImplementedError":
            return True
        if isinstance(e, ast.Attribute) and e.attr == "NotImplementedError":
            return True
    if len(body) == 1 and isinstance(st, ast.Pass) and "abstractmethod" in func.decorators:
        return True
    return False


def norm_calls_self(st):
    """does the statement call a method on self (then it is not noise)?"""
    for c in ast.walk(st):
        if isinstance(c, ast.Call) and isinstance(c.func, ast.Attribute):
            r = c.func.value
            while isinstance(r, ast.Attribute):
                r = r.value
            if isinstance(r, ast.Name) and r.id == "self":
                return True
    return False


def body_is_trivial(func):
    """Only docstring and/or pass."""
    body = list(func.node.body)
    if body and isinstance(body[0], ast.Expr) and isinstance(body[0].value, ast.Constant) \
            and isinstance(body[0].value.value, str):
        body = body[1:]
    return all(isinstance(s, ast.Pass) for s in body)


def const_value(node):
    return node.value if isinstance(node, ast.Constant) else None


# --------------------------------------------------------------------------- re-construction completeness
def _init_state_params(init):
    """parameter -> set of self attributes the constructor derives from it (directly: an assignment whose value mentions the
    parameter and whose target is self.<attr>; or through super().__init__/Base.__init__(self, ..., p, ...))"""
    a = init.node.args
    params = [x.arg for x in a.args][1:] + [x.arg for x in a.kwonlyargs]
    out = dict((p, set()) for p in params)
    for st in ast.walk(init.node):
        if isinstance(st, ast.Assign):
            names = norm.names_in(st.value)
            for t in st.targets:
                if isinstance(t, ast.Attribute) and isinstance(t.value, ast.Name) and t.value.id == "self":
                    for p in params:
                        if p in names:
                            out[p].add(t.attr)
        if isinstance(st, ast.Call) and norm.call_name(st) == "__init__":
            for x in list(st.args) + [k.value for k in st.keywords]:
                if isinstance(x, ast.Name) and x.id in out:
                    out[x.id].add("<passed to the base constructor>")
    return params, out


def constructed_names(prog):
    """names used as callee anywhere in the program (a class whose name never appears there is never instantiated directly)"""
    r = getattr(prog, "_constructed_names", None)
    if r is None:
        r = set()
        for f in prog.functions.values():
            for c in norm.calls_in(f.node):
                if isinstance(c.func, ast.Name):
                    r.add(c.func.id)
                elif isinstance(c.func, ast.Attribute):
                    r.add(c.func.attr)
        for m in prog.modules.values():
            for c in ast.walk(m.tree):
                if isinstance(c, ast.Call):
                    if isinstance(c.func, ast.Name):
                        r.add(c.func.id)
                    elif isinstance(c.func, ast.Attribute):
                        r.add(c.func.attr)
        prog._constructed_names = r
    return r


def reconstruction_check(ctx, prog, classes, exceptions):
    """Every place where a class re-creates an object of its own (dynamic) class -- self.__class__(...), type(self)(...), or its own
    name -- hands over every constructor parameter that carries state: a rewrite (copy/replace/normalize/apply/simplify/...)
    must not silently reset a setting to its default.  Accepted: the parameter is bound in the call; or the attribute(s) it
    feeds are copied onto the result afterwards in the same function (`norm.minmatch = self.minmatch`, also in an override that
    delegates to the base method); or the (function, parameter) pair is in the reviewed `exceptions` table.
    Returns the number of construction sites examined."""
    sites = 0
    classes = list(classes)
    cset = set(c.qualname for c in classes)
    for cls in classes:
        for f in cls.methods.values():
            if f.name == "__init__":
                continue
            restored = set()
            for st in ast.walk(f.node):
                if isinstance(st, ast.Assign) and isinstance(st.value, ast.Attribute) and isinstance(st.value.value, ast.Name) \
                        and st.value.value.id == "self":
                    for t in st.targets:
                        if isinstance(t, ast.Attribute) and isinstance(t.value, ast.Name) and t.value.id != "self" and t.attr == st.value.attr:
                            restored.add(t.attr)
            for c in norm.calls_in(f.node):
                dyn = norm.canon(c.func) in ("self.__class__", "type(self)")
                byname = isinstance(c.func, ast.Name) and c.func.id == cls.name
                if not (dyn or byname):
                    continue
                concretes = [cls]
                if dyn:
                    concretes = [k for k in prog.subclasses(cls) if prog.lookup(k, f.name) is f]
                    if f.name.startswith("_") and not f.name.startswith("__"):
                        # a private helper counts for a class only if that class still has a caller of it
                        def has_caller(k):
                            seen = set()
                            for kk in prog.mro(k):
                                if isinstance(kk, str):
                                    continue
                                for nm, g in kk.methods.items():
                                    if nm in seen:
                                        continue
                                    seen.add(nm)
                                    if any(norm.canon(x.func) == "self." + f.name for x in norm.calls_in(g.node)):
                                        return True
                            return False
                        concretes = [k for k in concretes if has_caller(k)]
                for k in concretes:
                    init = prog.lookup(k, "__init__")
                    if init is None or is_abstract_body(init):
                        continue
                    if k.name not in constructed_names(prog) and prog.subclasses(k, strict=True):
                        continue   # a base class nobody instantiates: only its subclasses are ever `self.__class__`
                    m, probs = bind_args(c, init)
                    if m is None:
                        continue   # *args / **kwargs at the site: not checkable here
                    sites += 1
                    ctx.saw(f)
                    tag = "" if k is cls else " [as %s]" % k.name
                    ctx.ob(f, not probs, "%s(...) fits %s.__init__%s" % (norm.canon(c.func), k.name, tag), detail="; ".join(probs), loc=ctx.nodeloc(f, c))
                    params, state = _init_state_params(init)
                    for p in params:
                        if p in m or not state[p]:
                            continue
                        attrs = state[p] - {"<passed to the base constructor>"}
                        if attrs and attrs <= restored:
                            continue
                        if (f.short, p) in exceptions:
                            continue
                        ctx.ob(f, False, "the re-created %s keeps `%s`%s" % (k.name, p, tag),
                               detail="%s builds a new %s without passing %s (stored as %s by the constructor): the rewritten object silently falls back to "
                                      "the default" % (f.short, k.name, p, ", ".join("self." + a_ for a_ in sorted(attrs)) or "base-class state"),
                               loc=ctx.nodeloc(f, c))
                    if all(p in m or not state[p] or (state[p] - {"<passed to the base constructor>"} and state[p] - {"<passed to the base constructor>"} <= restored)
                           or (f.short, p) in exceptions for p in params):
                        ctx.ob(f, True, "the re-created %s keeps every stateful constructor parameter%s" % (k.name, tag), loc=ctx.nodeloc(f, c))
            # an override that delegates to the base method (`Base.m(self, ...)`) restores the state its own constructor adds
            for c in norm.calls_in(f.node):
                if isinstance(c.func, ast.Attribute) and c.func.attr == f.name and isinstance(c.func.value, ast.Name) and c.args \
                        and isinstance(c.args[0], ast.Name) and c.args[0].id == "self":
                    base = [b for b in prog.mro(cls)[1:] if not isinstance(b, str) and b.name == c.func.value.id]
                    if not base or f.name not in base[0].methods:
                        continue
                    bm = base[0].methods[f.name]
                    if not any(norm.canon(x.func) in ("self.__class__", "type(self)") for x in norm.calls_in(bm.node)):
                        continue
                    init = prog.lookup(cls, "__init__")
                    binit = prog.lookup(base[0], "__init__")
                    if init is None or binit is None or init is binit:
                        continue
                    params, state = _init_state_params(init)
                    bparams, _ = _init_state_params(binit)
                    for p in params:
                        attrs = state[p] - {"<passed to the base constructor>"}
                        if p in bparams or not attrs:
                            continue
                        sites += 1
                        ctx.ob(f, attrs <= restored or (f.short, p) in exceptions,
                               "the override copies `%s` onto what %s.%s() re-created" % (p, base[0].name, f.name),
                               detail="%s.%s() builds self.__class__(...) without %s; the override must set %s on the result" % (
                                   base[0].name, f.name, p, ", ".join(sorted(attrs))), loc=ctx.nodeloc(f, c))
    return sites


# --------------------------------------------------------------------------- attribute definedness along the constructor chain
def _self_defs(fnode):
    """attributes a function binds on self (plain stores; `self.x += 1` reads first and does not count); "*" = dynamic"""
    out = set()
    aug = set(id(x.target) for x in ast.walk(fnode) if isinstance(x, ast.AugAssign))
    for x in ast.walk(fnode):
        if isinstance(x, ast.Attribute) and isinstance(x.ctx, ast.Store) and isinstance(x.value, ast.Name) and x.value.id == "self" \
                and id(x) not in aug:
            out.add(x.attr)
        if isinstance(x, ast.Call) and norm.call_name(x) == "setattr" and x.args and isinstance(x.args[0], ast.Name) and x.args[0].id == "self":
            out.add("*")
        if isinstance(x, ast.Attribute) and x.attr == "__dict__":
            out.add("*")
    return out


def constructor_defs(prog, K):
    """attributes bound on self by constructing K: K's resolved __init__, the base constructors it calls (Base.__init__(self, ...),
    super().__init__(...)), and the self-methods those call, all resolved for K"""
    out = set()
    seen = set()

    def run(func, depth=0):
        if func is None or func.qualname in seen or depth > 6:
            return
        seen.add(func.qualname)
        out.update(_self_defs(func.node))
        for c in norm.calls_in(func.node):
            if not isinstance(c.func, ast.Attribute):
                continue
            recv = c.func.value
            if isinstance(recv, ast.Name) and recv.id == "self":
                run(prog.lookup(K, c.func.attr), depth + 1)
            elif isinstance(recv, ast.Call) and norm.call_name(recv) == "super":
                m = [k for k in prog.mro(K) if not isinstance(k, str)]
                i = m.index(func.cls) if func.cls in m else -1
                for k in m[i + 1:]:
                    if c.func.attr in k.methods:
                        run(k.methods[c.func.attr], depth + 1)
                        break
            elif c.args and isinstance(c.args[0], ast.Name) and c.args[0].id == "self":
                r = prog.resolve_in_func(func, recv)
                if r and r[0] == "class":
                    run(prog.lookup(r[1], c.func.attr), depth + 1)
    run(prog.lookup(K, "__init__"))
    return out


def undefined_attribute_reads(prog, K, entry_names=None):
    """(attribute, reading function, line, entry method) for every `self.X` read in a method reachable -- through self-calls resolved for
    K -- from K's public methods (or `entry_names`), where X is bound only by a constructor that constructing K never runs.
    Attributes that any non-constructor method or the class body binds, that are methods/properties, or whose reader tests
    hasattr/catches AttributeError are not reported; classes with foreign bases or dynamic attribute binding are skipped."""
    mro_all = prog.mro(K)
    if any(isinstance(k, str) and k != "object" for k in mro_all):
        return []
    mro = [k for k in mro_all if not isinstance(k, str)]
    got = constructor_defs(prog, K)
    if "*" in got:
        return []
    other, initonly = set(), set()
    for k in mro:
        for nm, f in k.methods.items():
            if nm == "__init__":
                initonly |= _self_defs(f.node)
            else:
                other |= _self_defs(f.node)
        other |= set(k.methods.keys())
        for st in k.node.body:
            if isinstance(st, ast.Assign):
                for t in st.targets:
                    if isinstance(t, ast.Name):
                        other.add(t.id)
    if "*" in other:
        return []
    missing = initonly - got - other
    if not missing:
        return []
    resolved = {}
    for k in mro:
        for nm, f in k.methods.items():
            resolved.setdefault(nm, f)
    entries = [nm for nm in resolved if nm != "__init__" and (not nm.startswith("_") or (nm.startswith("__") and nm.endswith("__")))]
    if entry_names is not None:
        entries = [nm for nm in entries if nm in entry_names]
    out = []
    reported = set()
    for entry in sorted(entries):
        seen = set()
        work = [entry]
        while work:
            nm = work.pop()
            if nm in seen or nm not in resolved or nm == "__init__":
                continue
            seen.add(nm)
            f = resolved[nm]
            guarded = any(norm.call_name(c) == "hasattr" for c in norm.calls_in(f.node)) or \
                any(isinstance(h.type, ast.Name) and h.type.id == "AttributeError" for t_ in ast.walk(f.node) if isinstance(t_, ast.Try)
                    for h in t_.handlers if h.type is not None)
            for x in ast.walk(f.node):
                if isinstance(x, ast.Attribute) and isinstance(x.ctx, ast.Load) and isinstance(x.value, ast.Name) and x.value.id == "self":
                    if x.attr in missing and not guarded and (x.attr, f.qualname) not in reported:
                        reported.add((x.attr, f.qualname))
                        out.append((x.attr, f, x.lineno, entry))
            for c in norm.calls_in(f.node):
                if isinstance(c.func, ast.Attribute) and isinstance(c.func.value, ast.Name) and c.func.value.id == "self":
                    work.append(c.func.attr)
    return out


# --------------------------------------------------------------------------- attributes bound nowhere
_OBJECT_ATTRS = set("__class__ __dict__ __doc__ __module__ __name__ __init__ __eq__ __ne__ __hash__ __repr__ __str__ __reduce__ __getstate__ "
                    "__setstate__ __lt__ __gt__ __le__ __ge__ __len__ __iter__ __contains__ __getitem__ __unicode__ __nonzero__ __bool__ __new__ "
                    "__sizeof__ __reduce_ex__ __dir__ __format__ __subclasshook__ __init_subclass__ __delattr__ __setattr__ __getattribute__ "
                    "__slots__ __weakref__ __qualname__".split())


def _class_binds(classes):
    out = set()
    for k in classes:
        out |= set(k.methods.keys())
        for st in ast.walk(k.node):
            if isinstance(st, ast.Attribute) and isinstance(st.ctx, (ast.Store, ast.Del)) and isinstance(st.value, ast.Name) and st.value.id == "self":
                out.add(st.attr)
            if isinstance(st, ast.Call) and norm.call_name(st) == "setattr":
                out.add("*")
            if isinstance(st, ast.Attribute) and st.attr == "__dict__":
                out.add("*")
            if isinstance(st, ast.FunctionDef) and st.name in ("__getattr__", "__getattribute__"):
                out.add("*")
        for st in k.node.body:
            if isinstance(st, ast.Assign):
                for t in st.targets:
                    for e in (t.elts if isinstance(t, ast.Tuple) else [t]):
                        if isinstance(e, ast.Name):
                            out.add(e.id)
            elif isinstance(st, ast.ClassDef):
                out.add(st.name)
            elif isinstance(st, (ast.Import, ast.ImportFrom)):
                for a in st.names:
                    out.add((a.asname or a.name).split(".")[0])
    return out


def externally_stored_attrs(prog):
    """attribute names assigned through a receiver other than self anywhere in the program (obj.attr = ...)"""
    r = getattr(prog, "_ext_stores", None)
    if r is None:
        r = set()
        for m in prog.modules.values():
            for x in ast.walk(m.tree):
                if isinstance(x, ast.Attribute) and isinstance(x.ctx, ast.Store) and not (isinstance(x.value, ast.Name) and x.value.id == "self"):
                    r.add(x.attr)
        prog._ext_stores = r
    return r


def unbound_attribute_reads(prog, K):
    """(attribute, reading function, line, entry) for `self.X` reads -- in methods reachable from K's public methods, resolved for K --
    of attributes that nothing binds: not K's class hierarchy (methods, class body), not any `obj.X = ...` in the whole program.
    Skipped: attributes some strict subclass of K binds (K is then an abstract base for them), readers that test hasattr/getattr or
    catch AttributeError, classes with foreign bases or dynamic attribute binding."""
    mro_all = prog.mro(K)
    if any(isinstance(k, str) and k != "object" for k in mro_all):
        return []
    mro = [k for k in mro_all if not isinstance(k, str)]
    bound = _class_binds(mro)
    if "*" in bound:
        return []
    sub_bound = _class_binds(prog.subclasses(K, strict=True))
    ext = externally_stored_attrs(prog)
    resolved = {}
    for k in mro:
        for nm, f in k.methods.items():
            resolved.setdefault(nm, f)
    entries = [nm for nm in resolved if not nm.startswith("_") or (nm.startswith("__") and nm.endswith("__"))]
    out = []
    reported = set()
    by_name = dict((k.name, k) for k in mro)
    for entry in sorted(entries):
        seen = set()
        work = [resolved[entry]]
        while work:
            f = work.pop()
            if f is None or f.qualname in seen:
                continue
            seen.add(f.qualname)
            # probed names: hasattr(x, "a") / getattr(x, "a", ...) with a literal name excuse that name; a probe with a computed
            # name or an AttributeError handler excuses the whole function
            probed = set()
            guarded = any(isinstance(h.type, ast.Name) and h.type.id == "AttributeError" for t_ in ast.walk(f.node) if isinstance(t_, ast.Try)
                          for h in t_.handlers if h.type is not None)
            for c in norm.calls_in(f.node):
                if norm.call_name(c) in ("hasattr", "getattr") and isinstance(c.func, ast.Name):
                    if len(c.args) >= 2 and isinstance(c.args[1], ast.Constant) and isinstance(c.args[1].value, str):
                        probed.add(c.args[1].value)
                    else:
                        guarded = True
            for x in ast.walk(f.node):
                if isinstance(x, ast.Attribute) and isinstance(x.ctx, ast.Load) and isinstance(x.value, ast.Name) and x.value.id == "self":
                    a = x.attr
                    if a in bound or a in _OBJECT_ATTRS or a in ext or a in sub_bound or guarded or a in probed or (a, f.qualname) in reported:
                        continue
                    reported.add((a, f.qualname))
                    out.append((a, f, x.lineno, entry))
            for c in norm.calls_in(f.node):
                if isinstance(c.func, ast.Attribute) and isinstance(c.func.value, ast.Name):
                    if c.func.value.id == "self":
                        work.append(resolved.get(c.func.attr))
                    elif c.func.value.id in by_name and c.args and isinstance(c.args[0], ast.Name) and c.args[0].id == "self":
                        # the base implementation, called explicitly: Base.m(self, ...)  (also what N22 makes of super().m(...))
                        work.append(prog.lookup(by_name[c.func.value.id], c.func.attr))
    return out
