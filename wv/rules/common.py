"""Helpers shared by the rule modules."""

import ast

from .. import norm
from ..calls import Calls
from ..model import AnalysisError


def calls_of(prog):
    c = getattr(prog, "_calls", None)
    if c is None:
        c = Calls(prog)
        prog._calls = c
    return c


def writer_classes(prog):
    """Concrete SegmentWriter classes (the ones that own an index lock/TOC)."""
    base = prog.cls("writing.SegmentWriter")
    return prog.subclasses(base)


def all_calls(func):
    return norm.calls_in(func.node)


def find_calls(func, name):
    return [c for c in norm.calls_in(func.node) if norm.call_name(c) == name]


def arg_or_kw(call, index, name):
    """Positional argument `index` or keyword `name` of a call, or None."""
    if index is not None and index < len(call.args) and not any(isinstance(a, ast.Starred) for a in call.args[:index + 1]):
        return call.args[index]
    for k in call.keywords:
        if k.arg == name:
            return k.value
    return None


def bind_args(call, target_func, skip_self=True):
    """Map parameter name -> argument expression for a call to target_func.
    Returns (mapping, problems) where problems lists arity/keyword misfits."""
    a = target_func.node.args
    params = [x.arg for x in getattr(a, "posonlyargs", [])] + [x.arg for x in a.args]
    if skip_self and params and params[0] in ("self", "cls") and (
            target_func.cls is not None and "staticmethod" not in target_func.decorators):
        params = params[1:]
    kwonly = [x.arg for x in a.kwonlyargs]
    mapping = {}
    problems = []
    pos = [x for x in call.args]
    if any(isinstance(x, ast.Starred) for x in pos) or any(k.arg is None for k in call.keywords):
        return None, []  # *args / **kwargs at the call site: not checkable
    if len(pos) > len(params) and a.vararg is None:
        problems.append("%d positional arguments for %d parameters" % (len(pos), len(params)))
    for p, x in zip(params, pos):
        mapping[p] = x
    for k in call.keywords:
        if k.arg in mapping:
            problems.append("parameter %r given twice" % k.arg)
        elif k.arg in params or k.arg in kwonly:
            mapping[k.arg] = k.value
        elif a.kwarg is None:
            problems.append("unknown keyword %r" % k.arg)
    ndefaults = len(a.defaults)
    required = params[:len(params) - ndefaults] if ndefaults else params
    for p in required:
        if p not in mapping:
            problems.append("required parameter %r missing" % p)
    for p, d in zip(kwonly, a.kw_defaults):
        if d is None and p not in mapping:
            problems.append("required keyword-only parameter %r missing" % p)
    return mapping, problems


def returns_of(func):
    out = []
    for n in ast.walk(func.node):
        if isinstance(n, ast.Return):
            out.append(n)
    return out


def _is_noise(st):
    """docstring-like / pure expression statements that do nothing a caller can rely on."""
    return isinstance(st, ast.Pass) or (isinstance(st, ast.Expr) and not isinstance(st.value, (ast.Yield, ast.YieldFrom, ast.Await)))


def is_abstract_body(func):
    """Body is only a docstring / pass / raise NotImplementedError (plus expression statements before the raise)."""
    body = list(func.node.body)
    if body and isinstance(body[0], ast.Expr) and isinstance(body[0].value, ast.Constant) \
            and isinstance(body[0].value.value, str):
        body = body[1:]
    if not body:
        return "abstractmethod" in func.decorators
    st = body[-1]
    if isinstance(st, ast.Raise) and st.exc is not None and all(_is_noise(x) and not norm_calls_self(x) for x in body[:-1]):
        e = st.exc
        if isinstance(e, ast.Call):
            e = e.func
        if isinstance(e, ast.Name) and e.id == "NotImplementedError":
            return True
        if isinstance(e, ast.Attribute) and e.attr == "NotImplementedError":
            return True
    if len(body) == 1 and isinstance(st, ast.Pass) and "abstractmethod" in func.decorators:
        return True
    return False


def norm_calls_self(st):
    """does the statement call a method on self (then it is not noise)?"""
    for c in ast.walk(st):
        if isinstance(c, ast.Call) and isinstance(c.func, ast.Attribute):
            r = c.func.value
            while isinstance(r, ast.Attribute):
                r = r.value
            if isinstance(r, ast.Name) and r.id == "self":
                return True
    return False


def body_is_trivial(func):
    """Only docstring and/or pass."""
    body = list(func.node.body)
    if body and isinstance(body[0], ast.Expr) and isinstance(body[0].value, ast.Constant) \
            and isinstance(body[0].value.value, str):
        body = body[1:]
    return all(isinstance(s, ast.Pass) for s in body)


def const_value(node):
    return node.value if isinstance(node, ast.Constant) else None
