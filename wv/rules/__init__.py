"""Rule modules; importing this package registers every rule."""
import importlib
import pkgutil

for _m in sorted(m.name for m in pkgutil.iter_modules(__path__)):
    importlib.import_module(__name__ + "." + _m)
