"""Rule families that are not tied to one mechanism: each is registered once per property and covers the functions of that
property's anchor files (properties.jsonl: anchors.files).  They were declared after seeding round 5 (DESIGN C13): the kinds of
mistake they decide -- an argument in another parameter's slot, a parameter that stopped being forwarded -- recur across
properties, and the truth of each is in the resolved call, not in any runtime value.

  G1  no call passes, in the slot of parameter p, a variable that carries the name of a *different* parameter q of the callee
      (`TermInfo(w, df, minlen, max_weight, max_length)` against `__init__(..., maxlength, maxweight, ...)`), after N17 (keyword ->
      positional normal form) and resolution of the callee (module functions, classes, `Base.m(self, ...)`, `self.m(...)`,
      and `self.attr(...)` where attr is bound in the constructor from a parameter whose default is a project class).
  G2  a function does not stop forwarding one of its own parameters: a parameter the body never reads, while the body calls
      (exactly resolved) a callee that has a parameter of the same name and is not given it, is a dropped argument.
"""

import ast
import json
import os

from .. import norm
from ..model import AnalysisError
from ..report import rule
from . import common

HERE = os.path.dirname(os.path.dirname(os.path.dirname(os.path.abspath(__file__))))


def _properties():
    out = []
    with open(os.path.join(HERE, "properties.jsonl")) as f:
        for line in f:
            line = line.strip()
            if line:
                out.append(json.loads(line))
    return out


def anchor_funcs(prog, pid):
    files = None
    for p in _properties():
        if p["id"] == pid:
            files = set(p["anchors"]["files"])
    if not files:
        raise AnalysisError("no anchor files for %s" % pid)
    fs = [f for f in prog.functions.values() if f.module.relpath in files]
    if not fs:
        raise AnalysisError("anchor files of %s hold no function" % pid)
    return sorted(fs, key=lambda f: f.qualname)


def _nm(s):
    return s.replace("_", "").lower()


def _argname(e):
    if isinstance(e, ast.Name):
        return e.id
    if isinstance(e, ast.Attribute):
        return e.attr
    if isinstance(e, ast.Call) and not e.args and not e.keywords and isinstance(e.func, ast.Attribute):
        return e.func.attr          # a zero-argument accessor: ti.max_weight()
    return None


def _ctor_default_class(prog, func, call):
    """`self.attr(...)` where the constructor binds `self.attr = p` and p's default is a project class -> that class's __init__"""
    f = call.func
    if not (isinstance(f, ast.Attribute) and isinstance(f.value, ast.Name) and f.value.id == "self" and func.cls is not None):
        return None
    if prog.lookup(func.cls, f.attr) is not None:
        return None
    init = prog.lookup(func.cls, "__init__")
    if init is None:
        return None
    a = init.node.args
    params = [x.arg for x in a.args]
    defaults = dict(zip(params[len(params) - len(a.defaults):], a.defaults))
    for st in ast.walk(init.node):
        if isinstance(st, ast.Assign) and len(st.targets) == 1 and norm.canon(st.targets[0]) == "self." + f.attr \
                and isinstance(st.value, ast.Name) and st.value.id in defaults:
            r = prog.resolve_expr(init.module, defaults[st.value.id], init.cls)
            if r is not None and r[0] == "class":
                return prog.lookup(r[1], "__init__")
    return None


def _own_class_ctor(prog, func, call):
    """`self.__class__(...)` / `type(self)(...)` in a method of C -> C.__init__ when every subclass that inherits the method
    also inherits that __init__ (so the positional layout is the same whatever the dynamic class);
    `self.Nested(...)` where Nested is a class defined inside C's hierarchy -> Nested.__init__"""
    if func.cls is None:
        return None
    f = call.func
    if norm.canon(f) in ("self.__class__", "type(self)"):
        init = prog.lookup(func.cls, "__init__")
        if init is None:
            return None
        for sub in prog.subclasses(func.cls, strict=True):
            if prog.lookup(sub, func.name) is func and prog.lookup(sub, "__init__") is not init:
                return None
        return init
    if isinstance(f, ast.Attribute) and isinstance(f.value, ast.Name) and f.value.id == "self" and f.attr[:1].isupper():
        for k in prog.mro(func.cls):
            if not isinstance(k, str) and f.attr in k.nested:
                # a subclass may rebind the nested class; then the layout is not known here
                for sub in prog.subclasses(func.cls, strict=True):
                    if f.attr in sub.nested or f.attr in sub.attrs:
                        return None
                return prog.lookup(k.nested[f.attr], "__init__")
    return None


def resolved_target(prog, func, call):
    """-> (FuncInfo, skip_self) for a call with exactly one project target, else None"""
    calls = common.calls_of(prog)
    try:
        r = calls.resolve(func, call)
    except Exception:
        r = None
    t = None
    if r is not None and r.kind == "exact" and len(r.targets) == 1:
        t = r.targets[0]
    if t is None:
        t = _ctor_default_class(prog, func, call)
    if t is None:
        t = _own_class_ctor(prog, func, call)
    if t is None:
        return None
    c = call
    unbound = isinstance(c.func, ast.Attribute) and c.args and isinstance(c.args[0], ast.Name) and c.args[0].id == "self" \
        and norm.canon(c.func.value) != "self" and not isinstance(c.func.value, ast.Call) and t.cls is not None \
        and "classmethod" not in t.decorators
    return t, (not unbound)


# reviewed: the two call sites that cross two same-named slots on purpose
SWAP_OK = {
    ("matching.binary.UnionMatcher.replace", "matching.binary.AndMaybeMatcher.__init__"):
        "when only b can reach the threshold, b becomes the required side and a the optional one: AndMaybeMatcher(b, a) is the point",
    ("qparser.dateparse.Sequence.parse", "util.times.fill_in"):
        "fill_in(d, at): the date parsed so far is completed from the newly parsed element; the local is called `at`, like the parameter "
        "it does not fill",
    ("qparser.dateparse.Bag.parse", "util.times.fill_in"): "same as Sequence.parse",
}


def swapped_arguments(prog, funcs):
    """-> (number of bound calls, [(func, call, target, param, argument name, parameter that carries that name)])"""
    n = 0
    out = []
    for f in funcs:
        for c in norm.calls_in(f.node):
            rt = resolved_target(prog, f, c)
            if rt is None:
                continue
            t, skip_self = rt
            m, _ = common.bind_args(c, t, skip_self=skip_self)
            if not m:
                continue
            n += 1
            allp = t.params + [x.arg for x in t.node.args.kwonlyargs]
            pn = dict((_nm(p), p) for p in allp)
            for p, e in m.items():
                a = _argname(e)
                if a is None or a in ("self", "cls"):
                    continue
                if _nm(a) != _nm(p) and _nm(a) in pn and pn[_nm(a)] != p:
                    if (f.short, t.short) in SWAP_OK:
                        continue
                    out.append((f, c, t, p, a, pn[_nm(a)]))
            # crossed pair: `Cls(new_b, new_a)` for parameters (a, b) -- two arguments that carry each other's parameter name
            # as a suffix after a common prefix
            named = [(p, _argname(e)) for p, e in m.items()]
            named = [(p, a) for p, a in named if a and "_" in a]
            for p1, a1 in named:
                for p2, a2 in named:
                    if p1 < p2 and a1.rsplit("_", 1)[0] == a2.rsplit("_", 1)[0] and _nm(a1.rsplit("_", 1)[1]) == _nm(p2) \
                            and _nm(a2.rsplit("_", 1)[1]) == _nm(p1) and _nm(p1) != _nm(p2) and (f.short, t.short) not in SWAP_OK:
                        out.append((f, c, t, p1, a1, p2))
    return n, out


# reviewed: parameters that are deliberately not passed on
DROP_OK = {
    ("codec.memory.MemoryCodec.per_document_writer", "storage"): "the memory codec keeps everything in its own RAM storage/segment",
    ("codec.memory.MemoryCodec.per_document_writer", "segment"): "as above",
    ("codec.memory.MemoryCodec.field_writer", "storage"): "as above",
    ("codec.memory.MemoryCodec.field_writer", "segment"): "as above",
    ("codec.memory.MemoryCodec.per_document_reader", "storage"): "as above",
    ("codec.memory.MemoryCodec.per_document_reader", "segment"): "as above",
    ("codec.memory.MemoryCodec.terms_reader", "storage"): "as above",
    ("codec.memory.MemoryCodec.terms_reader", "segment"): "as above",
}


def dropped_parameters(prog, funcs):
    """-> (number of functions looked at, [(func, param, call, target)])"""
    n = 0
    out = []
    for f in funcs:
        if common.is_abstract_body(f) or common.body_is_trivial(f):
            continue
        a = f.node.args
        names = [x.arg for x in a.args + a.kwonlyargs]
        used = set(x.id for x in ast.walk(f.node) if isinstance(x, ast.Name))
        unused = [p for p in names if p not in used and p not in ("self", "cls")]
        n += 1
        if not unused:
            continue
        for c in norm.calls_in(f.node):
            rt = resolved_target(prog, f, c)
            if rt is None:
                # a method call that is resolved by hierarchy or by name only: the parameter is dropped if EVERY implementation the
                # call may reach has it and the call does not pass it (MultiReader.vector -> <reader>.vector(..., format_))
                try:
                    r = common.calls_of(prog).resolve(f, c)
                except Exception:
                    continue
                if r.kind in ("byname", "cha", "typed") and r.targets:
                    for p in unused:
                        if all(p in (t_.params + [x.arg for x in t_.node.args.kwonlyargs]) for t_ in r.targets) \
                                and not any(k.arg == p for k in c.keywords) and (f.short, p) not in DROP_OK:
                            m0, _ = common.bind_args(c, r.targets[0])
                            if m0 is not None and p not in m0:
                                out.append((f, p, c, r.targets[0]))
                continue
            t, skip_self = rt
            m, _ = common.bind_args(c, t, skip_self=skip_self)
            if m is None:
                continue
            tp = t.params + [x.arg for x in t.node.args.kwonlyargs]
            for p in unused:
                if p in tp and p not in m and (f.short, p) not in DROP_OK:
                    out.append((f, p, c, t))
    return n, out


def _make_g1(pid):
    def g1(ctx):
        prog = ctx.prog
        funcs = anchor_funcs(prog, pid)
        n, bad = swapped_arguments(prog, funcs)
        if n < 20:
            raise AnalysisError("%s-G1: only %d bound calls in the anchor files" % (pid, n))
        ctx.units["call_sites"] += n
        byf = {}
        for f, c, t, p, a, q in bad:
            byf.setdefault(f.short, []).append((f, c, t, p, a, q))
        ctx.ob("%s anchor files" % pid, not bad,
               "no resolved call passes a variable named after one parameter of the callee in the slot of another (%s)" % pid,
               detail="; ".join("%s line %d: `%s` is passed as %s(%s=...) although %s has a parameter `%s`"
                                % (f.short, c.lineno, a, t.short, p, t.short, q) for f, c, t, p, a, q in bad[:6]),
               loc=(bad[0][0].module.relpath + ":%d" % bad[0][1].lineno) if bad else None)
        for k in sorted(byf):
            f, c, t, p, a, q = byf[k][0]
            ctx.ob(f, False, "argument `%s` goes to the parameter of %s that carries its name" % (a, t.short),
                   detail="line %d: bound to `%s`, while the callee's `%s` is a different slot" % (c.lineno, p, q),
                   loc=ctx.nodeloc(f, c))
    return g1


# module-level functions whose signature is fixed by the slot they are plugged into (they may ignore what they are handed)
CALLBACK_SIGNATURES = {
    ("writing.NO_MERGE", "writer"): "merge policy: (writer, segments) -> segments",
    ("writing.CLEAR", "writer"): "merge policy",
    ("writing.CLEAR", "segments"): "merge policy: drops every segment by definition",
    ("highlight.SCORE", "fragment"): "fragment order function: (fragment) -> sort key; SCORE keeps the scored order",
    ("util.make_weighted_tree", "kwargs"): "imported by query.compound but called nowhere; nothing to forward to",
}


def unread_function_parameters(prog, funcs):
    """module-level functions (no interface to conform to) with a named parameter the body never reads"""
    out = []
    for f in funcs:
        if f.cls is not None or common.is_abstract_body(f) or common.body_is_trivial(f):
            continue
        a = f.node.args
        names = [x.arg for x in a.args + a.kwonlyargs] + ([a.kwarg.arg] if a.kwarg else []) + ([a.vararg.arg] if a.vararg else [])
        used = set(x.id for x in ast.walk(f.node) if isinstance(x, ast.Name))
        for p in names:
            if p not in used and not p.startswith("_") and (f.short, p) not in CALLBACK_SIGNATURES:
                out.append((f, p))
    return out


def _make_g2(pid):
    def g2(ctx):
        prog = ctx.prog
        funcs = anchor_funcs(prog, pid)
        n, bad = dropped_parameters(prog, funcs)
        for f, p in unread_function_parameters(prog, funcs):
            ctx.ob(f, False, "parameter `%s` of the function %s is read" % (p, f.name),
                   detail="a module-level function has no interface to conform to: a named parameter the body never reads is a setting "
                          "the caller passes in vain", loc=f.loc)
        if n < 20:
            raise AnalysisError("%s-G2: only %d functions in the anchor files" % (pid, n))
        ctx.ob("%s anchor files" % pid, True, "%d functions examined for parameters that stopped being forwarded" % n)
        seen = set()
        for f, p, c, t in bad:
            if (f.short, p) in seen:
                continue
            seen.add((f.short, p))
            ctx.ob(f, False, "parameter `%s` is used or passed on" % p,
                   detail="never read in the body, while %s (called at line %d) has a parameter `%s` and is not given it: the caller's "
                          "value is dropped" % (t.short, c.lineno, p), loc=ctx.nodeloc(f, c))
    return g2


for _p in _properties():
    _pid = _p["id"]
    rule(_pid, "G1", "K6", "no argument lands in the slot of another, same-named parameter of the resolved callee",
         clause="Necessary for every clause that depends on a value reaching the callee it was computed for: the rule decides the "
                "binding (which parameter an argument expression is bound to after resolution and keyword->positional normal form), not "
                "the values. Reviewed exceptions: generic.SWAP_OK.")(_make_g1(_pid))
    rule(_pid, "G2", "K6", "no parameter stops being forwarded to the callee that takes it",
         clause="A parameter the body never reads while an exactly resolved callee has a same-named parameter that the call leaves at its "
                "default is a dropped argument: the public signature promises a setting the implementation ignores. Reviewed exceptions: "
                "generic.DROP_OK.")(_make_g2(_pid))


# ---------------------------------------------------------------------------------------------------------------------------
#  G3  no attribute is read that nothing defines
#
#  The universe of attribute names that exist: every def/class/assigned name, every `x.attr = ...` store, every parameter and
#  keyword name in the whole package, plus dir() of the builtin types and of the standard-library modules the package imports
#  (and of the classes and a few instances of those modules).  An attribute read in a property's anchor code whose name is in
#  neither set raises AttributeError the first time the statement runs -- whatever the values.  Not judged: reads off a name
#  that an import binds to a non-project module (optional third-party back ends), names tested with hasattr()/getattr() in
#  the same function.

UNDEFINED_OK = {
    ("writing.add_spelling", "FST_EXT"):
        "legacy helper for the FST word graphs removed with whoosh.automata.fst: its first statement (`from whoosh.automata import fst`) "
        "already raises ImportError, nothing calls it",
    ("writing.add_spelling", "GraphWriter"): "as above",
    ("qparser.dateparse.Time12.props_to_date", "ampm"): "Props objects take their attributes from the named groups of the element's regular expression",
    ("qparser.dateparse.Time12.props_to_date", "mins"): "as above",
    ("qparser.dateparse.Time12.props_to_date", "secs"): "as above",
    ("qparser.dateparse.Time12.props_to_date", "usecs"): "as above",
    ("matching.mcore.ConstantScoreMatcher.skip_to_quality", "go_inactive"):
        "the only concrete subclass (ColumnMatcher) overrides skip_to_quality; judged per constructed class by C11-R9",
    ("util.synchronized", "_sync_lock"): "documented requirement on the decorated object; the decorator is applied nowhere",
}

_UNIVERSE = {}


def _imported_modules(prog):
    mods = set()
    for m in prog.modules.values():
        for n in ast.walk(m.tree):
            if isinstance(n, ast.Import):
                mods.update(a.name for a in n.names)
            elif isinstance(n, ast.ImportFrom) and n.level == 0 and n.module and not n.module.startswith("whoosh"):
                mods.add(n.module)
    return mods


def _stdlib_names(prog):
    import importlib
    import types
    import io
    import array
    import struct
    import datetime
    import re
    import threading
    import collections
    import decimal
    import logging
    import queue
    import time
    import zlib
    ext = set()

    def harvest(o):
        try:
            ext.update(dir(o))
        except Exception:
            pass
    for t in (str, bytes, bytearray, list, dict, set, frozenset, tuple, int, float, complex, object, type, BaseException, OSError,
              memoryview, slice, range, types.FunctionType, types.GeneratorType, types.MethodType, types.ModuleType, property):
        harvest(t)
    mods = _imported_modules(prog)
    for name in sorted(mods):
        if name.split(".")[0] == "whoosh":
            continue
        try:
            mod = importlib.import_module(name)
        except Exception:
            continue
        harvest(mod)
        for k in dir(mod):
            try:
                v = getattr(mod, k)
            except Exception:
                continue
            if isinstance(v, (type, types.ModuleType)) or callable(v):
                harvest(v)
    gen = (lambda: (yield))()
    for inst in (io.BytesIO(), io.StringIO(), array.array("i"), struct.Struct("i"), datetime.datetime(2000, 1, 1), datetime.date(2000, 1, 1),
                 datetime.timedelta(1), re.compile("a"), re.match("a", "a"), threading.Lock(), threading.RLock(), threading.Event(),
                 collections.deque(), collections.defaultdict(), decimal.Decimal(1), logging.getLogger("wv"), queue.Queue(), gen,
                 time.localtime(0), zlib.compressobj(), zlib.decompressobj()):
        harvest(inst)
    gen.close()
    return ext


def attribute_universe(prog):
    u = getattr(prog, "_attr_universe", None)
    if u is not None:
        return u
    defined = set()
    for m in prog.modules.values():
        for n in ast.walk(m.tree):
            if isinstance(n, (ast.FunctionDef, ast.ClassDef, ast.AsyncFunctionDef)):
                defined.add(n.name)
            elif isinstance(n, ast.Attribute) and isinstance(n.ctx, (ast.Store, ast.Del)):
                defined.add(n.attr)
            elif isinstance(n, ast.Name) and isinstance(n.ctx, ast.Store):
                defined.add(n.id)
            elif isinstance(n, ast.Call) and isinstance(n.func, ast.Name) and n.func.id == "setattr" and len(n.args) >= 2 \
                    and isinstance(n.args[1], ast.Constant) and isinstance(n.args[1].value, str):
                defined.add(n.args[1].value)
            elif isinstance(n, ast.keyword) and n.arg:
                defined.add(n.arg)
            elif isinstance(n, ast.arg):
                defined.add(n.arg)
            elif isinstance(n, ast.alias):
                defined.add((n.asname or n.name).split(".")[0])
    mods = frozenset(_imported_modules(prog))
    if mods not in _UNIVERSE:
        _UNIVERSE[mods] = _stdlib_names(prog)
    prog._attr_universe = (defined, _UNIVERSE[mods])
    return prog._attr_universe


def _foreign_module_names(prog, f):
    """local names that an import (module level or inside f) binds to something outside the package"""
    out = set()
    for tree in (f.module.tree, f.node):
        for n in ast.walk(tree):
            if isinstance(n, ast.Import):
                for a in n.names:
                    if a.name.split(".")[0] != "whoosh":
                        out.add((a.asname or a.name).split(".")[0])
            elif isinstance(n, ast.ImportFrom) and n.level == 0 and n.module and n.module.split(".")[0] != "whoosh":
                for a in n.names:
                    out.add(a.asname or a.name)
    # a local that holds what a call into such a module returned (`stemmer = Stemmer.Stemmer(lang)`)
    for n in ast.walk(f.node):
        if isinstance(n, ast.Assign) and len(n.targets) == 1 and isinstance(n.targets[0], ast.Name):
            base = n.value
            while isinstance(base, (ast.Attribute, ast.Call, ast.Subscript)):
                base = base.func if isinstance(base, ast.Call) else base.value
            if isinstance(base, ast.Name) and base.id in out:
                out.add(n.targets[0].id)
    return out


def undefined_attribute_names(prog, funcs):
    defined, ext = attribute_universe(prog)
    n = 0
    out = []
    for f in funcs:
        probed = set()
        for c in norm.calls_in(f.node):
            if isinstance(c.func, ast.Name) and c.func.id in ("hasattr", "getattr") and len(c.args) >= 2 \
                    and isinstance(c.args[1], ast.Constant):
                probed.add(c.args[1].value)
        foreign = None
        for x in ast.walk(f.node):
            if not (isinstance(x, ast.Attribute) and isinstance(x.ctx, ast.Load)):
                continue
            n += 1
            if x.attr in defined or x.attr in ext or x.attr in probed or (f.short, x.attr) in UNDEFINED_OK:
                continue
            if foreign is None:
                foreign = _foreign_module_names(prog, f)
            base = x.value
            while isinstance(base, (ast.Attribute, ast.Call, ast.Subscript)):
                base = base.func if isinstance(base, ast.Call) else base.value
            if isinstance(base, ast.Name) and base.id in foreign:
                continue
            out.append((f, x))
    return n, out


def _make_g3(pid):
    def g3(ctx):
        prog = ctx.prog
        funcs = anchor_funcs(prog, pid)
        n, bad = undefined_attribute_names(prog, funcs)
        if n < 100:
            raise AnalysisError("%s-G3: only %d attribute reads in the anchor files" % (pid, n))
        ctx.ob("%s anchor files" % pid, True, "%d attribute reads checked against the names the package and the standard library define" % n)
        seen = set()
        for f, x in bad:
            if (f.short, x.attr) in seen:
                continue
            seen.add((f.short, x.attr))
            ctx.ob(f, False, "attribute `%s` exists somewhere" % x.attr,
                   detail="line %d reads `%s`: no class, function, assignment or parameter of the package and no standard-library "
                          "object defines a `%s` -- AttributeError as soon as the statement runs" % (x.lineno, norm.canon(x), x.attr),
                   loc=ctx.nodeloc(f, x))
    return g3


for _p in _properties():
    rule(_p["id"], "G3", "K10", "no attribute is read that nothing in the package or the standard library defines",
         clause="Names only: the rule decides that an attribute name read in the property's anchor code exists at all (a method that "
                "was removed or renamed while a caller remained, a misspelt attribute). Reviewed exceptions: generic.UNDEFINED_OK; reads "
                "off modules imported from outside the package and names probed with hasattr/getattr are not judged.")(_make_g3(_p["id"]))


# ---------------------------------------------------------------------------------------------------------------------------
#  G4  a constructor stores its parameter, not a constant, under the parameter's name
#      (`def __init__(self, ..., boost=1.0): self.boost = 1.0` silently drops what the caller asked for)

def shadowed_ctor_parameters(prog, funcs):
    n = 0
    out = []
    for f in funcs:
        if f.name != "__init__" or f.cls is None:
            continue
        a = f.node.args
        names = [x.arg for x in a.args + a.kwonlyargs][1:]
        used = set(x.id for x in ast.walk(f.node) if isinstance(x, ast.Name))
        n += 1
        for q in names:
            if q in used:
                continue
            for st in ast.walk(f.node):
                if isinstance(st, ast.Assign) and any(norm.canon(t) == "self." + q for t in st.targets) and isinstance(st.value, ast.Constant):
                    out.append((f, q, st))
    return n, out


def _make_g4(pid):
    def g4(ctx):
        prog = ctx.prog
        funcs = anchor_funcs(prog, pid)
        n, bad = shadowed_ctor_parameters(prog, funcs)
        ctx.ob("%s anchor files" % pid, True, "%d constructors examined for parameters replaced by a constant" % n)
        for f, q, st in bad:
            ctx.ob(f, False, "self.%s is bound from the parameter `%s`" % (q, q),
                   detail="the constructor never reads `%s` and stores the constant %s under its name" % (q, norm.canon(st.value)),
                   loc=ctx.nodeloc(f, st))
    return g4


for _p in _properties():
    rule(_p["id"], "G4", "K6", "a constructor stores its parameter, not a constant, under the parameter's name",
         clause="`def __init__(self, p=1.0): self.p = 1.0` with p never read: the object ignores what it was constructed with. Decides the "
                "binding only.")(_make_g4(_p["id"]))


# ---------------------------------------------------------------------------------------------------------------------------
#  G5  every attribute a concrete class reads through self is bound somewhere in that class's hierarchy
#      (common.unbound_attribute_reads: methods reachable from the public ones, resolved along the MRO, following self.m() and
#      explicit Base.m(self) calls; bound = class bodies and any `self.a = ...` of the MRO, `obj.a = ...` anywhere, what a strict
#      subclass binds, names probed with hasattr/getattr).  The matcher, column and writer hierarchies have had this rule as
#      C11-R9 / C08-R8 / C18-R6; G5 runs it for every other class of the property's anchor files.

UNBOUND_OK = {
    ("qparser.plugins.FieldsPlugin", "nodetype"):
        "TaggingPlugin.create() is only reached through RegexTagger.match() of the plugin itself; FieldsPlugin.taggers() returns its own "
        "FieldnameTagger and never registers the plugin as a tagger",
}
_G5_COVERED_ELSEWHERE = ("matching.mcore.Matcher", "columns.Column", "columns.ColumnWriter", "columns.ColumnReader", "writing.IndexWriter")


def _make_g5(pid):
    def g5(ctx):
        prog = ctx.prog
        files = None
        for p in _properties():
            if p["id"] == pid:
                files = set(p["anchors"]["files"])
        covered = set()
        for b in _G5_COVERED_ELSEWHERE:
            try:
                covered.update(k.qualname for k in prog.subclasses(prog.cls(b)))
            except Exception:
                raise AnalysisError("G5: hierarchy root %s vanished" % b)
        built = common.constructed_names(prog)
        n = 0
        for K in sorted(prog.classes.values(), key=lambda k: k.qualname):
            if K.module.relpath not in files or K.qualname in covered:
                continue
            if not (K.name in built or not prog.subclasses(K, strict=True)):
                continue
            n += 1
            bad = [(a, f, line, entry) for a, f, line, entry in common.unbound_attribute_reads(prog, K) if (K.short, a) not in UNBOUND_OK]
            by_attr = {}
            for a, f, line, entry in bad:
                by_attr.setdefault(a, []).append(f)
            ctx.ob(K, not bad, "every attribute %s reads through self is bound in its hierarchy" % K.name,
                   detail="; ".join("self.%s (read by %s)" % (a, ", ".join(sorted(set(f.short for f in fs)))) for a, fs in sorted(by_attr.items())) +
                          (": nothing binds it -- AttributeError when the method runs" if bad else ""), loc=K.loc)
        if n < 3:
            raise AnalysisError("%s-G5: only %d concrete classes in the anchor files" % (pid, n))
    return g5


for _p in _properties():
    rule(_p["id"], "G5", "K10", "every attribute a concrete class reads through self is bound in its hierarchy",
         clause="Per concrete class (constructed somewhere, or without subclasses) of the anchor files: a `self.a` read in a method reachable "
                "from the public methods, resolved along the class's own MRO, names an attribute that some class body or method of that MRO "
                "binds (or a subclass, or an `obj.a = ...` anywhere). A setting that sibling classes define and one class lacks "
                "(DisjunctionMax.intersect_merge) only fails on the path that reads it. Reviewed exceptions: generic.UNBOUND_OK; the matcher, "
                "column and writer hierarchies are judged by C11-R9 / C08-R8 / C18-R6.")(_make_g5(_p["id"]))


# ---------------------------------------------------------------------------------------------------------------------------
#  G6  zero is a value: a numeric parameter is not replaced by a fallback through `or`
#      (`self.prefixlength = prefixlength or 1` turns an explicit 0 into 1)

def falsy_number_fallbacks(funcs):
    n = 0
    out = []
    for f in funcs:
        a = f.node.args
        params = [x.arg for x in a.args]
        defaults = dict(zip(params[len(params) - len(a.defaults):], a.defaults))
        for k_, d_ in zip(a.kwonlyargs, a.kw_defaults):
            if d_ is not None:
                defaults[k_.arg] = d_
        nums = set(p for p, d in defaults.items() if isinstance(d, ast.Constant) and isinstance(d.value, (int, float))
                   and not isinstance(d.value, bool))
        if not nums:
            continue
        n += 1
        rebound = set(x.id for x in ast.walk(f.node) if isinstance(x, ast.Name) and isinstance(x.ctx, ast.Store))
        for x in ast.walk(f.node):
            if isinstance(x, ast.BoolOp) and isinstance(x.op, ast.Or) and isinstance(x.values[0], ast.Name) and x.values[0].id in nums \
                    and x.values[0].id not in rebound and isinstance(x.values[1], ast.Constant) and isinstance(x.values[1].value, (int, float)) \
                    and not isinstance(x.values[1].value, bool) and x.values[1].value != 0:
                out.append((f, x))
    return n, out


def _make_g6(pid):
    def g6(ctx):
        prog = ctx.prog
        # the detector must recognise its own example
        probe = ast.parse("def f(self, a, dist=1, prefix=0):\n    self.dist = dist or 1\n    self.prefix = prefix or 1\n").body[0]

        class _F(object):
            node = probe
        if len(falsy_number_fallbacks([_F])[1]) != 2:
            raise AnalysisError("G6 detector does not match its own positive example")
        funcs = anchor_funcs(prog, pid)
        n, bad = falsy_number_fallbacks(funcs)
        ctx.ob("%s anchor files" % pid, True, "%d functions with numeric parameter defaults examined for `param or <number>`" % n)
        for f, x in bad:
            ctx.ob(f, False, "an explicit 0 for `%s` is kept" % x.values[0].id,
                   detail="`%s`: the parameter's default is a number, so 0 is a value a caller can mean; `or` replaces it by %s"
                          % (norm.canon(x), norm.canon(x.values[1])), loc=ctx.nodeloc(f, x))
    return g6


for _p in _properties():
    rule(_p["id"], "G6", "K6", "a numeric parameter is not replaced by a non-zero fallback through `or` (zero is a value)",
         clause="For a parameter whose default is a number, `p or c` with a non-zero numeric c silently turns an explicit 0 into c "
                "(prefixlength=0, maxdist=0, boost=0, slop=0 are all meaningful). Expected count on the tree: zero; the detector is "
                "checked against a built-in example on every run.")(_make_g6(_p["id"]))


# ---------------------------------------------------------------------------------------------------------------------------
#  G7  every global name a function reads is bound by its module (or is a builtin)
#      symtable over the module source gives, per function, the names it treats as globals; the module binds a name through a
#      def/class/assignment/import at any nesting of its top-level statements (if/try/with/for), star imports are followed into the
#      package.  What is left would be a NameError when the statement runs.

import builtins as _builtins
import symtable as _symtable

GLOBAL_OK = {
    ("whoosh.fields", "ReverseField.__init__", "BasicFormat"):
        "ReverseField is a leftover nothing in the package or its tests constructs; the format class it names does not exist (it would "
        "raise NameError on construction). Not a field type the properties quantify over",
    ("whoosh.util", "random_bytes", "array"): "Python 2 branch (sys.version_info[0] < 3) only",
}
_PY_NAMES = set(dir(_builtins)) | set("__file__ __name__ __doc__ __builtins__ __path__ __package__ __spec__ __loader__ unicode xrange basestring long "
                                      "unichr raw_input reduce cmp file buffer WindowsError".split())


def _module_bindings(prog, m, seen=None):
    seen = seen if seen is not None else set()
    if m.name in seen:
        return set()
    seen.add(m.name)
    out = set()
    tree = ast.parse(m.source)

    def names_of(t):
        return [x.id for x in ast.walk(t) if isinstance(x, ast.Name)]

    def top(body):
        for st in body:
            if isinstance(st, (ast.FunctionDef, ast.ClassDef, ast.AsyncFunctionDef)):
                out.add(st.name)
            elif isinstance(st, ast.Assign):
                for t in st.targets:
                    out.update(names_of(t))
            elif isinstance(st, (ast.AugAssign, ast.AnnAssign)):
                out.update(names_of(st.target))
            elif isinstance(st, ast.Import):
                for a in st.names:
                    out.add((a.asname or a.name).split(".")[0])
            elif isinstance(st, ast.ImportFrom):
                for a in st.names:
                    if a.name == "*":
                        m2 = prog.modules.get(prog._abs_module(m, st.module, st.level))
                        if m2 is not None:
                            out.update(_module_bindings(prog, m2, seen))
                        else:
                            out.add("*")
                    else:
                        out.add(a.asname or a.name)
            elif isinstance(st, (ast.If, ast.Try, ast.With, ast.For, ast.While)):
                for fld in ("body", "orelse", "finalbody"):
                    top(getattr(st, fld, None) or [])
                if isinstance(st, ast.Try):
                    for h in st.handlers:
                        if h.name:
                            out.add(h.name)
                        top(h.body)
                if isinstance(st, ast.For):
                    out.update(names_of(st.target))
                if isinstance(st, ast.With):
                    for i in st.items:
                        if i.optional_vars is not None:
                            out.update(names_of(i.optional_vars))
    top(tree.body)
    return out


def unbound_globals(prog, m):
    try:
        st = _symtable.symtable(m.source, m.path, "exec")
    except Exception:
        return None
    bound = _module_bindings(prog, m)
    if "*" in bound:
        return []
    out = []

    def walk(tab, path):
        for ch in tab.get_children():
            q = (path + "." if path else "") + ch.get_name()
            if ch.get_type() == "function":
                for s in ch.get_symbols():
                    if s.is_global() and s.is_referenced() and not s.is_assigned():
                        nm = s.get_name()
                        if nm not in bound and nm not in _PY_NAMES and (m.name, q, nm) not in GLOBAL_OK:
                            out.append((q, nm, ch.get_lineno()))
            walk(ch, q)
    walk(st, "")
    return out


def _make_g7(pid):
    def g7(ctx):
        prog = ctx.prog
        files = None
        for p in _properties():
            if p["id"] == pid:
                files = set(p["anchors"]["files"])
        n = 0
        for m in sorted(prog.modules.values(), key=lambda x: x.name):
            if m.relpath not in files:
                continue
            r = unbound_globals(prog, m)
            if r is None:
                raise AnalysisError("%s-G7: symtable could not read %s" % (pid, m.relpath))
            n += 1
            ctx.ob(m.name, not r, "every global name the functions of %s read is bound by the module" % m.name,
                   detail="; ".join("%s reads `%s` (line %d)" % x for x in r[:6]) + (": NameError when the statement runs" if r else ""),
                   loc=m.relpath + (":%d" % r[0][2] if r else ":1"))
        if n < 3:
            raise AnalysisError("%s-G7: only %d anchor modules" % (pid, n))
    return g7


for _p in _properties():
    rule(_p["id"], "G7", "K10", "every global name a function reads is bound by its module",
         clause="Per anchor module: a name a function uses as a global (symbol table of the module source) is bound at module level -- "
                "def, class, assignment, import, star import followed into the package -- or is a builtin. A helper renamed or an import "
                "dropped while a rarely run branch still uses the old name raises NameError only on that branch. Reviewed exceptions: "
                "generic.GLOBAL_OK.")(_make_g7(_p["id"]))


# ---------------------------------------------------------------------------------------------------------------------------
#  G8  document numbers range over doc_count_all(): the live count doc_count() is never a bound, an offset step or a table size
#      (`docnum < offset + r.doc_count()` and `colwriter.finish(reader.doc_count())` are right only until the first deletion)

_DOCNUM_WORDS = ("offset", "docnum", "docid", "docbase", "doc_offset", "base")
_SIZE_TAKERS = ("finish", "fill", "range", "xrange")


def _mentions_docnum(e):
    for x in ast.walk(e):
        nm = x.id if isinstance(x, ast.Name) else x.attr if isinstance(x, ast.Attribute) else None
        if nm and any(w in nm.lower() for w in _DOCNUM_WORDS):
            return True
    return False


def _count_calls(e, name):
    return [x for x in ast.walk(e) if isinstance(x, ast.Call) and isinstance(x.func, ast.Attribute) and x.func.attr == name
            and not x.args and not x.keywords]


def live_count_as_bound(funcs):
    """-> (number of doc_count_all() bounds seen, [(func, node, why)] for doc_count() in such a position)"""
    n = 0
    out = []
    for f in funcs:
        if f.name in ("doc_count", "doc_count_all"):
            continue
        if not any(isinstance(x, ast.Attribute) and x.attr in ("doc_count", "doc_count_all") for x in ast.walk(f.node)):
            continue
        for x in ast.walk(f.node):
            sites = []
            if isinstance(x, ast.BinOp) and isinstance(x.op, (ast.Add, ast.Sub)):
                sites = [(x.left, x.right), (x.right, x.left)]
            elif isinstance(x, ast.Compare) and len(x.ops) == 1 and isinstance(x.ops[0], (ast.Lt, ast.LtE, ast.Gt, ast.GtE)):
                sites = [(x.left, x.comparators[0]), (x.comparators[0], x.left)]
            elif isinstance(x, ast.Call) and (getattr(x.func, "attr", None) or getattr(x.func, "id", None)) in _SIZE_TAKERS:
                sites = [(a, None) for a in x.args]
            for mine, other in sites:
                try:
                    ex = norm.inline_defs(mine, f.node)
                except Exception:
                    ex = mine
                if other is not None:
                    try:
                        oth = norm.inline_defs(other, f.node)
                    except Exception:
                        oth = other
                    if not (_mentions_docnum(oth) or _mentions_docnum(other)):
                        continue
                    # only the operand itself (or a sum it heads), not a call that merely contains the count somewhere
                    if not (isinstance(ex, ast.Call) or isinstance(ex, ast.BinOp)):
                        continue
                if _count_calls(ex, "doc_count_all"):
                    n += 1
                live = [c for c in _count_calls(ex, "doc_count") if not isinstance(ex, ast.Call) or c is ex or other is None]
                if live:
                    out.append((f, x, "a %s" % ("size argument of %s()" % (getattr(x.func, "attr", None) or x.func.id)
                                                if other is None else "bound/step for a document number")))
    return n, out


def _make_g8(pid):
    def g8(ctx):
        prog = ctx.prog
        probe = ast.parse("def f(self, reader, docnum, w):\n    for r, offset in reader.leaf_readers():\n"
                          "        if docnum < offset + r.doc_count():\n            return r\n"
                          "    w.finish(reader.doc_count())\n    n = reader.doc_count()\n    return min(n, 5)\n").body[0]

        class _F(object):
            node = probe
            name = "f"
        if len(set(x.lineno for _, x, _w in live_count_as_bound([_F])[1])) != 2:
            raise AnalysisError("G8 detector does not match its own positive example")
        funcs = anchor_funcs(prog, pid)
        scope = "%s anchor files" % pid
        if any(f.module.relpath.endswith(("whoosh/reading.py", "whoosh/searching.py", "whoosh/writing.py")) or "/codec/" in f.module.relpath
               for f in funcs):
            # the property is stated over documents: every reader-level module numbers them, whichever file the anchor names
            funcs = sorted((f for f in prog.functions.values() if not f.module.name.startswith(("whoosh.lang", "whoosh.support"))),
                           key=lambda f: f.qualname)
            scope = "whoosh (all modules; %s is stated over documents)" % pid
        n, bad = live_count_as_bound(funcs)
        ctx.ob(scope, True, "%d document-number bounds / table sizes taken from doc_count_all()" % n)
        seen = set()
        for f, x, why in bad:
            k = (f.qualname, getattr(x, "lineno", 0))
            if k in seen:
                continue
            seen.add(k)
            ctx.ob(f, False, "document numbers are bounded by doc_count_all(), not by the live count",
                   detail="`%s` uses doc_count() as %s: the live count is smaller than the highest document number plus one as soon as "
                          "a document is deleted" % (norm.canon(x), why), loc=ctx.nodeloc(f, x))
    return g8


for _p in _properties():
    rule(_p["id"], "G8", "K6", "the live document count is never a bound, step or table size for document numbers",
         clause="Document numbers of a segment run over range(doc_count_all()); deleted documents keep their number. An expression that "
                "adds doc_count() to an offset, compares a document number with it, or passes it as the row count of a per-document "
                "table (finish/fill/range) is right only until the first deletion. Expected count on the tree: zero; the detector "
                "is checked against a built-in example on every run.")(_make_g8(_p["id"]))


# ---------------------------------------------------------------------------------------------------------------------------
#  G9  bytes read from a file or packed by struct are never concatenated with a str literal
#      (`f.read(3) + "\x00"` is a TypeError on Python 3; it was bytes + bytes on Python 2)

_BYTES_NAMES = ("emptybytes",)


def _is_bytes_expr(e):
    while isinstance(e, ast.Subscript):
        e = e.value
    if isinstance(e, ast.Constant):
        return isinstance(e.value, bytes)
    if isinstance(e, ast.Name):
        return e.id in _BYTES_NAMES
    if isinstance(e, ast.Call):
        nm = getattr(e.func, "attr", None) or getattr(e.func, "id", None) or ""
        if nm in ("read", "getvalue", "tobytes", "tostring", "b", "dumps") or nm.startswith("pack_") or nm == "pack":
            return True
        if nm == "encode" and isinstance(e.func, ast.Attribute):
            return True
    return False


def bytes_plus_text(funcs):
    n = 0
    out = []
    for f in funcs:
        for x in ast.walk(f.node):
            pairs = []
            if isinstance(x, ast.BinOp) and isinstance(x.op, ast.Add):
                pairs = [(x.left, x.right), (x.right, x.left)]
            elif isinstance(x, ast.AugAssign) and isinstance(x.op, ast.Add):
                pairs = [(x.value, None)]
            for a, other in pairs:
                if other is None:
                    # buf += "..." where buf was bound to bytes in this function
                    if isinstance(x.target, ast.Name) and isinstance(a, ast.Constant) and isinstance(a.value, str):
                        binds = [s.value for s in ast.walk(f.node) if isinstance(s, ast.Assign) and len(s.targets) == 1
                                 and isinstance(s.targets[0], ast.Name) and s.targets[0].id == x.target.id]
                        if binds and all(_is_bytes_expr(b_) for b_ in binds):
                            out.append((f, x))
                    continue
                if _is_bytes_expr(a):
                    n += 1
                    if isinstance(other, ast.Constant) and isinstance(other.value, str):
                        out.append((f, x))
    return n, out


def _make_g9(pid):
    def g9(ctx):
        prog = ctx.prog
        probe = ast.parse("def f(self, f, v):\n    a = f.read(3) + '\\x00'\n    b2 = pack_uint_le(v)[:3] + b'\\x00'\n"
                          "    buf = emptybytes\n    buf += 'x'\n    return a, b2, buf\n").body[0]

        class _F(object):
            node = probe
            name = "f"
        if len(set(x.lineno for _, x in bytes_plus_text([_F])[1])) != 2:
            raise AnalysisError("G9 detector does not match its own positive example")
        funcs = anchor_funcs(prog, pid)
        n, bad = bytes_plus_text(funcs)
        ctx.ob("%s anchor files" % pid, True, "%d concatenations with file/struct bytes examined for a str literal operand" % n)
        seen = set()
        for f, x in bad:
            k = (f.qualname, x.lineno)
            if k in seen:
                continue
            seen.add(k)
            ctx.ob(f, False, "bytes are joined to bytes",
                   detail="`%s` adds a str literal to bytes: TypeError when the statement runs" % norm.canon(x), loc=ctx.nodeloc(f, x))
    return g9


for _p in _properties():
    rule(_p["id"], "G9", "K6", "bytes read from a file or packed by struct are never concatenated with a str literal",
         clause="An operand produced by read()/getvalue()/pack_*()/encode()/b() or the name emptybytes is bytes; `+` (or `+=` on a name "
                "bound only to such values) with a str literal raises TypeError on Python 3 -- the code path was written for Python 2. "
                "Expected count on the tree: zero; the detector is checked against a built-in example on every run.")(_make_g9(_p["id"]))


# ---------------------------------------------------------------------------------------------------------------------------
#  G10  get-or-create tests the container it fills
#       (`if name not in self.files: self.locks[name] = RamLock()` makes a new lock on every call)

def _subscript_store_targets(body, key):
    out = []
    for st in body:
        for x in ast.walk(st):
            if isinstance(x, (ast.FunctionDef, ast.Lambda)):
                continue
            tg = []
            if isinstance(x, ast.Assign):
                tg = x.targets
            elif isinstance(x, ast.AugAssign):
                tg = [x.target]
            for t in tg:
                if isinstance(t, ast.Subscript) and norm.canon(t.slice) == key:
                    out.append(t)
    return out


def get_or_create_mismatches(funcs):
    n = 0
    out = []
    for f in funcs:
        for x in ast.walk(f.node):
            if not isinstance(x, ast.If) or x.orelse:
                continue
            t = x.test
            if not (isinstance(t, ast.Compare) and len(t.ops) == 1 and isinstance(t.ops[0], ast.NotIn)):
                continue
            key = norm.canon(t.left)
            cont = t.comparators[0]
            if not isinstance(cont, (ast.Attribute, ast.Name)):
                continue
            stores = _subscript_store_targets(x.body, key)
            if not stores:
                continue
            filled = set(norm.canon(s.value) for s in stores)
            tested = norm.canon(cont)
            n += 1
            if tested in filled:
                continue
            # the tested container is filled elsewhere in the body under the same key (B.add(key), B.append(key)) -> a pair of
            # containers kept in step, not a get-or-create
            in_step = any(isinstance(c, ast.Call) and isinstance(c.func, ast.Attribute) and norm.canon(c.func.value) == tested
                          and c.func.attr in ("add", "append", "setdefault", "update", "insert")
                          for st in x.body for c in ast.walk(st))
            if in_step:
                continue
            # only the plain idiom: single store, and what follows reads the filled container under the key
            if len(stores) == 1 and all(isinstance(s.value, (ast.Attribute, ast.Name)) for s in stores):
                out.append((f, x, tested, sorted(filled)[0], key))
    return n, out


def _make_g10(pid):
    def g10(ctx):
        prog = ctx.prog
        probe = ast.parse("def f(self, name):\n    if name not in self.files:\n        self.locks[name] = object()\n"
                          "    if name not in self.locks:\n        self.locks[name] = object()\n    return self.locks[name]\n").body[0]

        class _F(object):
            node = probe
            name = "f"
        if len(get_or_create_mismatches([_F])[1]) != 1:
            raise AnalysisError("G10 detector does not match its own positive example")
        funcs = anchor_funcs(prog, pid)
        n, bad = get_or_create_mismatches(funcs)
        ctx.ob("%s anchor files" % pid, True, "%d `if k not in C: D[k] = ...` get-or-create sites examined for C is D" % n)
        for f, x, tested, filled, key in bad:
            ctx.ob(f, False, "the get-or-create for `%s` tests the container it fills" % key,
                   detail="`if %s not in %s:` guards `%s[%s] = ...`: the test never becomes false by the assignment, so a new "
                          "object replaces the stored one on every call" % (key, tested, filled, key), loc=ctx.nodeloc(f, x))
    return g10


for _p in _properties():
    rule(_p["id"], "G10", "K6", "a get-or-create tests the container it fills",
         clause="`if k not in C: D[k] = new` with C and D different containers, where nothing in the branch also records k in C, "
                "creates a new object on every call (RamStorage.lock would hand every writer its own lock). Expected count on the "
                "tree: zero; the detector is checked against a built-in example on every run.")(_make_g10(_p["id"]))


# ---------------------------------------------------------------------------------------------------------------------------
#  G11  str.strip/lstrip/rstrip take a character SET: a multi-character literal with letters or digits is an affix mistaken for one
#       (`k.rstrip("_B")` also eats the B of "abstract_B"[:-2] == "abstract" -> "abstract_B".rstrip("_B") == "abstract" but
#        "sizeKB_B".rstrip("_B") == "sizeK")

def affix_strips(funcs):
    n = 0
    out = []
    for f in funcs:
        for x in ast.walk(f.node):
            if isinstance(x, ast.Call) and isinstance(x.func, ast.Attribute) and x.func.attr in ("strip", "lstrip", "rstrip") \
                    and len(x.args) == 1 and isinstance(x.args[0], ast.Constant) and isinstance(x.args[0].value, (str, bytes)):
                n += 1
                v = x.args[0].value
                if isinstance(v, bytes):
                    v = v.decode("latin-1")
                if len(v) >= 2 and any(ch.isalnum() for ch in v) and any(not ch.isalnum() and not ch.isspace() for ch in v):
                    out.append((f, x, v))
    return n, out


def _make_g11(pid):
    def g11(ctx):
        prog = ctx.prog
        probe = ast.parse("def f(k):\n    a = k.rstrip('_B')\n    b = k.strip(' \\t')\n    c = k.rstrip('0123456789')\n    return a, b, c\n").body[0]

        class _F(object):
            node = probe
            name = "f"
        if len(affix_strips([_F])[1]) != 1:
            raise AnalysisError("G11 detector does not match its own positive example")
        funcs = anchor_funcs(prog, pid)
        n, bad = affix_strips(funcs)
        ctx.ob("%s anchor files" % pid, True, "%d strip/lstrip/rstrip calls with a literal argument examined" % n)
        for f, x, v in bad:
            ctx.ob(f, False, "strip() is given a character set, not an affix",
                   detail="`%s`: %r mixes a separator with letters/digits -- it reads as a suffix/prefix, but strip removes any run "
                          "of these characters (a name ending in one of them loses it too)" % (norm.canon(x), v),
                   loc=ctx.nodeloc(f, x))
    return g11


for _p in _properties():
    rule(_p["id"], "G11", "K6", "strip/lstrip/rstrip are not used to cut a literal affix",
         clause="str.rstrip(chars) removes any trailing run of the characters, not the string: a literal that mixes a separator with "
                "letters or digits ('_B', '.py', '-1') is an affix written as a set. Expected count on the tree: zero; the "
                "detector is checked against a built-in example on every run.")(_make_g11(_p["id"]))


# ---------------------------------------------------------------------------------------------------------------------------
#  G12  a pure delegation returns what it delegates
#       (`def parse_range(self, ...): self.subfield.parse_range(...)` answers None whatever the wrapped field says)

def _body_without_doc(node):
    b = list(node.body)
    if b and isinstance(b[0], ast.Expr) and isinstance(b[0].value, ast.Constant) and isinstance(b[0].value.value, str):
        b = b[1:]
    return b


def dropped_delegation_results(prog, funcs):
    n = 0
    out = []
    byname = {}
    for g in prog.functions.values():
        byname.setdefault(g.name, []).append(g)

    def returns_value(g):
        for r in common.returns_of(g):
            v = r.value
            if v is not None and not (isinstance(v, ast.Constant) and v.value is None):
                return True
        return False
    for f in funcs:
        if f.cls is None or f.name.startswith("__"):
            continue
        b = _body_without_doc(f.node)
        if len(b) != 1 or not isinstance(b[0], (ast.Expr, ast.Return)):
            continue
        c = b[0].value
        if not (isinstance(c, ast.Call) and isinstance(c.func, ast.Attribute) and c.func.attr == f.name):
            continue
        recv = norm.canon(c.func.value)
        if not recv.startswith("self.") or recv == "self":
            continue
        n += 1
        if isinstance(b[0], ast.Return):
            continue
        impls = [g for g in byname.get(f.name, []) if g is not f and g.cls is not None and not common.is_abstract_body(g)]
        valued = [g for g in impls if returns_value(g)]
        if valued and len(valued) * 2 >= len(impls):
            out.append((f, c, recv, valued))
    return n, out


def _make_g12(pid):
    def g12(ctx):
        prog = ctx.prog
        funcs = anchor_funcs(prog, pid)
        n, bad = dropped_delegation_results(prog, funcs)
        ctx.ob("%s anchor files" % pid, True, "%d one-line delegations `self.x.m(...)` inside a method m examined" % n)
        for f, c, recv, valued in bad:
            ctx.ob(f, False, "the delegation to %s.%s() returns the delegate's answer" % (recv, f.name),
                   detail="`%s` is the whole body and its value is dropped, but %s return a value: the wrapper always answers None"
                          % (norm.canon(c)[:90], ", ".join(sorted(g.short for g in valued))[:160]), loc=ctx.nodeloc(f, c))
    return g12


for _p in _properties():
    rule(_p["id"], "G12", "K6", "a pure delegation returns what it delegates",
         clause="A method m whose whole body is the call self.<attr>.m(...) forwards a request to a wrapped object. When the "
                "implementations of m elsewhere in the package return a value, the wrapper must return the call's value too; an "
                "expression statement makes it answer None whatever the wrapped object says (FieldWrapper.parse_range).")(_make_g12(_p["id"]))


# ---------------------------------------------------------------------------------------------------------------------------
#  G13  segment ranges are half-open: a number compared with the NEXT entry of an offsets table is compared strictly
#       (`offsets[k] <= n <= offsets[k + 1]` gives the first document of segment k+1 to segment k)

def _is_offsets_table(e):
    t = e.id if isinstance(e, ast.Name) else e.attr if isinstance(e, ast.Attribute) else None
    return t is not None and t.lower().lstrip("_").endswith("offsets")


def _next_entry(e):
    """T[k + 1] of an offsets table T"""
    if not (isinstance(e, ast.Subscript) and _is_offsets_table(e.value)):
        return False
    i = e.slice
    return isinstance(i, ast.BinOp) and isinstance(i.op, ast.Add) and (
        (isinstance(i.right, ast.Constant) and i.right.value == 1) or (isinstance(i.left, ast.Constant) and i.left.value == 1))


def closed_segment_ranges(funcs):
    n = 0
    out = []
    for f in funcs:
        for x in ast.walk(f.node):
            if not isinstance(x, ast.Compare):
                continue
            terms = [x.left] + list(x.comparators)
            for i, op in enumerate(x.ops):
                a, b = terms[i], terms[i + 1]
                if _next_entry(b) and not _next_entry(a):
                    n += 1
                    if isinstance(op, ast.LtE):
                        out.append((f, x, "<="))
                    elif isinstance(op, ast.Gt):
                        out.append((f, x, ">"))     # `n > T[k+1]` as "beyond segment k" forgets n == T[k+1]
                elif _next_entry(a) and not _next_entry(b):
                    n += 1
                    if isinstance(op, ast.GtE):
                        out.append((f, x, ">="))
                    elif isinstance(op, ast.Lt):
                        out.append((f, x, "<"))
    return n, out


def _make_g13(pid):
    def g13(ctx):
        prog = ctx.prog
        probe = ast.parse("def f(self, n, k):\n    offsets = self.offsets\n    if offsets[k] <= n <= offsets[k + 1]:\n        return k\n"
                          "    if offsets[k] <= n < offsets[k + 1]:\n        return k\n").body[0]

        class _F(object):
            node = probe
            name = "f"
        if len(closed_segment_ranges([_F])[1]) != 1:
            raise AnalysisError("G13 detector does not match its own positive example")
        funcs = anchor_funcs(prog, pid)
        n, bad = closed_segment_ranges(funcs)
        ctx.ob("%s anchor files" % pid, True, "%d comparisons with the next entry of an offsets table examined" % n)
        for f, x, op in bad:
            ctx.ob(f, False, "a number is compared strictly with the next segment's offset",
                   detail="`%s`: offsets[k + 1] is the first number of the NEXT segment, so the range of segment k is "
                          "offsets[k] <= n < offsets[k + 1]; with `%s` the boundary number goes to the wrong segment" % (norm.canon(x), op),
                   loc=ctx.nodeloc(f, x))
    return g13


for _p in _properties():
    rule(_p["id"], "G13", "K6", "segment ranges over an offsets table are half-open",
         clause="An offsets table holds the first document number of each segment, so entry k + 1 belongs to the next segment: a "
                "number is inside segment k iff offsets[k] <= n < offsets[k + 1]. Any comparison of a number with T[k + 1] (T an "
                "*offsets table) that admits equality on the segment-k side is reported. Expected count on the tree: zero; the "
                "detector is checked against a built-in example on every run.")(_make_g13(_p["id"]))


# ---------------------------------------------------------------------------------------------------------------------------
#  G14  a memo is keyed by everything that varies in what it remembers
#       (`lens[docnum] = length(docnum, fieldname)` inside a loop over (fieldname, docnum): the second field reads the first one's)

def underkeyed_memos(funcs):
    n = 0
    out = []
    for f in funcs:
        dicts = set()
        for st in ast.walk(f.node):
            if isinstance(st, ast.Assign) and len(st.targets) == 1 and isinstance(st.targets[0], ast.Name) and (
                    (isinstance(st.value, ast.Dict) and not st.value.keys) or
                    (isinstance(st.value, ast.Call) and isinstance(st.value.func, ast.Name) and st.value.func.id in ("dict", "defaultdict")
                     and not st.value.args and not st.value.keywords)):
                dicts.add(st.targets[0].id)
        if not dicts:
            continue
        for lp in ast.walk(f.node):
            if not isinstance(lp, (ast.For, ast.While)):
                continue
            body_nodes = [x for st in lp.body for x in ast.walk(st)]
            stored = set()
            if isinstance(lp, ast.For):
                stored |= set(x.id for x in ast.walk(lp.target) if isinstance(x, ast.Name))
            for x in body_nodes:
                if isinstance(x, ast.Name) and isinstance(x.ctx, ast.Store):
                    stored.add(x.id)
            for st in body_nodes:
                if not isinstance(st, ast.Assign) or not isinstance(st.value, ast.Call):
                    continue
                for t in st.targets:
                    if not (isinstance(t, ast.Subscript) and isinstance(t.value, ast.Name) and t.value.id in dicts):
                        continue
                    c_ = t.value.id
                    if c_ in stored:
                        continue            # the dict itself is re-made inside the loop
                    if any(isinstance(x, ast.Call) and isinstance(x.func, ast.Attribute) and x.func.attr == "clear" and
                           isinstance(x.func.value, ast.Name) and x.func.value.id == c_ for x in body_nodes):
                        continue            # ... or emptied there
                    # a memo: the same key is looked up in the loop
                    kt = ast.dump(t.slice)
                    reads = [x for x in body_nodes if (isinstance(x, ast.Subscript) and isinstance(x.ctx, ast.Load) and isinstance(x.value, ast.Name)
                                                       and x.value.id == c_ and ast.dump(x.slice) == kt) or
                             (isinstance(x, ast.Compare) and len(x.ops) == 1 and isinstance(x.ops[0], (ast.In, ast.NotIn)) and
                              isinstance(x.comparators[0], ast.Name) and x.comparators[0].id == c_ and ast.dump(x.left) == kt)]
                    if not reads:
                        continue
                    if any(isinstance(x, ast.Name) and x.id == c_ for a in list(st.value.args) + [k.value for k in st.value.keywords] for x in ast.walk(a)):
                        continue            # C[k] = op(C[k], v): an accumulator folds the varying value in, it does not remember a result
                    n += 1
                    knames = set(x.id for x in ast.walk(t.slice) if isinstance(x, ast.Name))
                    anames = set(x.id for a in list(st.value.args) + [k.value for k in st.value.keywords] for x in ast.walk(a) if isinstance(x, ast.Name))
                    # only loops in which the key itself varies are the memo's loop
                    if not (knames & stored):
                        continue
                    # what varies in any loop around the store
                    varying = set(stored)
                    for outer in ast.walk(f.node):
                        if isinstance(outer, (ast.For, ast.While)) and outer is not lp and any(x is lp for x in ast.walk(outer)):
                            if isinstance(outer, ast.For):
                                varying |= set(x.id for x in ast.walk(outer.target) if isinstance(x, ast.Name))
                    missing = sorted((anames & varying) - knames - {c_})
                    if missing:
                        out.append((f, st, c_, missing))
    # one report per store
    seen = set()
    uniq = []
    for f, st, c_, missing in out:
        if id(st) not in seen:
            seen.add(id(st))
            uniq.append((f, st, c_, missing))
    return n, uniq


def _make_g14(pid):
    def g14(ctx):
        prog = ctx.prog
        probe = ast.parse("def f(posts, dfl):\n    lens = {}\n    ok = {}\n    for fieldname, docnum in posts:\n        if docnum not in lens:\n"
                          "            lens[docnum] = dfl(docnum, fieldname)\n        if (fieldname, docnum) not in ok:\n"
                          "            ok[fieldname, docnum] = dfl(docnum, fieldname)\n").body[0]

        class _F(object):
            node = probe
            name = "f"
        if len(underkeyed_memos([_F])[1]) != 1:
            raise AnalysisError("G14 detector does not match its own positive example")
        funcs = anchor_funcs(prog, pid)
        n, bad = underkeyed_memos(funcs)
        ctx.ob("%s anchor files" % pid, True, "%d memo stores `C[k] = f(...)` inside loops examined" % n)
        for f, st, c_, missing in bad:
            ctx.ob(f, False, "a memo's key names everything that varies in the remembered call",
                   detail="`%s`: %s change%s from one round of the loop to the next and %s not in the key of `%s`, so a later round reads "
                          "what an earlier one computed for other arguments" % (norm.stmt_text(st)[:100], ", ".join(missing),
                                                                                 "s" if len(missing) == 1 else "", "is" if len(missing) == 1 else "are", c_),
                   loc=ctx.nodeloc(f, st))
    return g14


for _p in _properties():
    rule(_p["id"], "G14", "K6", "a memo is keyed by everything that varies in what it remembers",
         clause="A local dict created outside a loop and filled inside it with `C[k] = f(args)` under a lookup of the same key is a "
                "memo of f.  Every name among args that the loop (or a loop around it) re-binds must occur in k, unless C is re-made or "
                "cleared inside the loop; otherwise a later round is answered with an earlier round's value.  Expected count on the tree: "
                "zero; the detector is checked against a built-in example on every run.")(_make_g14(_p["id"]))
