"""C08 -- stored values and column values come back unchanged for the right document."""

import ast
import struct

from ..report import rule
from .. import pm, norm, cfg as cfgmod, guards
from ..traces import Tracer, fmt
from ..model import AnalysisError
from .common import calls_of, find_calls, returns_of, is_abstract_body, bind_args


@rule("C08", "R1", "K4", "column writers and readers agree on layout, byte order and trailer",
      min_instances=5,
      clause="For every Column with nested Writer/Reader: both build their struct from the same \"!\" + typecode; "
             "Column.writer()/reader() hand the same configuration attributes to both; VarBytes writes "
             "lengths[, offsets], lengths-code[, offsets-code, 'X'] and the reader finds each at that distance from "
             "the end; buffers are written only after the final fill(); lengths and offsets are padded together.")
def c08_r1(ctx):
    prog = ctx.prog
    cbase = prog.cls("columns.Column")
    n = 0
    for cls in prog.subclasses(cbase, strict=True):
        w = cls.methods.get("writer")
        r = cls.methods.get("reader")
        if w is None or r is None:
            continue
        wc = [c for c in norm.calls_in(w.node) if norm.canon(c.func) == "self.Writer"]
        rc = [c for c in norm.calls_in(r.node) if norm.canon(c.func) == "self.Reader"]
        if len(wc) != 1 or len(rc) != 1:
            continue
        n += 1
        ctx.saw(w)
        wa = [norm.canon(a) for a in wc[0].args[1:] if isinstance(a, ast.Attribute)]
        ra = [norm.canon(a) for a in rc[0].args if isinstance(a, ast.Attribute) and norm.canon(a).startswith("self.")]
        # the reader may need fewer settings (compression level, default), never different ones
        common = [a for a in wa if a in ra]
        ctx.ob(cls, set(ra) <= set(wa) and common == ra, "reader() receives a subset of the configuration attributes writer() receives, in the same order",
               detail="writer %s ; reader %s" % (wa, ra), loc=cls.loc)
        # struct formats
        W = cls.nested.get("Writer")
        R = cls.nested.get("Reader")
        if W and R:
            def fmts(k):
                out = set()
                for f in k.methods.values():
                    for c in norm.calls_in(f.node):
                        if norm.call_name(c) in ("Struct", "pack", "unpack", "calcsize") and c.args and \
                                norm.canon(c.func).startswith("struct."):
                            a0 = c.args[0]
                            if isinstance(a0, ast.BinOp) and isinstance(a0.left, ast.Constant) and isinstance(a0.left.value, str):
                                out.add((a0.left.value, norm.canon(a0.right)))
                return out
            fw, fr = fmts(W), fmts(R)
            if fw and fr:
                ok = bool(fw) and bool(fr) and set(x for x in fw) <= set(x for x in fr) | fw and \
                    set(o for o, _ in fw) == set(o for o, _ in fr) and set(t for _, t in fw) == set(t for _, t in fr)
                ctx.ob(cls, ok, "Writer and Reader build their structs from the same byte order and typecode source",
                       detail="writer %s ; reader %s" % (sorted(fw), sorted(fr)), loc=cls.loc)
    if n < 4:
        raise AnalysisError("only %d columns with writer/reader factories" % n)
    # VarBytes trailer
    vw = prog.cls("columns.VarBytesColumn.Writer")
    vr = prog.cls("columns.VarBytesColumn.Reader")
    fin = vw.methods["finish"]
    ctx.saw(fin)

    def classify(func, call, res, concrete):
        if isinstance(call.func, ast.Attribute) and norm.canon(call.func.value, norm.aliases(func.node)) == "self._dbfile" and \
                norm.call_name(call).startswith("write"):
            a = norm.deep_canon(call.args[0], func.node) if call.args else ""
            if "lengths" in a.lower() and "typecode" in a:
                return "lens_code"
            if "offsets" in a.lower() and "typecode" in a:
                return "offs_code"
            if "'X'" in a:
                return "X"
            if "lengths" in a.lower():
                return "lens_array"
            if "offsets" in a.lower():
                return "offs_array"
            return "write:" + a
        if norm.canon(call.func) == "self.fill":
            return "fill"
        return None

    def stmt_event(func, node):
        a = node.ast
        if node.kind == "stmt" and isinstance(a, ast.Assign) and isinstance(a.value, ast.Attribute) and a.value.attr == "array" \
                and norm.canon(a.value.value).startswith("self."):
            return "capture:" + norm.canon(a.value.value).split(".")[1]
        return None
    def edge_event(func, node, label):
        if node.kind == "test" and "self.allow_offsets" in norm.deep_canon(node.ast, func.node):
            return "wo:" + label[0]
        return None
    tr = Tracer(prog, calls_of(prog), classify, follow=lambda *a: [], stmt_event=stmt_event, edge_event=edge_event, max_depth=0)
    res = tr.traces(fin, None)
    feasible = [t for t in res["normal"] if not ("wo:T" in t and "wo:F" in t)]
    writes = set(tuple(e for e in t if not e.startswith(("capture", "fill", "wo:"))) for t in feasible)
    want = {("lens_array", "lens_code"), ("lens_array", "offs_array", "lens_code", "offs_code", "X")}
    ctx.ob(fin, writes == want, "finish() writes lengths[, offsets], lengths-code[, offsets-code, 'X']",
           detail="write sequences: %s" % sorted(writes))
    bad = [t for t in res["normal"] if any(e.startswith("capture") for e in t) and "fill" in t and
           min(i for i, e in enumerate(t) if e.startswith("capture")) < max(i for i, e in enumerate(t) if e == "fill")]
    ctx.ob(fin, not bad, "the arrays written are taken from the buffers after the final fill()",
           detail="a buffer's .array is captured before fill(): the growable array may re-type and replace it, "
                  "so the padded entries (and the new typecode) are lost: %s" % fmt(bad[0]) if bad else "")
    rd = vr.methods["_read_offsets_and_lengths"]
    ctx.saw(rd)
    RA = pm.Alpha(rd)
    sts = pm.stmts_of(rd.node)
    first = RA.find(sts, "lens_code = chr(self._dbfile.get_byte(lastbyte))", al=True)
    xs = [st for st in sts if isinstance(st, ast.If) and (RA.eq(st.test, "lens_code == 'X'") or
                                                          (isinstance(st.test, ast.Name) and RA.eq(norm.inline_defs(st.test, rd.node), "lens_code == 'X'")))]
    ok = first is not None and len(xs) == 1 and RA.has(xs[0].body, "lens_code = chr(self._dbfile.get_byte(lastbyte - 2))", al=True) and \
        RA.has(xs[0].body, "offsets_code = chr(self._dbfile.get_byte(lastbyte - 1))", al=True)
    ncodes = sum(1 for st in sts if isinstance(st, ast.Assign) and any(norm.call_name(c) == "get_byte" for c in norm.calls_in(st.value)))
    ctx.ob(rd, ok and ncodes == 3,
           "reader finds 'X' at the end, the offsets code before it and the lengths code before that",
           detail="%d get_byte reads" % ncodes)
    # fill pads both arrays together
    fl = vw.methods["fill"]
    fa = guards.Facts(fl)
    ext = {}
    for n_ in fa.g.nodes:
        for frag in cfgmod.node_exprs(n_):
            for c in norm.calls_in(frag):
                if norm.call_name(c) == "extend" and norm.canon(norm.receiver(c)) in ("self._lengths", "self._offsets"):
                    cnt = ""
                    if c.args and isinstance(c.args[0], ast.GeneratorExp):
                        cnt = norm.canon(c.args[0].generators[0].iter)
                    ext[norm.canon(norm.receiver(c))] = (sorted(fa.at(n_) or []), cnt)
    ctx.ob(fl, len(ext) == 2 and ext.get("self._lengths") == ext.get("self._offsets"),
           "fill() pads the lengths and the offsets arrays under the same condition by the same count", detail=str(ext))


@rule("C08", "R2", "K4", "values equal to the default may be skipped only because readers return that same default",
      min_instances=2,
      clause="FixedBytes/Numeric writers skip a value equal to self._default; their readers return the default bytes "
             "built from the same default for rows past the written count, and fill() pads with those bytes.")
def c08_r2(ctx):
    prog = ctx.prog
    for cname in ("columns.FixedBytesColumn", "columns.NumericColumn"):
        W = prog.cls(cname + ".Writer")
        R = prog.cls(cname + ".Reader")
        add = W.methods["add"]
        ctx.saw(add)
        skips = [norm.canon(st.test) for st in ast.walk(add.node) if isinstance(st, ast.If) and
                 any(isinstance(x, ast.Return) for x in st.body)]
        ctx.ob(add, skips == ["(self._default == v)"], "add() skips exactly the values equal to self._default", detail=str(skips))
        gi = prog.lookup(R, "__getitem__")
        base_gi = prog.cls("columns.FixedBytesColumn.Reader").methods["__getitem__"]
        fa = guards.Facts(base_gi)
        rets = {}
        for n_ in fa.g.nodes:
            if n_.kind == "return":
                rets[norm.canon(n_.ast.value)] = sorted(fa.at(n_) or [])
        ctx.ob(base_gi, rets.get("self._defaultbytes") == [("F", "(docnum < self._count)")],
               "rows at or past the written count read as the default bytes", detail=str(rets))
        # default bytes derive from the same default on both sides
        wi = W.methods["__init__"]
        ri = R.methods["__init__"]
        wd = [norm.canon(st.value) for st in ast.walk(wi.node) if isinstance(st, ast.Assign) and any("_defaultbytes" in norm.canon(t) for t in st.targets)]
        rdv = [norm.canon(st.value) for st in ast.walk(ri.node) if isinstance(st, ast.Assign) and any("_defaultbytes" in norm.canon(t) for t in st.targets)]
        ctx.ob(W, bool(wd) and bool(rdv) and all("default" in x for x in wd + rdv), "writer and reader derive the default bytes from `default`",
               detail="writer %s ; reader %s" % (wd, rdv), loc=W.loc)
    fl = prog.lookup(prog.cls("columns.FixedBytesColumn.Writer"), "fill")
    txt = norm.stmt_text(fl.node)
    ctx.ob(fl, "self._defaultbytes" in txt, "fill() pads skipped rows with the default bytes")


@rule("C08", "R3", "K4", "the per-document writer and reader of the codec use the same column for each internal column",
      min_instances=1,
      clause="W3PerDocWriter and W3PerDocReader name each internal column (_stored, field lengths, vector offset, "
             "vector length) with the same name function and open it with a byte-compatible column object.")
def c08_r3(ctx):
    prog = ctx.prog
    W = prog.cls("codec.whoosh3.W3PerDocWriter")
    R = prog.cls("codec.whoosh3.W3PerDocReader")
    mod = prog.module("codec.whoosh3")

    def uses(cls, fname):
        out = {}
        for f in cls.methods.values():
            for c in norm.calls_in(f.node):
                if norm.call_name(c) == fname and len(c.args) >= 2:
                    name = norm.deep_canon(c.args[0], f.node)
                    col = norm.canon(c.args[1])
                    out.setdefault(name, set()).add(col)
        return out
    wu = uses(W, "add_column_value")
    wu.update(uses(W, "_create_column"))
    ru = uses(R, "_cached_reader")

    def typecode(colname):
        v = mod.assigns.get(colname)
        if isinstance(v, ast.Call) and norm.call_name(v) == "NumericColumn" and v.args and isinstance(v.args[0], ast.Constant):
            return v.args[0].value
        return colname
    n = 0
    for name, wcols in sorted(wu.items()):
        if name not in ru:
            continue
        n += 1
        rcols = ru[name]
        wt = set(typecode(c) for c in wcols)
        rt = set(typecode(c) for c in rcols)
        same = wcols == rcols
        compat = same or (len(wt) == 1 and len(rt) == 1 and all(isinstance(x, str) and len(x) == 1 for x in wt | rt)
                          and struct.calcsize("!" + list(wt)[0]) == struct.calcsize("!" + list(rt)[0]))
        ctx.ob("W3PerDocWriter <-> W3PerDocReader", compat, "internal column %s is written and read with byte-compatible columns" % name,
               detail="writer %s, reader %s%s" % (sorted(wcols), sorted(rcols), "" if same else " (same width; differs in signedness)"), loc=W.loc)
    if n < 3:
        raise AnalysisError("only %d internal columns matched between W3PerDocWriter and W3PerDocReader" % n)


@rule("C08", "R4", "K11", "add_document stores what was supplied, for the fields that were supplied",
      min_instances=1,
      clause="In SegmentWriter.add_document: fields whose value is None are skipped before any per-document write; "
             "customval = fields.get('_stored_<name>', value); the stored value is customval iff field.stored; the "
             "column value is field.to_column_value(customval) iff the field has a column and customval is not None.")
def c08_r4(ctx):
    prog = ctx.prog
    f = prog.method("writing.SegmentWriter", "add_document", inherited=False)
    ctx.saw(f)
    A = pm.Alpha(f)
    CUSTOM = "fields.get('_stored_%s' % fieldname, fields.get(fieldname))"
    FIELD = "self.schema[fieldname]"

    def deep(e):
        return norm.inline_defs(e, f.node, depth=8)

    def call_arg(name, idx):
        cs = [c for c in norm.calls_in(f.node) if norm.call_name(c) == name and len(c.args) > idx]
        return deep(cs[0].args[idx]) if len(cs) == 1 else None
    sv = call_arg("add_field", 2)
    cv = call_arg("add_column_value", 2)
    fa0 = guards.Facts(f)

    def branch_values(name):
        """deep value -> facts, for every assignment to the local `name`"""
        out = {}
        for n_ in fa0.g.nodes:
            a_ = n_.ast
            if n_.kind == "stmt" and isinstance(a_, ast.Assign) and len(a_.targets) == 1 and isinstance(a_.targets[0], ast.Name) and a_.targets[0].id == name:
                out[id(a_)] = (deep(a_.value), fa0.at(n_) or frozenset())
        return list(out.values())

    def dfact0(facts, pol, pattern):
        for (p_, t) in facts:
            if p_ != pol:
                continue
            try:
                e = deep(norm.parse_expr(t))
            except SyntaxError:
                continue
            if A.eq(e, pattern):
                return True
        return False
    svs = []
    cs_ = [c for c in norm.calls_in(f.node) if norm.call_name(c) == "add_field" and len(c.args) > 2]
    if len(cs_) == 1 and isinstance(cs_[0].args[2], ast.Name):
        svs = branch_values(cs_[0].args[2].id)
    elif sv is not None:
        svs = [(sv, frozenset())]
    has_custom = any(A.eq(x, CUSTOM) for (v_, _) in svs for x in ast.walk(v_) if isinstance(x, ast.Call))
    ctx.ob(f, has_custom, "customval = fields.get('_stored_<name>', value)", detail=str([norm.canon(v_) for v_, _ in svs]))
    stored_ok = False
    if len(svs) == 1:
        stored_ok = A.eq(svs[0][0], "(%s if %s.stored else None)" % (CUSTOM, FIELD))
    elif len(svs) == 2:
        yes = [v_ for v_, fs in svs if dfact0(fs, "T", FIELD + ".stored")]
        no = [v_ for v_, fs in svs if dfact0(fs, "F", FIELD + ".stored")]
        stored_ok = len(yes) == 1 and len(no) == 1 and A.eq(yes[0], CUSTOM) and norm.canon(no[0]) == "None"
    ctx.ob(f, stored_ok, "stored value = customval iff field.stored", detail=str([(norm.canon(v_), sorted(fs)) for v_, fs in svs]))
    ctx.ob(f, cv is not None and A.eq(cv, "%s.to_column_value(%s)" % (FIELD, CUSTOM)), "column value = field.to_column_value(customval)",
           detail=norm.canon(cv) if cv is not None else "")
    fa = guards.Facts(f)

    def dfact(facts, pol, pattern):
        for (p_, t) in facts:
            if p_ != pol:
                continue
            try:
                e = deep(norm.parse_expr(t))
            except SyntaxError:
                continue
            if A.eq(e, pattern):
                return True
        return False
    for n_ in fa.g.nodes:
        for frag in cfgmod.node_exprs(n_):
            for c in norm.calls_in(frag):
                nm = norm.call_name(c)
                if nm == "add_column_value":
                    facts = fa.at(n_) or frozenset()
                    ok = dfact(facts, "T", FIELD + ".column_type") and dfact(facts, "F", "%s is None" % CUSTOM)
                    ctx.ob(f, ok, "a column value is written only for fields with a column and a supplied value", loc=ctx.nodeloc(f, c))
                if nm in ("add_field", "add_column_value", "add_vector_items"):
                    facts = fa.at(n_) or frozenset()
                    ok = dfact(facts, "F", "fields.get(fieldname) is None")
                    ctx.ob(f, ok, "%s(...) happens only for fields that were supplied (value is not None)" % nm, loc=ctx.nodeloc(f, c))


@rule("C08", "R5", "K11", "merging copies each document's column value from that document's row",
      min_instances=1, also=("C06",),
      clause="In SegmentWriter.write_per_doc the stored fields, length, vector and column value of a document are all "
             "read with the source reader's own document number of the current iter_docs() iteration.")
def c08_r5(ctx):
    prog = ctx.prog
    f = prog.method("writing.SegmentWriter", "write_per_doc", inherited=False)
    ctx.saw(f)
    loop = None
    for n_ in ast.walk(f.node):
        if isinstance(n_, ast.For) and "iter_docs()" in norm.canon(n_.iter):
            loop = n_
    if loop is None:
        raise AnalysisError("write_per_doc no longer iterates reader.iter_docs()")
    dvar = norm.canon(loop.target.elts[0]) if isinstance(loop.target, ast.Tuple) else None
    ctx.ob(f, dvar is not None, "iterates (docnum, stored) pairs of the source reader")
    # the per-field table of column readers: a local dict filled with reader.column_reader(...) results
    asg = norm.assigned_names(f.node)
    tables = set(nm for nm, vals in asg.items() if any(v is not None and norm.canon(v) == "{}" for v in vals)
                 and any(isinstance(st, ast.Assign) and isinstance(st.targets[0], ast.Subscript) and norm.canon(st.targets[0].value) == nm
                         and any(norm.call_name(c) in ("column_reader", "raw_column") for c in norm.calls_in(norm.inline_defs(st.value, f.node)) )
                         or (isinstance(st, ast.Assign) and isinstance(st.targets[0], ast.Subscript) and norm.canon(st.targets[0].value) == nm
                             and isinstance(st.value, ast.Name) and any(v is not None and any(norm.call_name(c) == "column_reader" for c in norm.calls_in(v))
                                                                     for v in asg.get(st.value.id, [])))
                         for st in ast.walk(f.node)))
    subs = [n_ for n_ in ast.walk(loop) if isinstance(n_, ast.Subscript) and isinstance(n_.value, ast.Subscript)
            and norm.canon(n_.value.value) in tables]
    ctx.ob(f, len(subs) == 1 and norm.canon(subs[0].slice) == dvar, "the column value is cols[fieldname][<source docnum>]",
           detail="index: %s" % [norm.canon(s_.slice) for s_ in subs])
    for c in norm.calls_in(loop):
        nm = norm.call_name(c)
        if nm in ("doc_field_length", "has_vector", "vector") and norm.canon(norm.receiver(c)) == "reader":
            ctx.ob(f, c.args and norm.canon(c.args[0]) == dvar, "reader.%s(...) is asked about the source docnum" % nm, loc=ctx.nodeloc(f, c))
    # no sequential cursor over a column inside the loop
    nexts = [norm.canon(c) for c in norm.calls_in(loop) if norm.call_name(c) == "next" and isinstance(c.func, ast.Name)]
    ctx.ob(f, not nexts, "no column is consumed sequentially (deleted rows would shift every later value)", detail=str(nexts))
    # field set covers indexed-but-unstored dynamic fields
    ar = prog.method("writing.SegmentWriter", "add_reader", inherited=False)
    txt = norm.stmt_text(ar.node)
    ctx.ob(ar, "reader.indexed_field_names()" in txt and "self.schema.names()" in txt,
           "add_reader copies the union of the schema's fields and the reader's indexed field names")


@rule("C08", "R6", "K5", "a multi-segment column reader covers every segment",
      min_instances=1,
      clause="MultiReader.column_reader asks every sub-reader for a column reader (a segment without the column file "
             "supplies a reader of defaults), so document numbers stay aligned with the segment offsets.")
def c08_r6(ctx):
    prog = ctx.prog
    f = prog.method("reading.MultiReader", "column_reader", inherited=False)
    ctx.saw(f)
    fa = guards.Facts(f)
    # the lists handed to MultiColumnReader(readers, offsets)
    mcalls = [c for c in norm.calls_in(f.node) if norm.call_name(c) == "MultiColumnReader"]
    if len(mcalls) != 1 or len(mcalls[0].args) != 2:
        raise AnalysisError("MultiReader.column_reader no longer builds MultiColumnReader(<list>, <list>)")
    mlists = []
    whole = 0
    for i_, a in enumerate(mcalls[0].args):
        an_ = norm.assigned_names(f.node).get(a.id) if isinstance(a, ast.Name) else None
        v = an_[0] if an_ and len(an_) == 1 and an_[0] is not None and not (isinstance(an_[0], ast.List) and not an_[0].elts) else a
        if isinstance(v, (ast.ListComp, ast.GeneratorExp)) or (isinstance(v, ast.Call) and norm.call_name(v) in ("list", "tuple")
                                                              and v.args and isinstance(v.args[0], (ast.ListComp, ast.GeneratorExp))):
            comp = v if isinstance(v, (ast.ListComp, ast.GeneratorExp)) else v.args[0]
            conds = [norm.canon(t) for g_ in comp.generators for t in g_.ifs]
            over = norm.canon(comp.generators[0].iter)
            ok_ = not conds and "self.readers" in over
            if not ok_ and not conds and i_ == 1 and isinstance(mcalls[0].args[0], ast.Name):
                # the offsets picked by position, one per column reader already built for every sub-reader:
                # [self.doc_offsets[i] for i in range(len(<the first list>))]
                first = mcalls[0].args[0].id
                tgt = comp.generators[0].target
                ok_ = over in ("xrange(len(%s))" % first, "range(len(%s))" % first) and isinstance(tgt, ast.Name) and \
                    norm.canon(comp.elt) == "self.doc_offsets[%s]" % tgt.id and whole == 1
            ctx.ob(f, ok_, "%s are built for every sub-reader" % ("the column readers" if i_ == 0 else "the offsets"),
                   detail="" if ok_ else "built by a comprehension over %s with conditions %s: segments lacking the column are skipped, so "
                                        "later segments' documents read other documents' values" % (over, conds), loc=ctx.nodeloc(f, v))
            whole += 1
        elif norm.canon(v) in ("self.doc_offsets", "list(self.doc_offsets)", "self.doc_offsets[:]", "tuple(self.doc_offsets)"):
            ctx.ob(f, True, "the offsets are the reader's own offset table (one per sub-reader)", loc=ctx.nodeloc(f, v))
            whole += 1
        elif isinstance(a, ast.Name):
            mlists.append(a.id)
    if len(mlists) + whole != 2:
        raise AnalysisError("MultiReader.column_reader: cannot read how the two lists of MultiColumnReader are built")
    for n_ in fa.g.nodes:
        for frag in cfgmod.node_exprs(n_):
            for c in norm.calls_in(frag):
                if norm.call_name(c) == "append" and norm.canon(norm.receiver(c)) in mlists:
                    facts = [t for (p, t) in (fa.at(n_) or []) if "has_column" in t]
                    ctx.ob(f, not facts, "%s happens for every sub-reader" % ("readers.append(...)" if norm.canon(norm.receiver(c)) == norm.canon(mcalls[0].args[0]) else "offsets.append(...)"),
                           detail="only under %s: segments lacking the column file are skipped, so later segments' "
                                  "documents read other documents' values" % facts if facts else "", loc=ctx.nodeloc(f, c))
    sr = prog.method("reading.SegmentReader", "column_reader", inherited=False)
    ctx.ob(sr, "EmptyColumnReader(" in norm.stmt_text(sr.node), "SegmentReader.column_reader supplies a default-value reader when the segment has no column file")


# per-document buffers of the per-document writers (confirmed by reading): filled by add_field(), flushed by finish_doc()
PER_DOC_BUFFERS = {"codec.whoosh3.W3PerDocWriter": ("_storedfields",)}


@rule("C08", "R7", "K1", "a document starts with empty per-document buffers, whatever happened to the previous one",
      min_instances=1,
      clause="start_doc() of the per-document writer binds every per-document buffer (the stored-fields dict) to a fresh "
             "container on every non-raising path: a document whose add_document() failed half-way (cancel_doc()) must not "
             "leak its stored values into the next document.")
def c08_r7(ctx):
    prog = ctx.prog
    for cname, attrs in PER_DOC_BUFFERS.items():
        cls = prog.cls(cname)
        sd = cls.methods.get("start_doc")
        cd = cls.methods.get("cancel_doc")
        if sd is None:
            raise AnalysisError("%s.start_doc vanished" % cname)
        ctx.saw(sd)
        g = cfgmod.cfg_of(sd)

        def transfer(node, state):
            out = set(state)
            a = node.ast
            if node.kind == "stmt" and isinstance(a, ast.Assign) and isinstance(a.value, (ast.Dict, ast.List, ast.Set, ast.Call)):
                fresh = isinstance(a.value, (ast.Dict, ast.List, ast.Set)) and not (getattr(a.value, "keys", None) or getattr(a.value, "elts", None)) or \
                    (isinstance(a.value, ast.Call) and norm.call_name(a.value) in ("dict", "list", "set", "defaultdict") )
                if fresh:
                    for t in a.targets:
                        if isinstance(t, ast.Attribute) and norm.canon(t.value) == "self":
                            out.add(t.attr)
            return frozenset(out)
        sin, sout = cfgmod.forward(g, frozenset(), transfer, include_exc=False)
        must = sin[g.exit.id] or frozenset()
        for a in attrs:
            cleared_on_cancel = cd is not None and any(
                (isinstance(st, ast.Assign) and any(norm.canon(t) == "self." + a for t in st.targets)) or
                (isinstance(st, ast.Expr) and isinstance(st.value, ast.Call) and norm.canon(st.value) == "self.%s.clear()" % a)
                for st in ast.walk(cd.node))
            ctx.ob(sd, a in must or cleared_on_cancel, "self.%s is a fresh container at the start of every document" % a,
                   detail="neither start_doc() rebinds it nor cancel_doc() clears it: stored values of a cancelled document reach the next one"
                   if not (a in must or cleared_on_cancel) else "")
        # the buffer is what add_field fills and finish_doc flushes
        af = cls.methods.get("add_field")
        fd = cls.methods.get("finish_doc")
        ok = af is not None and fd is not None and all(("self.%s" % a) in norm.stmt_text(af.node) and ("self.%s" % a) in norm.stmt_text(fd.node) for a in attrs)
        ctx.ob(cls, ok, "the per-document buffers are filled by add_field() and flushed by finish_doc()", loc=cls.loc)


@rule("C08", "R8", "K10", "every attribute a column type's public methods read is bound somewhere",
      min_instances=20, also=("C14",),
      clause="For every Column / ColumnWriter / ColumnReader class: an attribute that no class of its hierarchy binds (no method, no class "
             "body) and that no `obj.attr = ...` in the program sets is not read by any method reachable from the class's public methods "
             "-- Column.default_value() returns self._default, so a column type without one raises AttributeError the first time a "
             "segment lacks the column file (no document in it supplied a value).")
def c08_r8(ctx):
    from .common import unbound_attribute_reads
    prog = ctx.prog
    roots = [prog.cls("columns.Column"), prog.cls("columns.ColumnWriter"), prog.cls("columns.ColumnReader")]
    n = 0
    seen = set()
    for root in roots:
        for cls in prog.subclasses(root):
            if cls.qualname in seen:
                continue
            seen.add(cls.qualname)
            n += 1
            bad = unbound_attribute_reads(prog, cls)
            by = {}
            for a, f, line, entry in bad:
                by.setdefault(a, set()).add(f.name + "()")
            for a in sorted(by):
                ctx.ob(cls, False, "self.%s is bound somewhere in %s's hierarchy" % (a, cls.short.split("columns.")[-1]),
                       detail="read by %s; nothing binds it: AttributeError at run time" % ", ".join(sorted(by[a])), loc=cls.loc)
            if not bad:
                ctx.ob(cls, True, "every attribute read by %s's public methods is bound" % cls.short.split("columns.")[-1], loc=cls.loc)
    if n < 20:
        raise AnalysisError("only %d column classes found" % n)


def _emits(node):
    """a CFG node that writes the row: x.write*(...), x.append/extend(...), or the base writer's add()"""
    if node.ast is None:
        return False
    for e in cfgmod.node_exprs(node):
        for c in ast.walk(e):
            if isinstance(c, ast.Call) and isinstance(c.func, ast.Attribute):
                a = c.func.attr
                if a.startswith("write") or a in ("append", "extend") or (a == "add" and norm.canon(c.func.value) != "self"):
                    return True
    return False


@rule("C08", "R9", "K2", "a column writer advances its row counter only for a row it has emitted",
      min_instances=4, also=("C13",),
      clause="In every ColumnWriter.add(docnum, v) that assigns self._count: no path from the entry to a normal exit passes through the "
             "assignment without passing through a statement that emits the row (a write*/append/extend call, or the base writer's add). "
             "fill() pads with defaults from _count up to the next docnum, so a counter that runs ahead of the emitted rows shifts every "
             "later value of the segment one slot down (sorting and column reads then return a neighbour's value).")
def c08_r9(ctx):
    prog = ctx.prog
    base = prog.cls("columns.ColumnWriter")
    n = 0
    for K in prog.subclasses(base):
        f = K.methods.get("add")
        if f is None:
            continue
        g = cfgmod.cfg_of(f, exc_edges=False)
        counts = [x for x in g.nodes if x.ast is not None and isinstance(x.ast, (ast.Assign, ast.AugAssign)) and any(
            norm.canon(t) == "self._count" for t in (x.ast.targets if isinstance(x.ast, ast.Assign) else [x.ast.target]))]
        if not counts:
            continue
        n += 1
        ctx.saw(f)
        for A in counts:
            if _emits(A):
                continue
            before = cfgmod.find_path(g, g.entry, lambda x: x is A, avoid_pred=_emits)
            after = cfgmod.find_path(g, A, lambda x: x is g.exit, avoid_pred=_emits)
            bad = before is not None and after is not None
            ctx.ob(f, not bad, "self._count advances only on paths that emit the row",
                   detail="a path reaches `%s` and leaves add() without any write/append: %s ... %s"
                          % (norm.canon(A.ast) if hasattr(norm, "canon") else "", cfgmod.path_text(before or []), cfgmod.path_text(after or [])) if bad else "",
                   loc=ctx.nodeloc(f, A.ast))
    if n < 4:
        raise AnalysisError("only %d column writers count rows in add()" % n)


@rule("C08", "R10", "K2", "a merge copies raw column values",
      min_instances=1, also=("C06",),
      clause="SegmentWriter.write_per_doc writes what the source column reader returns straight into the new segment's column writer. "
             "Every reader.column_reader(...) call on its `reader` parameter therefore asks for untranslated values (translate=False) -- "
             "SegmentReader and MultiReader translate by default, and a MultiReader's composite reader cannot be unwrapped afterwards -- "
             "unless the call lies where `reader` is known not to be an IndexReader (the per-document reader of the multi-process "
             "merge, which has no translating layer).")
def c08_r10(ctx):
    prog = ctx.prog
    f = prog.method("writing.SegmentWriter", "write_per_doc", inherited=False)
    ctx.saw(f)
    rp = f.params[2] if len(f.params) > 2 else "reader"
    fa = guards.Facts(f)
    n = 0
    for nd in fa.g.nodes:
        for frag in cfgmod.node_exprs(nd):
            for c in norm.calls_in(frag):
                if norm.call_name(c) != "column_reader" or norm.canon(norm.receiver(c) or ast.Name(id="")) != rp:
                    continue
                n += 1
                tr = None
                for k in c.keywords:
                    if k.arg == "translate":
                        tr = k.value
                if tr is None and len(c.args) >= 4:
                    tr = c.args[3]
                raw = isinstance(tr, ast.Constant) and tr.value is False
                facts = fa.at(nd) or frozenset()
                not_index_reader = any(p_ == "F" and t.startswith("isinstance(%s, " % rp) and "IndexReader" in t for (p_, t) in facts)
                ctx.ob(f, raw or not_index_reader, "%s.column_reader(...) yields raw values on the merge path" % rp,
                       detail="translated values would be written back as raw ones (add_reader() with a multi-segment reader)"
                       if not (raw or not_index_reader) else "", loc=ctx.nodeloc(f, c))
    if n < 1:
        raise AnalysisError("write_per_doc no longer opens column readers on its reader parameter")


def _reaching_defs(func, name):
    """may-reach definitions of local `name` at every CFG node: {node id: frozenset of defining node ids, -1 = the parameter}"""
    g = cfgmod.cfg_of(func, exc_edges=False)

    def binds(nd):
        a = nd.ast
        if nd.kind != "stmt" or a is None:
            return False
        if isinstance(a, ast.Assign):
            return any(isinstance(t, ast.Name) and t.id == name for tg in a.targets for t in ast.walk(tg))
        if isinstance(a, (ast.AugAssign, ast.AnnAssign)):
            return isinstance(a.target, ast.Name) and a.target.id == name
        return False

    def transfer(nd, st):
        return frozenset([nd.id]) if binds(nd) else st

    sin, _ = cfgmod.forward(g, frozenset([-1]), transfer, meet=lambda a, b: a | b, include_exc=False)
    return g, sin


@rule("C08", "R11", "K4", "a column's default is a value of the column's own domain",
      min_instances=1, also=("C13", "C14"),
      clause="A field type whose to_column_value() converts (NUMERIC: to_sortable) stores converted values in its column, so the "
             "`default=` it hands to the column in default_column() -- what a document without the field reads back, sorts and groups "
             "by -- must be a converted value too: every definition reaching the attribute it passes is the result of "
             "self.to_column_value(...) / the converter itself, an entry of typecode_max (the domain's maximum) or an integer literal.  "
             "A raw constructor argument there comes back through from_column_value() as a different number (default=5 on a signed "
             "field read back -2147483643 and sorted first) and a float cannot be packed at all.")
def c08_r11(ctx):
    prog = ctx.prog
    base = prog.cls("fields.FieldType")
    n = 0
    for cls in prog.subclasses(base, strict=False):
        dc = cls.methods.get("default_column")
        if dc is None:
            continue
        rets = [r for r in returns_of(dc) if isinstance(r.value, ast.Call)]
        for r in rets:
            # the column class's constructor tells which argument is its `default`
            ccls = [k for k in prog.subclasses(prog.cls("columns.Column"), strict=True) if k.name == norm.call_name(r.value)]
            init = prog.lookup(ccls[0], "__init__") if len(ccls) == 1 else None
            if init is None:
                continue
            mapping, _ = bind_args(r.value, init)
            dv = (mapping or {}).get("default")
            if not (isinstance(dv, ast.Attribute) and norm.canon(dv).startswith("self.")):
                continue
            attr = dv.attr
            tcv = prog.lookup(cls, "to_column_value")
            if tcv is None:
                continue
            trets = [x.value for x in returns_of(tcv) if x.value is not None]
            conv = set()
            for v in trets:
                if isinstance(v, ast.Call):
                    conv.add(norm.call_name(v))
            params = set(tcv.params[1:])
            identity = all(isinstance(v, ast.Name) and v.id in params for v in trets) and not any(
                isinstance(s, (ast.Assign, ast.AugAssign)) and any(isinstance(t, ast.Name) and t.id in params for t in ast.walk(s))
                for s in ast.walk(tcv.node))
            if identity or not conv:
                continue
            ctx.saw(dc)
            ctx.saw(tcv)
            # every `self.<attr> = V` of the class
            for m in cls.methods.values():
                for st in ast.walk(m.node):
                    if not (isinstance(st, ast.Assign) and any(norm.canon(t) == "self." + attr for t in st.targets)):
                        continue
                    n += 1
                    ctx.saw(m)
                    bad = []
                    seen = set()

                    def judge(expr, at_stmt, func=m):
                        if isinstance(expr, ast.Constant) and isinstance(expr.value, int) and not isinstance(expr.value, bool):
                            return
                        if isinstance(expr, ast.Subscript) and norm.canon(expr.value).split(".")[-1] == "typecode_max":
                            return
                        if isinstance(expr, ast.Call) and (norm.call_name(expr) in conv or norm.call_name(expr) == "to_column_value"):
                            return
                        if isinstance(expr, ast.IfExp):
                            judge(expr.body, at_stmt)
                            judge(expr.orelse, at_stmt)
                            return
                        if isinstance(expr, ast.Name):
                            g, sin = _reaching_defs(func, expr.id)
                            nd = None
                            for x in g.nodes:
                                if x.ast is at_stmt:
                                    nd = x
                            defs = sin[nd.id] if nd is not None and sin[nd.id] is not None else frozenset([-1])
                            for d in sorted(defs):
                                if (expr.id, d) in seen:
                                    continue
                                seen.add((expr.id, d))
                                if d == -1:
                                    if expr.id in func.params:
                                        bad.append("the raw argument `%s`" % expr.id)
                                    else:
                                        bad.append("`%s` (not a converted value)" % expr.id)
                                    continue
                                da = g.nodes[d].ast
                                if isinstance(da, ast.Assign):
                                    judge(da.value, da)
                                else:
                                    bad.append("`%s` as updated at line %d" % (expr.id, da.lineno))
                            return
                        bad.append("`%s`" % norm.canon(expr)[:60])

                    judge(st.value, st)
                    ctx.ob(m, not bad, "self.%s, the default handed to the column, holds only converted values (%s)" % (attr, "/".join(sorted(conv))),
                           detail="reaches it unconverted: " + "; ".join(sorted(set(bad))) if bad else "", loc=ctx.nodeloc(m, st))
    if n < 1:
        raise AnalysisError("no field type passes an attribute as its column's default any more")


_CONVERTERS = ("index", "spellable_words", "word_values", "to_column_value", "to_bytes", "process_text", "tokenize")


@rule("C08", "R12", "K1", "a document is written only after every one of its values has been converted",
      min_instances=1, also=("C01", "C07"),
      clause="SegmentWriter.add_document() may fail on a value (a string in a NUMERIC field, a number in an ID field) and promises "
             "that the writer stays usable: it cancels the document and re-raises, and the next document gets the same number.  "
             "cancel_doc() only takes the counter back -- postings already in the pool, lengths and column rows already written stay "
             "and are read as the NEXT document's (its rows shift by one for the rest of the segment).  So on no path may a call that "
             "converts a user value (field.index / spellable_words / word_values / to_column_value, or the loop that drains a lazy "
             "field.index() result) come after an effect on the pool or the per-document writer: everything is converted first.")
def c08_r12(ctx):
    prog = ctx.prog
    f = prog.method("writing.SegmentWriter", "add_document", inherited=False)
    ctx.saw(f)
    al = norm.aliases(f.node)
    g = cfgmod.cfg_of(f, exc_edges=False)

    def is_effect(c):
        t = norm.canon(c.func, al)
        if t == "self.pool.add":
            return True
        recv = norm.receiver(c)
        return recv is not None and norm.canon(recv, al) == "self.perdocwriter" and norm.call_name(c).startswith("add_")

    def is_convert(c):
        if not isinstance(c.func, ast.Attribute) or c.func.attr not in _CONVERTERS:
            return False
        r = norm.canon(c.func.value, al)
        return not r.startswith("self")

    lazy = set()      # names bound to the (possibly lazy) result of a converter
    for st in ast.walk(f.node):
        if isinstance(st, ast.Assign) and isinstance(st.value, ast.Call) and is_convert(st.value):
            for t in st.targets:
                if isinstance(t, ast.Name):
                    lazy.add(t.id)
    eff, conv = [], []
    for nd in g.nodes:
        a = nd.ast
        if a is None:
            continue
        if nd.kind in ("for", "iter_init") and isinstance(a, ast.For) and isinstance(a.iter, ast.Name) and a.iter.id in lazy:
            conv.append((nd, "the loop draining a lazy index() result"))
        if nd.kind == "iter_init" and isinstance(a, ast.For):
            frags = [a.iter]
        else:
            frags = cfgmod.node_exprs(nd)
        for frag in frags:
            for c in norm.calls_in(frag):
                if is_effect(c):
                    eff.append((nd, norm.canon(c.func)))
                elif is_convert(c):
                    conv.append((nd, "<field>.%s()" % c.func.attr))      # by role: the receiver's local name is not part of the key
    if len(eff) < 3 or len(conv) < 3:
        raise AnalysisError("add_document: %d effects / %d conversions recognised (expected pool.add, add_vector_items, add_field, "
                            "add_column_value and index, spellable_words, word_values, to_column_value)" % (len(eff), len(conv)))
    # forward reachability from every effect node
    reach = {}
    for nd, _ in eff:
        if nd.id in reach:
            continue
        seen = set()
        stack = [s for (s, lab) in nd.succs if lab != "exc"]
        while stack:
            x = stack.pop()
            if x.id in seen:
                continue
            seen.add(x.id)
            stack.extend(s for (s, lab) in x.succs if lab != "exc")
        reach[nd.id] = seen
    for cn, ctext in conv:
        first = None
        for en, etext in eff:
            if cn.id in reach[en.id]:
                first = (en, etext)
                break
        ctx.ob(f, first is None, "%s runs before anything of the document is written" % ctext,
               detail=("reachable after %s (line %d): if it raises, what was written stays under the number the next document gets"
                       % (first[1], getattr(first[0].ast, "lineno", 0))) if first else "",
               loc=ctx.nodeloc(f, cn.ast))
