"""C10 -- postings, term statistics and vectors read back exactly what was indexed."""

import ast
import struct

from ..report import rule
from .. import pm, norm, cfg as cfgmod, guards, cases
from ..model import AnalysisError
from .common import calls_of, find_calls, returns_of, is_abstract_body, bind_args

W3 = "codec.whoosh3."


def _role_w(text):
    t = text
    if t.startswith("len("):
        return "count"
    if t.endswith("[-1]") or t.endswith("[(-1)]"):
        return "maxid"
    if "length_to_byte" in t and "min" in t:
        return "minlen"
    if "length_to_byte" in t and "max" in t:
        return "maxlen"
    if "maxweight" in t or "max_weight" in t:
        return "maxweight"
    if "comp" in t:
        return "compression"
    return "?" + t


def _role_r(text):
    for k, r in (("_blocklength", "count"), ("_maxid", "maxid"), ("_maxweight", "maxweight"),
                 ("_compression", "compression"), ("_minlength", "minlen"), ("_maxlength", "maxlen"),
                 ("mnlen", "minlen"), ("mxlen", "maxlen")):
        if k in text:
            return r
    return "?" + text


@rule("C10", "R1", "K4", "posting block header and body: what the writer packs is what the matcher unpacks",
      min_instances=2,
      clause="_write_block's 6-field info tuple and W3LeafMatcher._goto's unpacking agree field by field "
             "(count, last id, max weight, compression flag, min/max length byte through length_to_byte <-> "
             "byte_to_length); the last-block marker is a negated length on both sides; the data tuple (ids, "
             "weights, values) is read at the same indices; delta coding, compression and each compact "
             "weight/value case are applied under the same condition they are undone under.")
def c10_r1(ctx):
    prog = ctx.prog
    wb = prog.method(W3 + "W3PostingsWriter", "_write_block", inherited=False)
    gt = prog.method(W3 + "W3LeafMatcher", "_goto", inherited=False)
    ctx.saw(wb)
    ctx.saw(gt)
    # writer info tuple
    wtuple = None
    for c in norm.calls_in(wb.node):
        if norm.call_name(c) == "dumps" and c.args:
            a0 = c.args[0]
            if isinstance(a0, ast.Name):        # the tuple was given a name first
                a0 = norm.inline_defs(a0, wb.node)
            if isinstance(a0, ast.Tuple) and len(a0.elts) >= 5:
                wtuple = a0
                wdump_arg = c.args[0]
    if wtuple is None:
        raise AnalysisError("block info tuple not found in _write_block")
    # the compression field: the value handed to compress() as its level / tested before compressing
    comp_texts = set()
    for c in norm.calls_in(wb.node):
        if norm.call_name(c) == "compress" and len(c.args) >= 2:
            comp_texts.add(norm.canon(c.args[1]))
    # an element may be asked of the writer itself: self.max_id(), len(self) -- read through to what that method returns
    wcls = prog.cls(W3 + "W3PostingsWriter")

    def through_getters(e):
        g = None
        if isinstance(e, ast.Call) and not e.args and not e.keywords and isinstance(e.func, ast.Attribute) and norm.canon(e.func.value) == "self":
            g = prog.lookup(wcls, e.func.attr)
        elif isinstance(e, ast.Call) and isinstance(e.func, ast.Name) and e.func.id == "len" and len(e.args) == 1 and norm.canon(e.args[0]) == "self":
            g = prog.lookup(wcls, "__len__")
        if g is not None:
            body = [st for st in g.node.body if not (isinstance(st, ast.Expr) and isinstance(st.value, ast.Constant))]
            if len(body) == 1 and isinstance(body[0], ast.Return) and body[0].value is not None:
                return norm.deep_canon(body[0].value, g.node)
        return norm.deep_canon(e, wb.node)
    wroles = ["compression" if norm.canon(e) in comp_texts else _role_w(through_getters(e)) for e in wtuple.elts]
    # reader unpacking: the tuple assigned from the value read_pickle() returned
    G = pm.Alpha(gt)
    rroles = None
    unpack = None
    for st in ast.walk(gt.node):
        if isinstance(st, ast.Assign) and isinstance(st.targets[0], ast.Tuple) and len(st.targets[0].elts) >= 5 and \
                "read_pickle()" in norm.deep_canon(st.value, gt.node):
            unpack = st.targets[0]
    if unpack is None:
        raise AnalysisError("info tuple unpacking not found in W3LeafMatcher._goto")
    # a local in the unpacked tuple gets its role from the attribute it is decoded into
    b2l = {}
    for st in ast.walk(gt.node):
        if isinstance(st, ast.Assign) and isinstance(st.value, ast.Call) and norm.call_name(st.value) == "byte_to_length" and st.value.args:
            b2l[norm.canon(st.value.args[0])] = norm.canon(st.targets[0])
    # ... or from the attribute it is stored into unchanged (`maxid = ...; self._maxid = maxid`)
    stored_as = {}
    for st in ast.walk(gt.node):
        if isinstance(st, ast.Assign) and len(st.targets) == 1 and isinstance(st.value, ast.Name) and norm.canon(st.targets[0]).startswith("self."):
            stored_as.setdefault(st.value.id, norm.canon(st.targets[0]))
    rroles = []
    for e in unpack.elts:
        t = norm.canon(e)
        rroles.append(_role_r(b2l.get(t) or stored_as.get(t, t)))
    ctx.ob("W3PostingsWriter._write_block <-> W3LeafMatcher._goto", wroles == rroles and not any(r.startswith("?") for r in wroles),
           "block info fields agree in number, order and meaning", detail="writer %s ; reader %s" % (wroles, rroles), loc=wb.loc)
    # byte_to_length applied to exactly the fields that went through length_to_byte
    locs = [norm.canon(e) for e in unpack.elts if isinstance(e, ast.Name) and norm.canon(e) not in stored_as]
    ctx.ob(gt, sorted(b2l.values()) == ["self._maxlength", "self._minlength"] and sorted(b2l) == sorted(locs) and len(locs) == 2,
           "min/max length bytes are decoded with byte_to_length into _minlength/_maxlength", detail=str(sorted(b2l.values())))
    # last-block marker
    WA = pm.Alpha(wb)
    wsts = pm.stmts_of(wb.node)
    # what is handed to write_int, evaluated once for last=False and once for last=True (whatever the shape: `if last: n *= -1`,
    # `n = -n`, a conditional expression in the call)
    written = {}
    for lastval in (False, True):
        seen_ints = []

        def observe(e, env, ev, _out=seen_ints):
            if isinstance(e, ast.Call) and norm.call_name(e) == "write_int" and e.args:
                _out.append(ev.value(e.args[0], env))

        def decide(t, env, ev, _lv=lastval):
            c_ = norm.canon(t)
            if c_ == "last":
                return _lv
            if c_ == "(not last)":
                return not _lv
            return None
        cases.CaseEval(wb.node, cases.sym_absval, decide, observe=observe).run({})
        written[lastval] = seen_ints
    # undecided tests (first block? compress?) are followed on both sides, so each case yields a set of values; the sets must
    # correspond one to one under negation
    def negs(x):
        return set(["(-%s)" % x, "(%s * (-1))" % x, "((-1) * %s)" % x, "(0 - %s)" % x])
    plain = set(v[1] for v in written[False] if v[0] == "sym")
    marked = set(v[1] for v in written[True] if v[0] == "sym")
    w_neg = bool(plain) and len(plain) == len(marked) and all(v[0] == "sym" for v in written[False] + written[True]) and \
        all(any(m in negs(p_) for p_ in plain) for m in marked) and not (plain & marked)
    r_neg = False
    gsts = pm.stmts_of(gt.node)
    G.find(gsts, "length = postfile.read_int()")
    for st in gsts:
        if isinstance(st, ast.If) and G.eq(st.test, "length < 0") and not st.orelse:
            r_neg = G.has(st.body, "self._lastblock = True") and (G.has(st.body, "length *= -1") or G.has(st.body, "length = -length"))
    ctx.ob("W3PostingsWriter._write_block <-> W3LeafMatcher._goto", w_neg and r_neg,
           "last block: writer negates the block length iff `last`, reader sets _lastblock iff length < 0 and re-negates",
           loc=wb.loc)
    # write order: length, info, data  <->  read_int, read_pickle, then data at tell()
    wcalls = [c for c in norm.calls_in(wb.node) if norm.canon(norm.receiver(c) or ast.Name(id=""), norm.aliases(wb.node)) == "self._postfile"
              and norm.call_name(c).startswith("write") and "MAGIC" not in norm.canon(c)]
    # `write_int(-n if last else n)` may be spelled as two calls on the two sides of an `if`: the length is still written once
    if len(wcalls) == 4 and norm.call_name(wcalls[0]) == "write_int" and norm.call_name(wcalls[1]) == "write_int":
        wcalls = wcalls[1:]
    info_ok = any(WA.eq(st, "infobytes = dumps(ANY, 2)") for st in wsts
                  if isinstance(st, ast.Assign) and isinstance(st.value, ast.Call) and st.value.args and st.value.args[0] is wdump_arg)
    ok = len(wcalls) == 3 and info_ok and WA.has(wsts, "blocklength = len(infobytes) + len(databytes)") and \
        norm.call_name(wcalls[0]) == "write_int" and len(wcalls[0].args) == 1 and WA.name("blocklength") in norm.names_in(wcalls[0].args[0]) and \
        WA.eq(wcalls[1], "self._postfile.write(infobytes)", al=True) and \
        WA.eq(wcalls[2], "self._postfile.write(databytes)", al=True)
    ctx.ob(wb, ok, "block is written as length, info pickle, data", detail=str([WA.text(c) for c in wcalls]))
    rorder = [norm.call_name(c) for c in norm.calls_in(gt.node) if norm.call_name(c) in ("read_int", "read_pickle", "tell", "seek")]
    ctx.ob(gt, rorder == ["seek", "read_int", "read_pickle", "tell"], "block is read as seek, length, info pickle, data offset",
           detail=str(rorder))
    # data tuple indices: the 3-tuple that is pickled into databytes
    dtuple = None
    for t_ in ast.walk(wb.node):
        if isinstance(t_, ast.Tuple) and len(t_.elts) == 3 and all(isinstance(e, ast.Call) and norm.call_name(e).startswith("_mini_") for e in t_.elts):
            dtuple = [norm.canon(e) for e in t_.elts]
    want = {"_read_ids": ("self._mini_ids()", 0), "_read_weights": ("self._mini_weights()", 1), "_read_values": ("self._mini_values()", 2)}
    ok = dtuple is not None and len(dtuple) == 3
    dumped = [norm.deep_canon(c.args[0], wb.node) for c in norm.calls_in(wb.node) if norm.call_name(c) == "dumps" and c.args and c.args[0] is not wdump_arg]
    ok = ok and dumped == ["(%s)" % ", ".join(dtuple or [])]
    detail = []
    for rn, (wexpr, idx) in want.items():
        rf = prog.method(W3 + "W3LeafMatcher", rn, inherited=False)
        subs = [norm.canon(n.slice) for n in ast.walk(rf.node) if isinstance(n, ast.Subscript) and norm.deep_canon(n.value, rf.node) == "self._data"]
        detail.append("%s reads _data[%s]" % (rn, ",".join(subs)))
        ok = ok and subs == [str(idx)] and dtuple[idx] == wexpr
    ctx.ob("W3PostingsWriter._write_block <-> W3LeafMatcher._read_*", ok, "data tuple (ids, weights, values) is read at the same indices",
           detail="writer %s; %s" % (dtuple, "; ".join(detail)), loc=wb.loc)
    # delta coding keyed on the same flag
    mi = prog.method(W3 + "W3PostingsWriter", "_mini_ids", inherited=False)
    ri = prog.method(W3 + "W3LeafMatcher", "_read_ids", inherited=False)

    def guard_of(func, callname):
        fa = guards.Facts(func)
        for n in fa.g.nodes:
            for frag in cfgmod.node_exprs(n):
                for c in norm.calls_in(frag):
                    if norm.call_name(c) == callname:
                        return sorted(fa.at(n) or [])
        return None
    gw = guard_of(mi, "delta_encode")
    gr = guard_of(ri, "delta_decode")
    ctx.ob("W3PostingsWriter._mini_ids <-> W3LeafMatcher._read_ids", gw is not None and gw == gr and gw == [("F", "self._byteids")],
           "ids are delta-encoded and delta-decoded under the same condition (not byteids)", detail="writer %s reader %s" % (gw, gr), loc=mi.loc)
    # compression: compress iff the flag written in the header is truthy; decompress iff the flag read is truthy
    gz = guard_of(wb, "compress")
    rd = prog.method(W3 + "W3LeafMatcher", "_read_data", inherited=False)
    gd = guard_of(rd, "decompress")
    comp_written = norm.canon(wtuple.elts[3]) if len(wtuple.elts) > 3 else None
    ok = gz is not None and gd is not None and ("T", comp_written) in gz and ("T", "self._compression") in gd
    ctx.ob("W3PostingsWriter._write_block <-> W3LeafMatcher._read_data", ok,
           "data is compressed exactly when the header's compression field is truthy, and decompressed exactly then",
           detail="compress guarded by %s (header field %s); decompress guarded by %s" % (gz, comp_written, gd), loc=wb.loc)
    # compact weights
    mw = prog.method(W3 + "W3PostingsWriter", "_mini_weights", inherited=False)
    ctx.saw(mw)
    fa = guards.Facts(mw)
    wcases = {}
    for n in fa.g.nodes:
        if n.kind == "return":
            v = norm.canon(n.ast.value) if n.ast.value is not None else "None"
            wcases[v] = sorted(t for (p, t) in (fa.at(n) or []) if p == "T")
    al = norm.aliases(mw.node)
    MW = pm.Alpha(mw)
    none_ok = "None" in wcases and any(MW.eq(norm.substitute(norm.parse_expr(t), al), "all(w == 1.0 for w in self._weights)") for t in wcases["None"])
    scalar = [k for k in wcases if k.endswith("[0]")]
    MW2 = pm.Alpha(mw)
    scalar_ok = len(scalar) == 1 and norm.canon(norm.parse_expr(scalar[0]), al) == "self._weights[0]" and \
        any(MW2.eq(norm.substitute(norm.parse_expr(t), al), "all(w == self._weights[0] for w in self._weights)") for t in wcases[scalar[0]])
    rw = prog.method(W3 + "W3LeafMatcher", "_read_weights", inherited=False)

    def fill_value(e):
        """the element a constant-filled array is built from: array(t, (x for _ in range(n))) / array(t, [x]) * n / array(t, [x] * n)"""
        if isinstance(e, ast.BinOp) and isinstance(e.op, ast.Mult):
            for side in (e.left, e.right):
                if isinstance(side, ast.Call) and side.args and isinstance(side.args[-1], ast.List) and len(side.args[-1].elts) == 1:
                    return side.args[-1].elts[0]
                if isinstance(side, (ast.List, ast.Tuple)) and len(side.elts) == 1:
                    return side.elts[0]
        if isinstance(e, ast.Call) and e.args and isinstance(e.args[-1], (ast.GeneratorExp, ast.ListComp)):
            return e.args[-1].elt
        if isinstance(e, ast.Call) and e.args and isinstance(e.args[-1], ast.BinOp):
            return fill_value(e.args[-1])
        return None

    # the reader as a table: what self._weights holds for each kind of pickled weights (None / one float / an array),
    # whatever the shape of the branches (ladder, nested ifs, a cascade that rebinds the local)
    def w_absval(e, env, ev):
        if cases.path_text(e, env) == "self._data[1]":
            return env["<input>"]
        if cases.is_plain_path(e):
            return ("path", cases.path_text(e, env))
        ok, v = cases.const_of(e)
        if ok:
            return ("const", v)
        fv = fill_value(e)
        if fv is not None:
            return ("fill", ev.value(fv, env))
        return cases.OPAQUE(norm.canon(e))

    def w_decide(t, env, ev):
        if isinstance(t, ast.Compare) and len(t.ops) == 1 and isinstance(t.ops[0], (ast.Is, ast.IsNot)) \
                and isinstance(t.comparators[0], ast.Constant) and t.comparators[0].value is None:
            v = ev.value(t.left, env)
            if v[0] in ("in", "const", "fill"):
                isnone = v == ("in", "none") or v == ("const", None)
                return isnone if isinstance(t.ops[0], ast.Is) else not isnone
            return None
        if isinstance(t, ast.Call) and norm.call_name(t) == "isinstance" and len(t.args) == 2 and norm.canon(t.args[1]) == "float":
            v = ev.value(t.args[0], env)
            if v[0] == "in":
                return v[1] == "float"
            if v[0] == "const":
                return isinstance(v[1], float)
            if v[0] == "fill":
                return False
            return None
        if norm.canon(t) in ("(None is self._data)", "(None is not self._data)", "self._data"):
            return norm.canon(t) != "(None is self._data)"   # the block data have been loaded by the time they are decoded
        return None
    table = {}
    for kind in ("none", "float", "array"):
        env, _ = cases.CaseEval(rw.node, w_absval, w_decide).run({"<input>": ("in", kind)})
        table[kind] = (env or {}).get("self._weights", cases.UNKNOWN)
    reader_ok = table == {"none": ("fill", ("const", 1.0)), "float": ("fill", ("in", "float")), "array": ("in", "array")}
    cases_detail = "reader table %s" % table
    ctx.ob("W3PostingsWriter._mini_weights <-> W3LeafMatcher._read_weights", none_ok and scalar_ok and reader_ok,
           "weights collapse to None only if all are 1.0 and to a scalar only if all are equal; the reader expands None to 1.0 and a float to itself",
           detail="writer return cases and their guards: %s; %s" % (wcases, cases_detail), loc=mw.loc)
    # compact values
    mv = prog.method(W3 + "W3PostingsWriter", "_mini_values", inherited=False)
    rv = prog.method(W3 + "W3LeafMatcher", "_read_values", inherited=False)

    # both sides as tables over the fixed value size: None / negative / zero / positive -> what is produced
    def v_table(func, produced, inputname):
        fsvars = set()
        for name, vals in norm.assigned_names(func.node).items():
            if len(vals) == 1 and vals[0] is not None and norm.canon(vals[0]) in ("self._format.fixed_value_size()", "self._fixedsize"):
                fsvars.add(name)

        def is_fs(e):
            return (isinstance(e, ast.Name) and e.id in fsvars) or norm.canon(e) in ("self._format.fixed_value_size()", "self._fixedsize")

        def absval(e, env, ev):
            if is_fs(e):
                return ("fs",)
            t = cases.path_text(e, env)
            if t == inputname:
                return ("raw",)
            if cases.is_plain_path(e):
                return ("path", t)
            ok, v = cases.const_of(e)
            if ok:
                return ("const", v)
            if isinstance(e, ast.Call) and norm.call_name(e) in ("tuple", "list") and len(e.args) == 1 and ev.value(e.args[0], env) == ("raw",):
                return ("raw",)
            fv = fill_value(e)
            if fv is not None and ev.value(fv, env) == ("const", None):
                return ("nones",)
            return ("packed",)

        def decide(t, env, ev):
            if norm.canon(t) in ("(None is self._data)", "(None is not self._data)"):
                return norm.canon(t) != "(None is self._data)"
            if is_fs(t):
                return bool(env["<fs>"])        # `if fixedsize:` -- the truth value of the case's representative
            return cases.compare_concrete(t, lambda e: (True, env["<fs>"]) if is_fs(e) else (False, None))
        out = {}
        for label, rep in (("None", None), ("negative", -1), ("zero", 0), ("positive", 4)):
            env, ret = cases.CaseEval(func.node, absval, decide).run({"<fs>": rep})
            out[label] = ret if produced == "<return>" else (env or {}).get(produced, cases.UNKNOWN)
        return out
    wt = v_table(mv, "<return>", "self._values")
    rt = v_table(rv, "self._values", "self._data[2]")
    want_w = {"None": ("raw",), "negative": ("raw",), "zero": ("const", None), "positive": ("packed",)}
    want_r = {"None": ("raw",), "negative": ("raw",), "zero": ("nones",), "positive": ("packed",)}
    ctx.ob("W3PostingsWriter._mini_values <-> W3LeafMatcher._read_values", wt == want_w and rt == want_r,
           "value packing and unpacking branch on the same fixed-size cases (no fixed size: stored as they are; size 0: nothing stored, "
           "Nones read back; positive: joined and split)", detail="writer %s / reader %s" % (wt, rt), loc=mv.loc)


FMT_GETTER = {"f": "get_float", "I": "get_uint", "B": "get_byte", "i": "get_int", "q": "get_long", "H": "get_ushort"}


@rule("C10", "R2", "K4", "term-info record: pack order, unpack indices and direct-offset readers agree with the struct layout",
      min_instances=3,
      clause="W3TermInfo._struct's fields are packed by to_bytes and unpacked by from_bytes in the same order and "
             "meaning; read_weight/read_doc_freq/read_min_and_max_length/read_max_weight read at the struct offset "
             "of that field with the getter of its type; the 0xffffffff sentinel is used on both sides; the terms "
             "reader's frequency/doc_frequency use the matching reader.")
def c10_r2(ctx):
    prog = ctx.prog
    cls = prog.cls(W3 + "W3TermInfo")
    fmt = None
    v = cls.attrs.get("_struct")
    if isinstance(v, ast.Call) and v.args and isinstance(v.args[0], ast.Constant):
        fmt = v.args[0].value
    if not isinstance(fmt, str):
        raise AnalysisError("W3TermInfo._struct is no longer a literal Struct format")
    order = fmt[0] if fmt[0] in "!<>=@" else ""
    chars = list(fmt[len(order):])
    offsets = [struct.calcsize(order + "".join(chars[:i])) for i in range(len(chars))]
    tb = prog.method(W3 + "W3TermInfo", "to_bytes", inherited=False)
    fb = prog.method(W3 + "W3TermInfo", "from_bytes", inherited=False)
    ctx.saw(tb)
    ctx.saw(fb)
    pack = [c for c in norm.calls_in(tb.node) if norm.call_name(c) == "pack"]
    if len(pack) != 1:
        raise AnalysisError("to_bytes: expected one _struct.pack call")

    def role(t):
        t = t.lower()
        for k in ("inlined", "flags", "df", "minlength", "maxlength", "maxweight", "minid", "maxid", "weight"):
            if k in t:
                return "flags" if k == "inlined" else k
        return "?" + t
    wroles = [role(norm.deep_canon(a, tb.node)) for a in pack[0].args]
    # the local holding the unpacked tuple
    uvars = [n_ for n_, vals_ in norm.assigned_names(fb.node).items()
             if any(v_ is not None and isinstance(v_, ast.Call) and norm.call_name(v_) == "unpack" for v_ in vals_)]
    if len(uvars) != 1:
        raise AnalysisError("from_bytes: expected one local bound to _struct.unpack(...)")
    uvar = uvars[0]
    udef = norm.deep_canon(ast.Name(id=uvar, ctx=ast.Load()), fb.node)
    # the flags local: the one tested to choose between inline postings and (offset, length)
    fl = [st for st in ast.walk(fb.node) if isinstance(st, ast.If) and isinstance(st.test, ast.Name)
          and any("_inlined" in norm.stmt_text(x) for x in st.body)]
    flagvar = fl[0].test.id if len(fl) == 1 else None
    rroles = {}
    for st in ast.walk(fb.node):
        if isinstance(st, ast.Assign):
            tgt = norm.canon(st.targets[0])
            if isinstance(st.targets[0], ast.Name):
                tgt = "flags" if st.targets[0].id == flagvar else "?local " + tgt
            if isinstance(st.targets[0], ast.Name) and st.targets[0].id != flagvar:
                continue        # a plain local that only names an unpacked field: read where it is used
            for n in ast.walk(norm.inline_defs(st.value, fb.node)):
                if isinstance(n, ast.Subscript) and norm.canon(n.value) in (uvar, udef) and isinstance(n.slice, ast.Constant):
                    rroles.setdefault(n.slice.value, set()).add(role(tgt))
    rlist = [sorted(rroles.get(i, {"?"}))[0] if len(rroles.get(i, [])) == 1 else "?" for i in range(len(chars))]
    ctx.ob(cls, len(wroles) == len(chars) and wroles == rlist, "to_bytes packs and from_bytes unpacks the same fields in struct order",
           detail="format %s; packed %s; unpacked %s" % (fmt, wroles, rlist), loc=tb.loc)
    # length bytes
    l2b = [norm.canon(c.args[0]) for c in norm.calls_in(tb.node) if norm.call_name(c) == "length_to_byte"]
    b2l = [norm.deep_canon(c.args[0], fb.node) for c in norm.calls_in(fb.node) if norm.call_name(c) == "byte_to_length"]
    ctx.ob(cls, len(l2b) == 2 and b2l in (["%s[3]" % uvar, "%s[4]" % uvar], ["%s[3]" % udef, "%s[4]" % udef]) and wroles[3:5] == ["minlength", "maxlength"],
           "both length fields go through length_to_byte / byte_to_length", detail="%s / %s" % (l2b, b2l), loc=tb.loc)
    sent_w = norm.stmt_text(tb.node).count("4294967295")
    sent_r = norm.stmt_text(fb.node).count("4294967295")
    ctx.ob(cls, sent_w == 2 and sent_r == 2, "min/max id use the 0xffffffff 'none' sentinel on both sides", loc=tb.loc)
    # inline flag <-> branch
    okf = bool(fl) and flagvar is not None and any("_inlined" in norm.stmt_text(x) for x in fl[0].body) and \
        any("_offset" in norm.stmt_text(x) for x in fl[0].orelse)
    wl = [st for st in ast.walk(tb.node) if isinstance(st, ast.If) and norm.deep_canon(st.test, tb.node) == "self.is_inlined()"]
    okw = bool(wl) and any("_inlined" in norm.stmt_text(x) for x in wl[0].body) and any("_offset" in norm.stmt_text(x) for x in wl[0].orelse)
    if not okw:
        # second spelling: early return instead of else -- read the branch facts where the two tails are built
        fw = guards.Facts(tb, textfn=lambda e: norm.deep_canon(e, tb.node))
        seen_in = seen_off = 0
        okw = True
        for n_ in fw.g.nodes:
            t_ = " ".join(norm.canon(e_) for e_ in cfgmod.node_exprs(n_))
            facts_ = fw.at(n_) or set()
            if "dumps(self._inlined" in t_:
                seen_in += 1
                okw = okw and ("T", "self.is_inlined()") in facts_
            if "self._offset" in t_:
                seen_off += 1
                okw = okw and ("F", "self.is_inlined()") in facts_
        okw = okw and seen_in >= 1 and seen_off >= 1
    ctx.ob(cls, okf and okw, "inlined flag selects inline postings vs (offset, length) identically when writing and reading", loc=fb.loc)
    # direct readers
    sysmod = prog.module("system")
    whmod = prog.module("codec.whoosh3")
    readers = {"read_weight": ("weight", 1), "read_doc_freq": ("df", 2), "read_max_weight": ("maxweight", 5)}
    for rn, (fieldrole, idx) in readers.items():
        f = prog.method(W3 + "W3TermInfo", rn, inherited=False)
        ctx.saw(f)
        gets = [c for c in norm.calls_in(f.node) if norm.call_name(c).startswith("get_")]
        ok = False
        detail = ""
        if len(gets) == 1:
            e = norm.inline_defs(gets[0].args[0], f.node)
            e = norm.substitute(e, {"datapos": ast.Constant(value=0)})
            off = prog.fold_str(whmod, e)
            getter = norm.call_name(gets[0])
            want_getter = FMT_GETTER.get(chars[idx])
            ok = off == offsets[idx] and getter == want_getter and wroles[idx] == fieldrole
            detail = "offset %s (struct offset of field %d '%s' = %d), getter %s (type '%s' -> %s)" % (
                off, idx, wroles[idx], offsets[idx], getter, chars[idx], want_getter)
        ctx.ob(f, ok, "reads the %s field at its struct offset with the getter of its type" % fieldrole, detail=detail)
    f = prog.method(W3 + "W3TermInfo", "read_min_and_max_length", inherited=False)
    gets = [c for c in norm.calls_in(f.node) if norm.call_name(c).startswith("get_")]
    offs = []
    for g in gets:
        e = norm.substitute(norm.inline_defs(g.args[0], f.node), {"datapos": ast.Constant(value=0)})
        offs.append((prog.fold_str(whmod, e), norm.call_name(g)))
    ctx.ob(f, offs == [(offsets[3], "get_byte"), (offsets[4], "get_byte")] and
           len([c for c in norm.calls_in(f.node) if norm.call_name(c) == "byte_to_length"]) == 2,
           "reads min and max length bytes at their struct offsets and decodes both", detail=str(offs))
    # users
    tr = prog.cls(W3 + "W3TermsReader")
    for meth, rn in (("frequency", "read_weight"), ("doc_frequency", "read_doc_freq")):
        g = tr.methods.get(meth)
        if g is None:
            raise AnalysisError("W3TermsReader.%s vanished" % meth)
        used = [norm.call_name(c) for c in norm.calls_in(g.node) if norm.call_name(c).startswith("read_")]
        ctx.ob(g, used == [rn], "W3TermsReader.%s uses W3TermInfo.%s" % (meth, rn), detail=str(used))


STAT_ATTRS = {"_weight": "sum", "_df": "count", "_minlength": "min", "_maxlength": "max", "_maxweight": "max",
              "_maxid": "last", "_minid": "first"}


@rule("C10", "R4", "K1", "term statistics are accumulated over every block, with max/min in the right direction",
      min_instances=3, also=("C12",),
      clause="W3TermInfo.add_block folds every statistic on every path (sum of weights, count, min of min lengths, "
             "max of max lengths, max of max weights, first/last id); it is called once per written block and once "
             "on the inline path before the buffer is reset; _new_block resets every per-block statistic that "
             "add_posting updates; add_posting keeps a running max of weights/lengths and min of lengths.")
def c10_r4(ctx):
    prog = ctx.prog
    ab = prog.method(W3 + "W3TermInfo", "add_block", inherited=False)
    ctx.saw(ab)
    g = cfgmod.cfg_of(ab)

    def transfer(node, state):
        out = set(state)
        a = node.ast
        if node.kind == "stmt" and isinstance(a, (ast.Assign, ast.AugAssign)):
            tg = a.targets if isinstance(a, ast.Assign) else [a.target]
            for x in tg:
                if isinstance(x, ast.Attribute) and isinstance(x.value, ast.Name) and x.value.id == "self":
                    out.add(x.attr)
        return frozenset(out)
    sin, sout = cfgmod.forward(g, frozenset(), transfer, include_exc=False)
    must = sin[g.exit.id] or frozenset()
    # _minid is only set for the first block: it must be assigned under `self._minid is None`
    need = set(STAT_ATTRS) - {"_minid"}
    missing = sorted(need - set(must))
    ctx.ob(ab, not missing, "every statistic is updated on every path through add_block",
           detail="not updated on some path: %s" % missing if missing else "")
    # shape of each update
    bad = []
    for st in ast.walk(ab.node):
        if isinstance(st, (ast.Assign, ast.AugAssign)):
            tg = st.targets[0] if isinstance(st, ast.Assign) else st.target
            if not (isinstance(tg, ast.Attribute) and isinstance(tg.value, ast.Name) and tg.value.id == "self"):
                continue
            attr = tg.attr
            if attr not in STAT_ATTRS:
                continue
            val = norm.deep_canon(st.value, ab.node)
            kind = STAT_ATTRS[attr]
            ok = True
            if kind == "sum":
                ok = isinstance(st, ast.AugAssign) and isinstance(st.op, ast.Add) and "sum(" in val and "weights" in val
            elif kind == "count":
                ok = isinstance(st, ast.AugAssign) and isinstance(st.op, ast.Add) and val == "len(block)"
            elif kind == "max":
                getter = {"_maxlength": "block.max_length()", "_maxweight": "block.max_weight()"}[attr]
                ok = val in ("max(self.%s, %s)" % (attr, getter), "max(%s, self.%s)" % (getter, attr), getter)
            elif kind == "min":
                ok = val in ("min(self._minlength, block.min_length())", "min(block.min_length(), self._minlength)", "block.min_length()")
            elif kind == "last":
                ok = val == "block.max_id()"
            elif kind == "first":
                ok = val == "block.min_id()"
            if not ok:
                bad.append("self.%s <- %s" % (attr, val))
    ctx.ob(ab, not bad, "each statistic is folded with the right aggregate (sum / count / min / max / first / last)",
           detail="; ".join(bad))
    # a plain (non-max) assignment of a max statistic is only sound for the first block
    fa = guards.Facts(ab)
    for n in fa.g.nodes:
        a = n.ast
        if n.kind == "stmt" and isinstance(a, ast.Assign) and isinstance(a.targets[0], ast.Attribute) and \
                a.targets[0].attr in ("_maxweight", "_maxlength", "_minlength"):
            val = norm.canon(a.value)
            if not val.startswith(("max(", "min(")):
                facts = fa.at(n) or frozenset()
                first = any(p == "T" and (" is None" in t or "(None is " in t) for (p, t) in facts) or \
                    any(p == "F" and ("is not None" in t or "(None is not " in t) for (p, t) in facts)
                ctx.ob(ab, first, "unfolded assignment self.%s = %s happens only for the first block" % (a.targets[0].attr, val),
                       loc=ctx.nodeloc(ab, a))
    # call sites of add_block in the postings writer
    pw = prog.cls(W3 + "W3PostingsWriter")
    wb = pw.methods["_write_block"]
    fp = pw.methods["finish_postings"]
    for f in (wb, fp):
        ctx.saw(f)
        names = [norm.call_name(c) for c in norm.calls_in(f.node)]
        if f is wb:
            ok = names.count("add_block") == 1 and "_new_block" in names and names.index("add_block") < names.index("_new_block")
            ctx.ob(f, ok, "add_block(self) is called once per written block, before the block buffer is reset", detail=str([n for n in names if n in ("add_block", "_new_block")]))
        else:
            # inline path: add_block then set_inlined; otherwise _write_block handles it
            fa = guards.Facts(f)
            sites = []
            for n in fa.g.nodes:
                for frag in cfgmod.node_exprs(n):
                    for c in norm.calls_in(frag):
                        if norm.call_name(c) == "add_block":
                            sites.append(sorted(fa.at(n) or []))
            ctx.ob(f, len(sites) == 1, "inline path folds the (unwritten) buffer into the term info exactly once", detail=str(sites))
            # postings are inlined only when NO block of this term was written before (the written blocks would be orphaned)
            for n in fa.g.nodes:
                for frag in cfgmod.node_exprs(n):
                    for c in norm.calls_in(frag):
                        if norm.call_name(c) == "set_inlined":
                            facts = fa.at(n) or frozenset()
                            ok_ = ("F", "self.written()") in facts or ("T", "(0 == self._blockcount)") in facts or ("F", "self._blockcount") in facts
                            ctx.ob(f, ok_, "postings are inlined only if nothing of this term was written to the posting file yet",
                                   detail="facts: %s" % sorted(facts), loc=ctx.nodeloc(f, c))
    nb = pw.methods["_new_block"]
    ap = pw.methods["add_posting"]
    # the "block is full" flush comes before anything of the new posting is recorded in the block buffer or its statistics
    g_ap = cfgmod.cfg_of(ap)

    def is_flush(n_):
        return any(norm.call_name(c_) in ("_write_block", "_new_block") for frag in cfgmod.node_exprs(n_) for c_ in norm.calls_in(frag))

    def is_update(n_):
        a_ = n_.ast
        if n_.kind != "stmt":
            return False
        if isinstance(a_, (ast.Assign, ast.AugAssign)):
            tg_ = a_.targets[0] if isinstance(a_, ast.Assign) else a_.target
            return isinstance(tg_, ast.Attribute) and norm.canon(tg_.value) == "self"
        return any(norm.call_name(c_) in ("append", "extend") and norm.canon(norm.receiver(c_) or ast.Name(id="")).startswith("self._")
                   for frag in cfgmod.node_exprs(n_) for c_ in norm.calls_in(frag))
    flushes = [n_ for n_ in g_ap.nodes if is_flush(n_)]
    late = None
    for u in [n_ for n_ in g_ap.nodes if is_update(n_)]:
        pth = cfgmod.find_path(g_ap, u, is_flush)
        if pth is not None:
            late = [u] + pth
    ctx.ob(ap, len(flushes) == 1 and late is None,
           "add_posting flushes a full block before it records anything of the new posting (ids, weights, values, block statistics)",
           detail="a statistic of the new posting is folded into the block that is then written and reset: the posting's own block "
                  "understates max weight / lengths" if late else "", path=cfgmod.path_text(late) if late else None)
    upd = set()
    for st in ast.walk(ap.node):
        if isinstance(st, (ast.Assign, ast.AugAssign)):
            tg = st.targets[0] if isinstance(st, ast.Assign) else st.target
            if isinstance(tg, ast.Attribute) and norm.canon(tg.value) == "self":
                upd.add(tg.attr)
        if isinstance(st, ast.Call) and norm.call_name(st) == "append":
            r = norm.canon(norm.receiver(st))
            if r.startswith("self."):
                upd.add(r.split(".")[1])
    reset = set()
    for st in ast.walk(nb.node):
        if isinstance(st, ast.Assign):
            for tg in st.targets:
                if isinstance(tg, ast.Attribute) and norm.canon(tg.value) == "self":
                    reset.add(tg.attr)
    ctx.ob(nb, upd <= reset, "_new_block resets everything add_posting accumulates", detail="accumulated %s; reset %s" % (sorted(upd), sorted(reset)))
    # directions in add_posting
    txt = [norm.canon(n.test) for n in ast.walk(ap.node) if isinstance(n, ast.If)]
    # either spelling: a guarded assignment (`if weight > self._maxweight: self._maxweight = weight`; N24 turns the plain ones into
    # max()/min()) or the builtin directly
    folds = {}
    for st in ast.walk(ap.node):
        if isinstance(st, ast.Assign) and len(st.targets) == 1 and norm.canon(st.targets[0]).startswith("self._") and isinstance(st.value, ast.Call) \
                and isinstance(st.value.func, ast.Name) and st.value.func.id in ("max", "min") and len(st.value.args) == 2:
            args_ = sorted(norm.deep_canon(a_, ap.node) for a_ in st.value.args)
            folds[norm.canon(st.targets[0])] = (st.value.func.id, args_)
    ok_w = "(self._maxweight < weight)" in txt or folds.get("self._maxweight") == ("max", sorted(["self._maxweight", "weight"]))
    ok_min = any("length < minlength" in t or "(length < " in t for t in txt) or folds.get("self._minlength") == ("min", sorted(["self._minlength", "length"]))
    ok_max = "(self._maxlength < length)" in txt or folds.get("self._maxlength") == ("max", sorted(["self._maxlength", "length"]))
    ok = ok_w and ok_min and ok_max
    ctx.ob(ap, ok, "add_posting keeps max weight (>), min length (<) and max length (>)", detail="%s %s" % (txt, folds))
    # block accessors return the matching attribute
    for m, attr in (("max_weight", "self._maxweight"), ("min_length", "self._minlength"), ("max_length", "self._maxlength")):
        f = pw.methods[m]
        rets = [norm.canon(r.value) for r in returns_of(f)]
        ctx.ob(f, rets == [attr], "W3PostingsWriter.%s() returns %s" % (m, attr), detail=str(rets))
    # TermInfo.add_posting (inline / memory codec) folds the same way
    tp = prog.method("reading.TermInfo", "add_posting", inherited=False)
    txt = norm.stmt_text(tp.node)
    ok = "self._maxweight = max(self._maxweight, weight)" in txt and "min(self._minlength, length)" in txt and \
        "self._maxlength = max(self._maxlength, length)" in txt
    ctx.ob(tp, ok, "TermInfo.add_posting folds max weight / min length / max length")


@rule("C10", "R5", "K10", "method calls on receivers of known class resolve in that class",
      min_instances=50, also=("C14", "C07"),
      clause="For every call x.m(...) whose receiver type is known (attribute-type table, constructor-assigned "
             "local, or self), m is defined on (a superclass or subclass of) that type; for builtin sets/dicts/lists "
             "assigned in the same function the method exists on the builtin and the arity fits.")
def c10_r5(ctx):
    prog = ctx.prog
    calls = calls_of(prog)
    n = 0
    BUILTIN_ARITY = {("set", "clear"): 0, ("set", "add"): 1, ("set", "discard"): 1, ("set", "remove"): 1,
                     ("dict", "clear"): 0, ("list", "clear"): 0}
    for f in prog.functions.values():
        mod = f.module.name
        if mod.startswith(("whoosh.lang", "whoosh.support", "whoosh.filedb.gae", "whoosh.filedb.fileindex",
                           "whoosh.util.testing", "whoosh.legacy")):
            continue
        al = norm.aliases(f.node)
        for c in norm.calls_in(f.node):
            if not isinstance(c.func, ast.Attribute):
                continue
            recv = c.func.value
            nm = c.func.attr
            # builtin set assigned to an attribute of self in this class
            rt = norm.canon(recv, al)
            if f.cls is not None and rt.startswith("self.") and rt.count(".") == 1 and (("set", nm) in BUILTIN_ARITY):
                kinds = set()
                from ..model import self_attr_assignments
                for (g, v, st) in self_attr_assignments(prog, f.cls, inherited=False).get(rt.split(".")[1], []):
                    if isinstance(v, ast.Call) and isinstance(v.func, ast.Name) and v.func.id in ("set", "frozenset"):
                        kinds.add("set")
                    elif isinstance(v, ast.Set):
                        kinds.add("set")
                    elif isinstance(v, ast.Constant) and v.value is None:
                        pass
                    elif isinstance(v, ast.Name):
                        pass
                    else:
                        kinds.add("other")
                if kinds == {"set"}:
                    n += 1
                    want = BUILTIN_ARITY[("set", nm)]
                    ctx.ob(f, len(c.args) == want and not c.keywords, "set.%s() is called with %d argument(s)" % (nm, want),
                           detail="%s: TypeError at run time" % norm.canon(c), loc=ctx.nodeloc(f, c))
                continue
            if isinstance(recv, ast.Name) and recv.id == "self":
                continue  # self.m(): mixins and injected attributes make this unreliable
            types = calls.expr_types(f, recv, al)
            if not types:
                continue
            if any(isinstance(k, str) and k not in ("object",) for t in types for k in prog.mro(t)):
                continue  # a base class outside the program (e.g. multiprocessing.Process) may define it
            n += 1
            found = False
            for t in types:
                if prog.lookup(t, nm) is not None:
                    found = True
                for s_ in prog.subclasses(t, strict=True):
                    if nm in s_.methods:
                        found = True
                # attribute holding a callable / data attribute
                from ..model import self_attr_assignments
                if nm in self_attr_assignments(prog, t):
                    found = True
                if prog.lookup_attr(t, nm) is not None:
                    found = True
            ctx.saw(f)
            ctx.ob(f, found, "%s.%s() resolves on %s" % (norm.canon(recv, al), nm, "/".join(t.name for t in types)),
                   detail="no class in the receiver's hierarchy defines %s: AttributeError at run time" % nm if not found else "",
                   loc=ctx.nodeloc(f, c))
    if n < 50:
        raise AnalysisError("only %d typed call sites found" % n)


PACK_SIZE = {"pack_uint": "I", "pack_int": "i", "pack_float": "f", "pack_long": "q", "pack_ushort": "H", "pack_byte": "B"}


def _flatten_add(e):
    if isinstance(e, ast.BinOp) and isinstance(e.op, ast.Add):
        return _flatten_add(e.left) + _flatten_add(e.right)
    return [e]


@rule("C10", "R3", "K4", "posting value formats: every decoder reads the header and tuple layout its class's encoder writes",
      min_instances=4, also=("C17",),
      clause="For each Format class, resolved through inheritance: the fixed header encode() writes (pack_uint count "
             "[+ pack_float weight]) has the size every decode_* skips before loads(); frequency/weight are read from "
             "the matching header field; tuple elements indexed by decoders exist in the tuples encode() appends; and "
             "word_values() requests (positions/chars/boosts) every token attribute it reads.")
def c10_r3(ctx):
    prog = ctx.prog
    base = prog.cls("formats.Format")
    fmod = prog.module("formats")
    for cls in prog.subclasses(base, strict=True):
        enc = prog.lookup(cls, "encode")
        if enc is None or is_abstract_body(enc):
            continue
        ctx.saw(enc)
        rets = [r.value for r in returns_of(enc) if r.value is not None]
        if len(rets) != 1:
            continue
        rv = rets[0]
        if isinstance(rv, ast.Tuple):
            rv = rv.elts[0]
        parts = _flatten_add(rv)
        header = []
        has_pickle = False
        for p in parts:
            nm = norm.call_name(p) if isinstance(p, ast.Call) else None
            if nm in PACK_SIZE:
                header.append(PACK_SIZE[nm])
            elif nm == "dumps":
                has_pickle = True
        if not has_pickle:
            continue  # fixed-size formats (Existence, Frequency) have no pickled tail
        hsize = struct.calcsize("!" + "".join(header))
        # arity of the tuples appended
        arity = None
        for c in norm.calls_in(enc.node):
            if norm.call_name(c) == "append" and c.args:
                a = c.args[0]
                arity = len(a.elts) if isinstance(a, ast.Tuple) else 1
        dec_names = set()
        for k in prog.mro(cls):
            if isinstance(k, str):
                continue
            dec_names |= set(m for m in k.methods if m.startswith("decode_"))
        for dn in sorted(dec_names):
            d = prog.lookup(cls, dn)
            p = d.params[1] if len(d.params) > 1 else None
            if p is None:
                continue
            ctx.saw(d)
            construct = "%s.%s [encode of %s]" % (d.short.rsplit(".", 1)[0].split(".")[-1], dn, cls.name)
            for c in norm.calls_in(d.node):
                nm = norm.call_name(c)
                if nm == "loads" and c.args and isinstance(c.args[0], ast.Subscript) and norm.canon(c.args[0].value) == p:
                    sl = c.args[0].slice
                    lo = prog.fold_str(fmod, sl.lower) if isinstance(sl, ast.Slice) and sl.lower is not None else 0
                    ctx.ob(construct, lo == hsize, "pickled tail is read after the %d-byte header encode() writes" % hsize,
                           detail="loads(%s[%s:]) but header is %s = %d bytes" % (p, lo, header, hsize), loc=ctx.nodeloc(d, c))
                if nm in ("unpack_uint", "unpack_float") and c.args and isinstance(c.args[0], ast.Subscript) \
                        and norm.canon(c.args[0].value) == p and isinstance(c.args[0].slice, ast.Slice):
                    sl = c.args[0].slice
                    lo = prog.fold_str(fmod, sl.lower) if sl.lower is not None else 0
                    hi = prog.fold_str(fmod, sl.upper) if sl.upper is not None else None
                    want = "I" if nm == "unpack_uint" else "f"
                    # which header field starts at lo?
                    offs = [struct.calcsize("!" + "".join(header[:i])) for i in range(len(header))]
                    ok = lo in offs and header[offs.index(lo)] == want and hi == lo + struct.calcsize("!" + want)
                    ctx.ob(construct, ok, "%s reads a '%s' header field at its offset" % (nm, want),
                           detail="slice [%s:%s]; header layout %s at offsets %s" % (lo, hi, header, offs), loc=ctx.nodeloc(d, c))
            # tuple element indices
            if arity is not None:
                idx = [n.slice.value for n in ast.walk(d.node) if isinstance(n, ast.Subscript) and isinstance(n.value, ast.Name)
                       and n.value.id == "code" and isinstance(n.slice, ast.Constant) and isinstance(n.slice.value, int)]
                if idx:
                    ctx.ob(construct, max(idx) < arity and arity > 1, "indexes elements 0..%d of the %d-tuples encode() appends" % (max(idx), arity),
                           loc=d.loc)
    # word_values request what they read
    NEED = {"pos": "positions", "startchar": "chars", "endchar": "chars", "boost": "boosts"}
    for cls in prog.subclasses(base, strict=True):
        wv = cls.methods.get("word_values")
        if wv is None or is_abstract_body(wv):
            continue
        ctx.saw(wv)
        reads = set()
        for n in ast.walk(wv.node):
            if isinstance(n, ast.Attribute) and isinstance(n.value, ast.Name) and n.value.id == "t" and n.attr in NEED:
                reads.add(NEED[n.attr])
        asked = set()
        for st in ast.walk(wv.node):
            if isinstance(st, ast.Assign) and isinstance(st.targets[0], ast.Subscript) and norm.canon(st.targets[0].value) == "kwargs" \
                    and isinstance(st.targets[0].slice, ast.Constant) and isinstance(st.value, ast.Constant) and st.value.value is True:
                asked.add(st.targets[0].slice.value)
        ctx.ob(wv, reads <= asked, "word_values asks the analyzer for every token attribute it reads",
               detail="reads %s, requests %s" % (sorted(reads), sorted(asked)))
        # every format scales the weight it emits by its field_boost (sibling agreement: (text, freq, WEIGHT, value) tuples)
        wal = norm.aliases(wv.node)
        tuples = [t_ for t_ in ast.walk(wv.node) if isinstance(t_, ast.Tuple) and len(t_.elts) == 4 and isinstance(t_.ctx, ast.Load)]
        emitted = []
        for n in ast.walk(wv.node):
            if isinstance(n, ast.Yield) and n.value in tuples:
                emitted.append(n.value)
            if isinstance(n, (ast.GeneratorExp, ast.ListComp)) and n.elt in tuples:
                emitted.append(n.elt)
        for t_ in emitted:
            wexpr = norm.substitute(norm.inline_defs(t_.elts[2], wv.node), wal)
            ctx.ob(wv, "self.field_boost" in norm.canon(wexpr), "the emitted posting weight is scaled by the format's field_boost",
                   detail="weight = %s: this format ignores the field boost that its sibling formats multiply in" % norm.canon(wexpr),
                   loc=ctx.nodeloc(wv, t_))
        if not emitted:
            raise AnalysisError("%s: no (text, freq, weight, value) tuple found" % wv.short)


@rule("C10", "R6", "K10", "self-calls in the posting formats and codecs resolve",
      min_instances=40,
      clause="In formats.py and the codec modules every self.m(...) resolves to a method/attribute of the class, "
             "a superclass, a subclass or a nested class (hasattr-guarded calls excepted).")
def c10_r6(ctx):
    from ..model import self_attr_assignments
    prog = ctx.prog
    n = 0
    for f in prog.functions.values():
        if f.cls is None or not (f.module.name == "whoosh.formats" or f.module.name.startswith("whoosh.codec.")):
            continue
        if any(isinstance(k, str) and k != "object" for k in prog.mro(f.cls)):
            continue
        src = norm.stmt_text(f.node)
        for c in norm.calls_in(f.node):
            if not (isinstance(c.func, ast.Attribute) and isinstance(c.func.value, ast.Name) and c.func.value.id == "self"):
                continue
            nm = c.func.attr
            if nm == "__class__" or ("hasattr(self, '%s')" % nm) in src:
                continue
            n += 1
            ok = prog.lookup(f.cls, nm) is not None or prog.lookup_attr(f.cls, nm) is not None or \
                nm in self_attr_assignments(prog, f.cls)
            if not ok:
                for s_ in prog.subclasses(f.cls, strict=True):
                    if nm in s_.methods or nm in s_.attrs or nm in s_.nested or nm in self_attr_assignments(prog, s_, inherited=False):
                        ok = True
            if not ok:
                for k in prog.mro(f.cls):
                    if not isinstance(k, str) and nm in k.nested:
                        ok = True
            ctx.ob(f, ok, "self.%s(...) resolves" % nm, detail="no such method or attribute: AttributeError at run time" if not ok else "",
                   loc=ctx.nodeloc(f, c))
    if n < 40:
        raise AnalysisError("only %d self-calls scanned" % n)


# Quantities for which 0 is an ordinary value and None means "not set".  Candidates were listed mechanically (attributes that
# are both None-able -- assigned None / a None-default parameter / compared with `is None` -- and used in arithmetic), then each
# was confirmed by reading; attributes for which truthiness is the intended test (compression level 0 = off, relativedelta
# fields, strings, containers) were left out.
ZERO_IS_A_VALUE = {
    "_minid": "first document number of a term; document 0 exists",
    "_maxid": "last document number of a term",
    "_minlength": "shortest field length seen; empty fields have length 0",
    "_maxlength": "longest field length seen",
    "_maxweight": "largest weight seen",
    "_docnum": "current document number",
    "_id": "cached current document number of a union matcher (None = invalidated)",
    "_pos": "token position counter",
    "pos": "token position; the first token is at 0",
    "startchar": "character offset; the first token starts at 0",
    "endchar": "character offset",
    "boost": "a boost of 0.0 is a value",
    "_nextdoc": "next parent document number (None = exhausted)",
    "_nextchild": "next child document number",
}


def _truth_operands(e, out):
    if isinstance(e, ast.UnaryOp) and isinstance(e.op, ast.Not):
        _truth_operands(e.operand, out)
    elif isinstance(e, ast.BoolOp):
        for v in e.values:
            _truth_operands(v, out)
    else:
        out.append(e)


def truthiness_tested(funcnode):
    """expressions whose truth value is tested: if/while/assert/conditional-expression tests and every operand but the last
    of and/or (through `not`)"""
    out = []
    for n in ast.walk(funcnode):
        if isinstance(n, (ast.If, ast.While, ast.IfExp, ast.Assert)):
            _truth_operands(n.test, out)
        elif isinstance(n, ast.BoolOp):
            for v in n.values[:-1]:
                _truth_operands(v, out)
        elif isinstance(n, ast.comprehension):
            for c in n.ifs:
                _truth_operands(c, out)
    return out


def _falsy_literal(e):
    return (isinstance(e, ast.Constant) and not e.value) or (isinstance(e, (ast.List, ast.Tuple, ast.Dict, ast.Set)) and not getattr(e, "elts", getattr(e, "keys", None)))


@rule("C10", "R7", "K2", "quantities for which 0 is a value are tested with `is None`, never by truthiness",
      min_instances=1, also=("C09", "C17", "C11", "C13"),
      clause="No if/while/and/or/not/conditional-expression anywhere tests the truth value of a document number, position, "
             "character offset, length/weight extreme or boost attribute (table ZERO_IS_A_VALUE), nor of a local that starts as "
             "None and is used in arithmetic with a number; `d.get(k) or default` is not used where the default is a numeric "
             "setting (a stored 0 / 0.0 would be taken for 'missing').")
def c10_r7(ctx):
    prog = ctx.prog
    nfunc = 0
    for f in prog.functions.values():
        if f.module.name.startswith("whoosh.support.") or f.module.name.startswith("whoosh.lang."):
            continue
        nfunc += 1
        tested = truthiness_tested(f.node)
        for e in tested:
            if isinstance(e, ast.Attribute) and e.attr in ZERO_IS_A_VALUE:
                ctx.saw(f)
                ctx.ob(f, False, "`%s` is tested with `is None`, not by truthiness" % norm.canon(e),
                       detail="%s: the value 0 would be treated as 'not set'" % ZERO_IS_A_VALUE[e.attr], loc=ctx.nodeloc(f, e))
        # locals: start as None, take part in arithmetic with a number
        an = norm.assigned_names(f.node)
        none_init = set(nm for nm, vals in an.items() if any(isinstance(v, ast.Constant) and v.value is None for v in vals if v is not None))
        arith = set()
        for n in ast.walk(f.node):
            if isinstance(n, ast.BinOp) and isinstance(n.op, (ast.Add, ast.Sub)):
                for a_, b_ in ((n.left, n.right), (n.right, n.left)):
                    if isinstance(a_, ast.Name) and isinstance(b_, ast.Constant) and isinstance(b_.value, (int, float)) and not isinstance(b_.value, bool):
                        arith.add(a_.id)
            if isinstance(n, ast.AugAssign) and isinstance(n.op, (ast.Add, ast.Sub)) and isinstance(n.target, ast.Name) \
                    and isinstance(n.value, ast.Constant) and isinstance(n.value.value, (int, float)):
                arith.add(n.target.id)
        for e in tested:
            if isinstance(e, ast.Name) and e.id in none_init and e.id in arith:
                ctx.saw(f)
                ctx.ob(f, False, "local `%s` (None = not set yet, then a number) is tested with `is None`, not by truthiness" % e.id,
                       detail="when the number is 0 the variable looks unset again", loc=ctx.nodeloc(f, e))
        # d.get(k) or <numeric setting>
        num_attrs = set()
        if f.cls is not None:
            init = prog.lookup(f.cls, "__init__")
            if init is not None:
                a = init.node.args
                pos = [x.arg for x in a.args]
                defaults = dict(zip(pos[len(pos) - len(a.defaults):], a.defaults))
                nump = set(p for p, d in defaults.items() if isinstance(d, ast.Constant) and isinstance(d.value, (int, float)) and not isinstance(d.value, bool))
                for st in ast.walk(init.node):
                    if isinstance(st, ast.Assign) and isinstance(st.value, ast.Name) and st.value.id in nump:
                        for t in st.targets:
                            if isinstance(t, ast.Attribute) and isinstance(t.value, ast.Name) and t.value.id == "self":
                                num_attrs.add(t.attr)
        for n in ast.walk(f.node):
            if isinstance(n, ast.BoolOp) and isinstance(n.op, ast.Or) and len(n.values) == 2:
                l, r = n.values
                if isinstance(l, ast.Call) and norm.call_name(l) == "get" and not _falsy_literal(r):
                    numeric_default = (isinstance(r, ast.Constant) and isinstance(r.value, (int, float))) or \
                        (isinstance(r, ast.Attribute) and isinstance(r.value, ast.Name) and r.value.id == "self" and r.attr in num_attrs)
                    if numeric_default:
                        ctx.saw(f)
                        ctx.ob(f, False, "`%s` does not use `or` to supply a numeric default" % norm.canon(n)[:80],
                               detail="a stored 0 / 0.0 is falsy and is replaced by the default: test membership or `is None` instead",
                               loc=ctx.nodeloc(f, n))
    ctx.ob("whole program", nfunc > 2000, "%d functions scanned for truthiness tests of zero-valued quantities" % nfunc)
    if nfunc < 2000:
        raise AnalysisError("only %d functions scanned" % nfunc)


@rule("C10", "R12", "K2", "what a caller hands over as a generator is stored only after it has been materialised",
      min_instances=1, also=("C18", "C08"),
      clause="Where some call site passes a generator (a generator expression, or a call of a local function that yields) for a "
             "parameter, no implementation of the called method may keep that parameter as it is in long-lived state (self.x = p, "
             "self.x[k] = p, self.x.append(p)): the first read exhausts it and every later read sees nothing.  It has to go through "
             "tuple()/list()/sorted()/a comprehension first.  (PerDocumentWriter.add_vector_matcher hands add_vector_items() a "
             "generator over the source reader's vector when documents are copied with add_reader(); the memory codec keeps vectors "
             "in a dict.)")
def c10_r12(ctx):
    prog = ctx.prog
    # 1. call sites with a generator-valued positional argument
    gen_params = {}     # method name -> set of positional indices
    for f in prog.functions.values():
        localgens = set()
        for x in ast.walk(f.node):
            if isinstance(x, ast.FunctionDef) and x is not f.node and any(isinstance(y, (ast.Yield, ast.YieldFrom)) for y in ast.walk(x)):
                localgens.add(x.name)
        for c in norm.calls_in(f.node, include_nested_defs=True) if "include_nested_defs" in norm.calls_in.__code__.co_varnames else norm.calls_in(f.node):
            # resolved callees only: a call on self reaches the implementations of the caller's own hierarchy
            if not isinstance(c.func, ast.Attribute) or norm.canon(c.func.value) != "self" or f.cls is None:
                continue
            for i, a in enumerate(c.args):
                a2 = norm.inline_defs(a, f.node) if isinstance(a, ast.Name) else a
                if isinstance(a2, ast.GeneratorExp) or (isinstance(a2, ast.Call) and isinstance(a2.func, ast.Name) and a2.func.id in localgens):
                    root = [b for b in prog.mro(f.cls) if hasattr(b, "methods") and c.func.attr in b.methods]
                    gen_params.setdefault((c.func.attr, (root[-1] if root else f.cls).qualname), set()).add(i)
    n = 0
    materialisers = ("tuple", "list", "sorted", "set", "frozenset", "dict", "array")
    for (name, rootq), idxs in sorted(gen_params.items()):
        rootcls = prog.classes[rootq]
        for g in prog.methods_named(name):
            if g.cls is None or is_abstract_body(g) or rootcls not in prog.mro(g.cls):
                continue
            ps = [p_ for p_ in g.params if p_ not in ("self", "cls")]
            for i in sorted(idxs):
                if i >= len(ps):
                    continue
                p_ = ps[i]
                n += 1
                ctx.saw(g)
                bad = None
                rebound = any(isinstance(st, ast.Assign) and any(isinstance(t, ast.Name) and t.id == p_ for t in st.targets) for st in ast.walk(g.node))
                if rebound:
                    continue        # re-bound (usually to its materialised form): what is stored later is not the argument
                for st in ast.walk(g.node):
                    if isinstance(st, ast.Assign) and isinstance(st.value, ast.Name) and st.value.id == p_:
                        for t in st.targets:
                            root = t
                            while isinstance(root, (ast.Subscript, ast.Attribute)):
                                root = root.value
                            if isinstance(t, (ast.Subscript, ast.Attribute)) and isinstance(root, ast.Name) and root.id == "self":
                                bad = st
                    if isinstance(st, ast.Call) and isinstance(st.func, ast.Attribute) and st.func.attr in ("append", "add", "setdefault") and \
                            norm.canon(st.func.value).startswith("self.") and any(isinstance(a, ast.Name) and a.id == p_ for a in st.args):
                        bad = st
                ctx.ob(g, bad is None, "parameter `%s` (a generator at some call site of %s()) is not stored as it is" % (p_, name),
                       detail="" if bad is None else "`%s` keeps the caller's one-shot generator: the second read of it is empty (use one of %s)"
                       % (norm.canon(bad) if not isinstance(bad, ast.stmt) else norm.stmt_text(bad), "/".join(materialisers)),
                       loc=ctx.nodeloc(g, bad) if bad is not None else g.loc)
    if n < 1:
        raise AnalysisError("no call site passes a generator to a method any more")
