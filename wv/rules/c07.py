"""C07 -- deletes, updates and cancel have exact, durable semantics.

C07 also runs C01-R3 (deleted documents filtered at every posting source / iterator),
C06-R3 (document numbering of the writer's segment offsets) and C10-R5 (resolved calls
on typed receivers, incl. the builtin set used for the deleted-document set).
"""

import ast

from ..report import rule
from .. import pm, norm, cfg as cfgmod, guards
from ..traces import Tracer, fmt
from ..model import AnalysisError
from .common import calls_of, find_calls, returns_of, is_abstract_body, bind_args, writer_classes
from . import c02


@rule("C07", "R2", "K1", "deletions are recorded on the writer's private copy of the segments and published only by the TOC",
      min_instances=4,
      clause="delete_document mutates a Segment object that came from this writer's own TOC read (fresh unpickled "
             "copies); the segment's deleted set is serialised only through TOC.write (the pickled segment list); "
             "cancel() never reaches TOC.write; is_deleted/deleted_count read the same set.")
def c07_r2(ctx):
    prog = ctx.prog
    dd = prog.method("writing.SegmentWriter", "delete_document", inherited=False)
    ctx.saw(dd)
    A = pm.Alpha(dd)
    sts = pm.stmts_of(dd.node)
    ctx.ob(dd, A.has(sts, "segment, segdocnum = self._segment_and_docnum(docnum)") and
           (A.has(sts, "segment.delete_document(segdocnum, delete=delete)") or A.has(sts, "segment.delete_document(segdocnum, delete)")),
           "delete_document marks the segment-local number on the owning segment")
    sd = prog.method("writing.SegmentWriter", "_segment_and_docnum", inherited=False)
    # (segment, local docnum) = (self.segments[I], docnum - self._doc_offsets[I]) with one and the same index I
    sal = norm.aliases(sd.node)
    rets = [norm.substitute(r.value, sal) for r in returns_of(sd) if r.value is not None]
    ok = False
    if len(rets) == 1:
        rv = rets[0]
        d = norm.definitions(sd.node)

        def expand(e):
            if isinstance(e, ast.Name) and e.id in d and e.id not in sd.params:
                return norm.substitute(d[e.id], sal)
            return e
        if isinstance(rv, ast.Tuple) and len(rv.elts) == 2:
            e0, e1 = expand(rv.elts[0]), expand(rv.elts[1])
            if isinstance(e1, ast.BinOp) and isinstance(e1.op, ast.Sub):
                e1 = ast.BinOp(left=e1.left, op=e1.op, right=expand(e1.right))
            if isinstance(e0, ast.Subscript) and norm.canon(e0.value) == "self.segments" and isinstance(e1, ast.BinOp) and isinstance(e1.op, ast.Sub) \
                    and norm.canon(e1.left) == sd.params[1] and isinstance(e1.right, ast.Subscript) and norm.canon(e1.right.value) == "self._doc_offsets":
                ok = norm.canon(e0.slice) == norm.canon(e1.right.slice)
    ctx.ob(sd, ok, "the segment and the offset are taken at the same index", detail=str([norm.canon(r) for r in rets]))
    init = prog.method("writing.SegmentWriter", "__init__", inherited=False)
    segs = [norm.deep_canon(st.value, init.node) for st in ast.walk(init.node) if isinstance(st, ast.Assign) and norm.canon(st.targets[0]) == "self.segments"]
    ctx.ob(init, segs == ["ix._read_toc().segments"], "self.segments are the objects unpickled by this writer's own TOC read", detail=str(segs))
    # who writes the TOC
    seg = prog.cls("codec.whoosh3.W3Segment")
    dset = seg.methods["delete_document"]
    ctx.saw(dset)
    # the receiver of .add(docnum) is self._deleted, or a local that every binding ties to self._deleted (`d = self._deleted`,
    # `d = self._deleted = set()`)
    def _is_deleted_set(e):
        if norm.canon(e) == "self._deleted":
            return True
        if not isinstance(e, ast.Name):
            return False
        binds = [st for st in ast.walk(dset.node) if isinstance(st, ast.Assign) and any(isinstance(t, ast.Name) and t.id == e.id for t in st.targets)]
        return bool(binds) and all(norm.canon(st.value) == "self._deleted" or any(norm.canon(t) == "self._deleted" for t in st.targets)
                                   for st in binds)
    adds = [c for c in find_calls(dset, "add") if len(c.args) == 1 and norm.canon(c.args[0]) == dset.params[1] and _is_deleted_set(norm.receiver(c))]
    ctx.ob(dset, bool(adds), "W3Segment.delete_document adds to the segment's own deleted set")
    for m, want in (("is_deleted", "docnum in self._deleted"), ("deleted_count", "len(self._deleted)"), ("deleted_docs", "self._deleted")):
        f = seg.methods.get(m)
        if f is None:
            raise AnalysisError("W3Segment.%s vanished" % m)
        # (through a local alias of the set as well: `deleted = self._deleted`)
        rvals = [norm.deep_canon(r.value, f.node) for r in returns_of(f) if r.value is not None]
        wantc = norm.canon(norm.parse_expr(want))
        ctx.ob(f, any(wantc in rv for rv in rvals), "W3Segment.%s() reads the same deleted set" % m, detail=str(rvals))
    tw = prog.method("index.TOC", "write", inherited=False)
    T = pm.Alpha(tw)
    ctx.ob(tw, T.has(pm.stmts_of(tw.node), "stream.write_pickle(self.segments)") and T.has(pm.stmts_of(tw.node), "stream = storage.create_file(tempfilename)"),
           "the segment list (with its deleted sets) is pickled into the TOC")
    # cancel never publishes (= C02-R6, restated for deletions)
    tr = c02.tracer_for(prog)
    for c in c02.publishing_writers(prog):
        f = prog.lookup(c, "cancel")
        res = tr.traces(f, c)
        bad = [t for t in list(res["normal"]) + list(res["raise"]) if "TOC.write" in t]
        ctx.ob("%s.cancel [self=%s]" % (f.short.rsplit(".", 1)[0], c.name), not bad, "cancel() never writes a TOC (requested deletions are dropped with the writer)",
               detail=fmt(bad[0]) if bad else "", loc=f.loc)
    ex = prog.method("writing.IndexWriter", "__exit__", inherited=False)
    fx = guards.Facts(ex)
    sites = {}
    for n in fx.g.nodes:
        for frag in cfgmod.node_exprs(n):
            for c in norm.calls_in(frag):
                if norm.canon(c) in ("self.cancel()", "self.commit()"):
                    sites.setdefault(norm.canon(c), []).append(sorted(fx.at(n) or []))
    ctx.ob(ex, sites == {"self.cancel()": [[("T", ex.params[1])]], "self.commit()": [[("F", ex.params[1])]]} if len(ex.params) > 1 else False,
           "a failing with-block cancels", detail=str(sites))


@rule("C07", "R3", "K1", "update_document deletes the committed documents with the same unique values, then adds",
      min_instances=2,
      clause="IndexWriter.update_document collects the fields marked unique that are present in the call, looks each "
             "one up separately (a document matching ANY unique value is replaced), deletes every hit, and only then "
             "adds the new document; the buffered writer does the same under its lock.")
def c07_r3(ctx):
    prog = ctx.prog
    f = prog.method("writing.IndexWriter", "update_document", inherited=False)
    ctx.saw(f)

    def classify(func, call, res, concrete):
        nm = norm.call_name(call)
        if nm in ("_unique_fields", "_find_unique", "delete_document", "add_document"):
            return nm
        return None
    tr = Tracer(prog, calls_of(prog), classify, follow=lambda *a: [], max_depth=0)
    res = tr.traces(f, None)
    bad = None
    for t in res["normal"]:
        if not t or t[-1] != "add_document" or t.count("add_document") != 1 or t[0] != "_unique_fields":
            bad = t
        if "delete_document" in t and t.index("delete_document") < t.index("_find_unique") if "_find_unique" in t else False:
            bad = t
    ctx.ob(f, bool(res["normal"]) and bad is None, "every path ends with exactly one add_document, after all deletions", detail=fmt(bad) if bad else "")
    uf = prog.method("writing.IndexWriter", "_unique_fields", inherited=False)
    comps = [n for n in ast.walk(uf.node) if isinstance(n, (ast.ListComp, ast.GeneratorExp, ast.SetComp))]
    fparam = uf.params[1] if len(uf.params) > 1 else "fields"

    def _uf_ok(c):
        # [name for name, field in self.schema.items() if name in <fields> and field.unique], whatever the variables are called
        if len(c.generators) != 1:
            return False
        g_ = c.generators[0]
        if norm.canon(g_.iter) != "self.schema.items()" or not (isinstance(g_.target, ast.Tuple) and len(g_.target.elts) == 2
                                                               and all(isinstance(e_, ast.Name) for e_ in g_.target.elts)):
            return False
        nm_, fo_ = g_.target.elts[0].id, g_.target.elts[1].id
        atoms_ = set(norm.canon(a_) for t_ in g_.ifs for pol_, a_ in guards.atoms(t_, "T") if pol_ == "T")
        return norm.canon(c.elt) == nm_ and "(%s in %s)" % (nm_, fparam) in atoms_ and "%s.unique" % fo_ in atoms_
    ctx.ob(uf, any(_uf_ok(c) for c in comps), "unique fields = schema fields with .unique that are present in the call",
           detail=str([norm.canon(c) for c in comps]))
    fu = prog.method("searching.Searcher", "_find_unique", inherited=False)
    ctx.saw(fu)
    # a loop or a comprehension over `uniques` whose body / element performs ONE lookup with exactly that pair
    sites = []
    uparam = fu.params[1] if len(fu.params) > 1 else "uniques"
    for n in ast.walk(fu.node):
        if isinstance(n, ast.For) and norm.canon(n.iter) == uparam:
            sites.append((n.target, n))
        elif isinstance(n, (ast.GeneratorExp, ast.ListComp, ast.SetComp)) and len(n.generators) == 1 and norm.canon(n.generators[0].iter) == uparam:
            sites.append((n.generators[0].target, n.elt))
    ok = False
    if len(sites) == 1:
        U = pm.Alpha(fu)
        tgt, scope = sites[0]
        calls = [c for c in norm.calls_in(scope) if norm.call_name(c) in ("document_number", "document_numbers")]
        ok = len(calls) == 1 and len(calls[0].keywords) == 1 and calls[0].keywords[0].arg is None and not calls[0].args and \
            U.eq(tgt, "(name, value)") and U.eq(calls[0].keywords[0].value, "{name: value}")
    ctx.ob(fu, ok, "each unique (field, value) pair is looked up on its own (OR semantics across unique fields)",
           detail="a single lookup with all pairs at once would require every unique value to match the same document" if not ok else "")
    bw = prog.method("writing.BufferedWriter", "update_document", inherited=False)
    ctx.saw(bw)
    fa = guards.Facts(bw)
    inlock = True
    g = fa.g
    for n in g.nodes:
        for frag in cfgmod.node_exprs(n):
            for c in norm.calls_in(frag):
                if norm.call_name(c) in ("delete_document", "add_document", "_find_unique", "delete_by_term"):
                    inlock = inlock and any(norm.canon(w) == "self.lock" for w in (n.ctx or ()))
    ctx.ob(bw, inlock, "BufferedWriter.update_document deletes and adds under self.lock")


@rule("C07", "R4", "K11", "delete_by_query deletes exactly the documents the query yields and reports their number",
      min_instances=2,
      clause="delete_by_query iterates searcher.docs_for_query(q, for_deletion=True), deletes each number it yields and "
             "returns the number of iterations; delete_by_term builds Term(fieldname, text) and delegates.")
def c07_r4(ctx):
    prog = ctx.prog
    f = prog.method("writing.IndexWriter", "delete_by_query", inherited=False)
    ctx.saw(f)
    loops = [n for n in ast.walk(f.node) if isinstance(n, ast.For)]
    # one loop over `s` (the caller's searcher or self.searcher()), or one loop per case: every loop must have the shape
    ok = bool(loops)
    sources = set()
    an = norm.assigned_names(f.node)
    for lp in loops:
        A = pm.Alpha(f)
        it = lp.iter
        tgt = lp.target
        enum_form = False
        if isinstance(it, ast.Call) and norm.call_name(it) == "enumerate" and isinstance(tgt, ast.Tuple) and len(tgt.elts) == 2:
            # for count, docnum in enumerate(<docs>, 1): delete_document(docnum)   (count holds the number of iterations)
            start1 = (len(it.args) == 2 and norm.canon(it.args[1]) == "1") or any(k.arg == "start" and norm.canon(k.value) == "1" for k in it.keywords)
            A.eq(tgt.elts[0], "count")
            tgt = tgt.elts[1]
            it = norm.inline_defs(it.args[0], f.node) if it.args else None
            enum_form = start1
        if it is None or not isinstance(it, ast.Call) or norm.call_name(it) != "docs_for_query":
            ok = False
            continue
        recv = norm.receiver(it)
        rtext = norm.canon(recv)
        if isinstance(recv, ast.Name) and recv.id in an and not (recv.id in f.params):
            sources |= set(norm.canon(v) if v is not None else "?" for v in an[recv.id])
        else:
            sources.add(rtext)
        m_, probs = bind_args(it, prog.method("searching.Searcher", "docs_for_query", inherited=False))
        good_args = bool(m_) and norm.canon(m_.get("q")) == f.params[1] and norm.canon(m_.get("for_deletion")) == "True"
        if not (good_args and A.eq(tgt, "docnum")):
            ok = False
            continue
        dels = [st for st in lp.body if A.eq(st, "self.delete_document(docnum)")]
        incs = [st for st in ast.walk(lp) if isinstance(st, ast.AugAssign)]
        counted = enum_form and not incs or (not enum_form and len(incs) == 1 and incs[0] in lp.body and A.eq(incs[0], "count += 1"))
        if len(dels) != 1 or not counted or any(isinstance(x, (ast.Continue, ast.Break, ast.Return)) for x in ast.walk(lp)):
            ok = False
        if not A.has(pm.stmts_of(f.node), "count = 0"):
            ok = False
        rets = [r.value for r in returns_of(f)]
        if not rets or not all(A.eq(r, "count") for r in rets):
            ok = False
    ok = ok and sources == {"searcher", "self.searcher()"}
    ctx.ob(f, ok, "for docnum in docs_for_query(q, for_deletion=True): delete_document(docnum); count += 1; return count",
           detail="searchers iterated: %s" % sorted(sources))
    dt = prog.method("writing.IndexWriter", "delete_by_term", inherited=False)
    rets = [norm.inline_defs(r.value, dt.node) for r in returns_of(dt) if r.value is not None]
    ctx.ob(dt, len(rets) == 1 and norm.canon(rets[0]) in ("self.delete_by_query(Term(fieldname, text), searcher=searcher)",
                                                           "self.delete_by_query(Term(fieldname, text), searcher)"),
           "delete_by_term = delete_by_query(Term(fieldname, text))",
           detail=str([norm.canon(r) for r in rets]))
    dq = prog.method("searching.Searcher", "docs_for_query", inherited=False)
    D = pm.Alpha(dq)
    fq = guards.Facts(dq)
    sel = {}
    for n in fq.g.nodes:
        a_ = n.ast
        if n.kind == "stmt" and isinstance(a_, ast.Assign):
            for v in ("q.deletion_docs", "q.docs"):
                if D.eq(a_, "method = %s" % v):
                    sel[v] = sorted(fq.at(n) or [])
    ctx.ob(dq, sel == {"q.deletion_docs": [("T", "for_deletion")], "q.docs": [("F", "for_deletion")]}, "for_deletion selects the query's deletion_docs", detail=str(sel))


@rule("C07", "R5", "K3", "a writer opens a fresh reader for every lookup it makes on its own behalf",
      min_instances=3, also=("C18",),
      clause="reader() and searcher() of every writer class store nothing on the writer: each SegmentReader freezes its deleted-document "
             "set when it is first asked for postings, so a reader kept across calls would show documents this writer has deleted since "
             "(update_document/delete_by_term would find and count them again).")
def c07_r5(ctx):
    prog = ctx.prog
    from .c15 import _self_stores
    base = prog.cls("writing.IndexWriter")
    n = 0
    for K in [base] + prog.subclasses(base, strict=True):
        for m in ("reader", "searcher"):
            f = K.methods.get(m)
            if f is None:
                continue
            n += 1
            ctx.saw(f)
            stores = sorted(set(a for a, _ in _self_stores(f)))
            ctx.ob(f, not stores, "%s.%s() keeps nothing on the writer" % (K.name, m),
                   detail="stores self.%s: the reader/searcher is reused by later lookups and misses this writer's own deletions" % ", self.".join(stores) if stores else "")
    if n < 3:
        raise AnalysisError("only %d writer reader()/searcher() methods" % n)


@rule("C07", "R6", "K9", "a matcher that counts document numbers itself is told which documents are deleted",
      min_instances=3, also=("C01",),
      clause="Posting lists come out of SegmentReader.postings() already filtered by the deleted set; a matcher whose id() is its own "
             "counter (stepped by += 1 in next()/_find_next()) and that has no posting-backed children bounding it enumerates raw "
             "document numbers instead. Every such class takes a deletion predicate (constructor parameter `missing` / `is_deleted`), "
             "and every place in whoosh.query that constructs one binds that parameter to <reader>.is_deleted (copies pass the stored "
             "predicate on). Otherwise deleted, not yet merged documents come back from ColumnQuery / Not / NestedChildren.")
def c07_r6(ctx):
    from .. import matchers as M
    from .common import bound_arg
    prog = ctx.prog
    PRED = ("missing", "is_deleted")
    takes = {}
    n = 0
    for K in M.matcher_classes(prog):
        init = prog.lookup(K, "__init__")
        if init is not None:
            ps = [p_ for p_ in init.params if p_ in PRED]
            if ps:
                takes[K.qualname] = ps[0]
        idf = K.methods.get("id")
        if idf is None:
            continue
        rets = [norm.canon(r.value) for r in ast.walk(idf.node) if isinstance(r, ast.Return) and r.value is not None]
        if len(rets) != 1 or not rets[0].startswith("self.") or "(" in rets[0] or "[" in rets[0]:
            continue
        attr = rets[0][5:]
        steps = [f.name for f in K.methods.values() for st in ast.walk(f.node)
                 if isinstance(st, ast.AugAssign) and norm.canon(st.target) == "self." + attr and isinstance(st.op, ast.Add)
                 and isinstance(st.value, ast.Constant) and st.value.value == 1]
        try:
            spec = M.spec_for(prog, K)
        except Exception:
            spec = None
        children = (spec[1] or {}).get("children") if isinstance(spec, tuple) and spec and spec[0] is not None else None
        if not steps or children:
            continue
        n += 1
        ctx.ob(K, K.qualname in takes, "%s counts document numbers itself and takes a deletion predicate" % K.name,
               detail="id() is self.%s, stepped in %s; the constructor has no `missing`/`is_deleted` parameter" % (attr, sorted(set(steps))),
               loc=K.loc)
    for f in prog.functions.values():
        if not f.module.name.startswith("whoosh.query") and not f.module.name.startswith("whoosh.matching"):
            continue
        for c in norm.calls_in(f.node):
            try:
                r = calls_of(prog).resolve(f, c)
            except Exception:
                continue
            if r.kind != "exact" or len(r.targets) != 1 or r.targets[0].name != "__init__" or r.targets[0].cls is None:
                continue
            K = r.targets[0].cls
            # the class constructed (not a base-constructor call from a subclass __init__)
            if isinstance(c.func, ast.Attribute) and c.func.attr == "__init__":
                continue
            pname = None
            for k in prog.mro(K):
                if not isinstance(k, str) and k.qualname in takes:
                    pname = takes[k.qualname]
                    break
            if pname is None:
                continue
            n += 1
            ctx.saw(f)
            a = bound_arg(prog, f, c, pname)
            t = norm.canon(a) if a is not None else None
            ok = t is not None and (t.endswith(".is_deleted") or t in ("self.missing", "self.is_deleted", "self._missing", "is_deleted", "missing"))
            ctx.ob(f, ok, "%s(...) is given the reader's deletion predicate" % K.name,
                   detail="`%s` bound to %s" % (pname, t), loc=ctx.nodeloc(f, c))
    if n < 3:
        raise AnalysisError("only %d counting matchers / construction sites" % n)
