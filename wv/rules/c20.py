"""C20 -- on-disk tables, number codecs and doc-id sets implement their abstract types."""

import ast
import struct

from ..report import rule
from .. import pm, norm, cfg as cfgmod, guards
from ..typestate import TypeState
from ..traces import Tracer, fmt
from ..model import AnalysisError, self_attr_assignments
from .common import calls_of, find_calls, returns_of, is_abstract_body, bind_args

FT = "filedb.filetables."


def _struct_of(prog, module, name, depth=0):
    """Follow module-level aliases  pack_x = _x_struct.pack ; _x_struct = Struct("!i")  -> format string."""
    if depth > 4:
        return None
    r = prog.module_export(module.name, name)
    if r is None or r[0] != "value":
        return None
    m, v = r[1], r[2]
    if isinstance(v, ast.Attribute) and v.attr in ("pack", "unpack", "size") and isinstance(v.value, ast.Name):
        return _struct_of(prog, m, v.value.id, depth + 1)
    if isinstance(v, ast.Call) and norm.call_name(v) == "Struct" and v.args and isinstance(v.args[0], ast.Constant):
        return v.args[0].value
    if isinstance(v, ast.Name):
        return _struct_of(prog, m, v.id, depth + 1)
    return None


@rule("C20", "R1", "K4", "StructFile write_T / read_T / get_T use one struct per type and read exactly its size",
      min_instances=8,
      clause="For every typed accessor triple of StructFile, the writer packs with the struct the reader and the "
             "positional getter unpack with (module aliases of whoosh.system resolved), and the number of bytes read "
             "equals struct.calcsize of that format.")
def c20_r1(ctx):
    prog = ctx.prog
    sf = prog.cls("filedb.structfile.StructFile")
    mod = sf.module
    names = sorted(m[6:] for m in sf.methods if m.startswith("write_") and ("read_" + m[6:]) in sf.methods)
    n = 0
    for t in names:
        w = sf.methods["write_" + t]
        r = sf.methods["read_" + t]
        g = sf.methods.get("get_" + t)
        pk = [c for c in norm.calls_in(w.node) if isinstance(c.func, ast.Name) and c.func.id.startswith("pack_")]
        up = [c for c in norm.calls_in(r.node) if isinstance(c.func, ast.Name) and c.func.id.startswith("unpack_")]
        if len(pk) != 1 or len(up) != 1:
            continue
        n += 1
        ctx.saw(w)
        fw = _struct_of(prog, mod, pk[0].func.id)
        fr = _struct_of(prog, mod, up[0].func.id)
        size = None
        for c in norm.calls_in(r.node):
            if norm.call_name(c) == "read" and c.args:
                size = prog.fold_str(mod, c.args[0])
        ok = fw is not None and fw == fr and size == struct.calcsize(fw)
        ctx.ob("StructFile.write_%s <-> read_%s" % (t, t), ok, "same struct on both sides; read size = calcsize",
               detail="pack %s=%r, unpack %s=%r, read(%s)" % (pk[0].func.id, fw, up[0].func.id, fr, size), loc=w.loc)
        if g is not None:
            gu = [c for c in norm.calls_in(g.node) if isinstance(c.func, ast.Name) and c.func.id.startswith("unpack_")]
            gsz = None
            for c in norm.calls_in(g.node):
                if norm.call_name(c) == "get" and len(c.args) >= 2:
                    gsz = prog.fold_str(mod, c.args[1])
            if len(gu) == 1:
                fg = _struct_of(prog, mod, gu[0].func.id)
                ctx.ob("StructFile.write_%s <-> get_%s" % (t, t), fg == fw and gsz == struct.calcsize(fw or "!B"),
                       "positional getter uses the same struct and size", detail="unpack %r, get(pos, %s)" % (fg, gsz), loc=g.loc)
    # arrays are stored big-endian: every path that fills an array from the file byteswaps it on little-endian hosts before
    # returning it, and every path that writes one byteswaps (a copy) first -- on the real-file path and the buffer path alike
    from ..typestate import TypeState
    base_sf = sf
    for cls in [base_sf] + prog.subclasses(base_sf, strict=True):
        for mname, mode in (("read_array", "r"), ("get_array", "r"), ("write_array", "w")):
            f = cls.methods.get(mname)
            if f is None:
                continue
            fills = [c for c in norm.calls_in(f.node) if norm.call_name(c) in ("fromfile", "array_frombytes", "frombytes", "fromstring")]
            sinks = [c for c in norm.calls_in(f.node) if norm.call_name(c) in ("tofile", "array_tobytes", "tobytes", "tostring")]
            if mode == "r" and not fills:
                continue  # delegates (e.g. get_array = seek + read_array)
            if mode == "w" and not sinks:
                continue
            ctx.saw(f)

            def classify(func, call, res, concrete):
                nm = norm.call_name(call)
                if nm in ("fromfile", "array_frombytes", "frombytes", "fromstring"):
                    return "fill"
                if nm == "byteswap":
                    return "swap"
                if nm in ("tofile", "array_tobytes", "tobytes", "tostring"):
                    return "sink"
                return None

            def edge_event(func, node, label):
                if node.kind == "test" and norm.canon(node.ast) == "IS_LITTLE" and label[0] == "F":
                    return "bigendian"
                return None

            def stmt_event(func, node):
                return "return" if node.kind == "return" else None
            if mode == "r":
                def delta(state, ev):
                    if state == "BAD":
                        return state
                    if ev == "fill":
                        return "RAW"
                    if ev in ("swap", "bigendian") and state == "RAW":
                        return "OK"
                    if ev == "return" and state == "RAW":
                        return "BAD"
                    return state
                s0 = "START"
            else:
                def delta(state, ev):
                    if state == "BAD":
                        return state
                    if ev in ("swap", "bigendian"):
                        return "OK"
                    if ev == "sink" and state == "RAW":
                        return "BAD"
                    return state
                s0 = "RAW"
            ts = TypeState(prog, calls_of(prog), delta, classify, stmt_event=stmt_event, edge_event=edge_event, max_depth=0)
            ts.all_states = ("START", "RAW", "OK")
            exits = ts.run(f, cls, s0)
            bad = exits.get("BAD")
            ctx.ob(f, bad is None and bool(exits), "the array is byteswapped on little-endian hosts on every path" if mode == "r"
                   else "the array is byteswapped (little-endian hosts) before it is written on every path",
                   path=cfgmod.path_text(bad) if bad else None)
    if n < 6:
        raise AnalysisError("only %d StructFile accessor pairs recognised" % n)


@rule("C20", "R2", "K4", "hash file: writer and reader agree on header, bucket/slot arithmetic and trailer",
      min_instances=4,
      clause="HashWriter writes magic, hash-type byte, two ints; HashReader reads the same; a key goes to bucket h & 255 "
             "and slot (h >> 8) % numslots (linear probing, wrap-around) on both sides; close() writes hashes, directory, "
             "extras, extras-length and the reader locates them backwards in that order; the ordered index does a "
             "lower-bound binary search.")
def c20_r2(ctx):
    prog = ctx.prog
    hw = prog.cls(FT + "HashWriter")
    hr = prog.cls(FT + "HashReader")
    wi = hw.methods["__init__"]
    ri = hr.methods["__init__"]
    ctx.saw(wi)
    ctx.saw(ri)
    wseq = [norm.call_name(c) for c in norm.calls_in(wi.node) if norm.canon(norm.receiver(c) or ast.Name(id="")) == "dbfile" and norm.call_name(c).startswith("write")]
    rseq = [norm.call_name(c) for c in norm.calls_in(ri.node) if norm.canon(norm.receiver(c) or ast.Name(id="")) == "dbfile" and norm.call_name(c).startswith("read")][:4]
    ctx.ob("HashWriter.__init__ <-> HashReader.__init__", wseq == ["write", "write_byte", "write_int", "write_int"] and
           rseq == ["read", "read_byte", "read_int", "read_int"], "header: magic, hash-type byte, two ints", detail="%s / %s" % (wseq, rseq), loc=wi.loc)
    add = hw.methods["add"]
    wh = hw.methods["_write_hashes"]
    rk = hr.methods["ranges_for_key"]
    ctx.saw(rk)
    wb = [norm.deep_canon(n.slice, add.node) for n in ast.walk(add.node) if isinstance(n, ast.Subscript) and norm.canon(n.value) == "self.buckets"]
    rb = [norm.deep_canon(n.slice, rk.node) for n in ast.walk(rk.node) if isinstance(n, ast.Subscript) and norm.canon(n.value) == "self.tables"]
    ctx.ob("HashWriter.add <-> HashReader.ranges_for_key", wb == ["(255 & self.hashfn(key))"] and rb == ["(255 & self.hashfn(key))"], "bucket = hash & 255 on both sides",
           detail="%s / %s" % (wb, rb), loc=add.loc)
    WH = pm.Alpha(wh)
    whs = pm.stmts_of(wh.node)
    # roles: numslots = 2 * len(entries); (hashval, position) are the bucket's entries; the table is probed while the slot is taken
    w_ok = WH.has(whs, "numslots = 2 * len(entries)") and WH.has(whs, "slot = (hashval >> 8) % numslots") and \
        WH.has(whs, "slot = (slot + 1) % numslots") and WH.has(whs, "hashtable[slot] = (hashval, position)") and \
        any(isinstance(lp, ast.For) and WH.eq(lp.target, "(hashval, position)") and WH.eq(lp.iter, "entries") for lp in whs)
    if not w_ok and WH.has(whs, "numslots = 2 * len(entries)"):
        # the table may be filled in a private helper the reference tree does not have, and with the closed form of the same probe
        # sequence: for i in range(numslots): slot = (first + i) % numslots; stop at the first free slot
        from .. import inline
        inv = inline.inventory()
        bodies = [wh] + [g for g in hw.methods.values() if inv and g.qualname not in inv and g.name.startswith("_")
                         and any(isinstance(x, ast.Attribute) and x.attr == g.name for x in ast.walk(wh.node))]
        for g in bodies:
            GA = pm.Alpha(g)
            gs = pm.stmts_of(g.node)
            outer = [lp for lp in gs if isinstance(lp, ast.For) and GA.eq(lp.target, "(hashval, position)")]
            if not outer or not GA.has(gs, "hashtable[slot] = (hashval, position)"):
                continue
            incremental = GA.has(gs, "slot = (hashval >> 8) % numslots") and GA.has(gs, "slot = (slot + 1) % numslots")
            closed_w = False
            for lp in [x for x in gs if isinstance(x, ast.For) and isinstance(x.target, ast.Name)]:
                if isinstance(lp.iter, ast.Call) and norm.call_name(lp.iter) in ("xrange", "range") and len(lp.iter.args) == 1 \
                        and GA.eq(lp.iter.args[0], "numslots"):
                    GA.eq(lp.target, "i")
                    sp = [st for st in lp.body if isinstance(st, ast.Assign)
                          and (GA.eq(st, "slot = (((hashval >> 8) % numslots) + i) % numslots", deep=True) or
                               GA.eq(st, "slot = (((hashval >> 8) % (2 * len(entries))) + i) % (2 * len(entries))", deep=True) or
                               # (h + i) % n == ((h % n) + i) % n: the home slot need not be reduced first
                               GA.eq(st, "slot = ((hashval >> 8) + i) % numslots", deep=True) or
                               GA.eq(st, "slot = ((hashval >> 8) + i) % (2 * len(entries))", deep=True))]
                    brk = [st for st in lp.body if isinstance(st, ast.If) and any(isinstance(x, ast.Break) for x in st.body)
                           and (GA.eq(st.test, "hashtable[slot] == null") or GA.eq(st.test, "null == hashtable[slot]"))]
                    if len(sp) == 1 and lp.body[0] is sp[0] and brk:
                        closed_w = True
            if incremental or closed_w:
                w_ok = True
    RK = pm.Alpha(rk)
    rks = pm.stmts_of(rk.node)
    r_ok = RK.has(rks, "tablestart, numslots = self.tables[self.hashfn(key) & 255]", deep=True) and \
        RK.has(rks, "slotpos = tablestart + (((self.hashfn(key) >> 8) % numslots) * _pointer.size)", deep=True)
    # closed form of the same probe sequence: for i in range(numslots): slotpos = tablestart + ((first + i) % numslots) * ptrsize
    closed = False
    RK2 = pm.Alpha(rk)
    if RK2.has(rks, "tablestart, numslots = self.tables[self.hashfn(key) & 255]", deep=True):
        for lp in [x for x in rks if isinstance(x, ast.For)]:
            if isinstance(lp.target, ast.Name) and norm.canon(lp.iter) in ("xrange(%s)" % RK2.name("numslots"), "range(%s)" % RK2.name("numslots")):
                RK2.eq(lp.target, "i")
                sp = [st for st in lp.body if isinstance(st, ast.Assign)
                      and RK2.eq(st, "slotpos = tablestart + ((((self.hashfn(key) >> 8) % numslots) + i) % numslots) * _pointer.size", deep=True)]
                if len(sp) == 1 and lp.body[0] is sp[0]:
                    closed = True
    if closed:
        RK = RK2
        r_ok = True
    ctx.ob("HashWriter._write_hashes <-> HashReader.ranges_for_key", w_ok and r_ok, "initial slot = (hash >> 8) % numslots; probing wraps modulo numslots",
           detail="writer forms recognised: %s ; reader forms recognised: %s" % (w_ok, r_ok), loc=wh.loc)
    wrap = [st for st in rks if isinstance(st, ast.If) and RK.eq(st.test, "slotpos == tablestart + (numslots * _pointer.size)", deep=True)]
    ctx.ob(rk, closed or (len(wrap) == 1 and RK.has(wrap[0].body, "slotpos = tablestart") and RK.has(rks, "slotpos += _pointer.size", deep=True)),
           "the reader's probe wraps to the start of the table")
    # every iteration of the probe loop that does not return advances to the next slot (a `continue` that skips the advance
    # re-reads the same slot for the rest of the loop and reports the key absent)
    g_rk = cfgmod.cfg_of(rk)
    fors = [n_ for n_ in g_rk.nodes if n_.kind == "for" and isinstance(n_.ast, ast.For) and "numslots" in norm.canon(n_.ast.iter)]
    stuck = None
    if len(fors) == 1:
        def is_adv(n_):
            a_ = n_.ast
            return n_.kind == "stmt" and isinstance(a_, ast.AugAssign) and isinstance(a_.op, ast.Add) and RK.eq(a_.target, "slotpos")
        for (st_, lab) in fors[0].succs:
            if lab != "iter":
                continue
            if is_adv(st_):
                continue
            pth = cfgmod.find_path(g_rk, st_, lambda n_: n_ is fors[0], avoid_pred=is_adv)
            if pth is not None:
                stuck = [st_] + pth
    ctx.ob(rk, closed or (len(fors) == 1 and stuck is None), "every iteration of the probe loop advances slotpos before the next one",
           path=cfgmod.path_text(stuck) if stuck else None)
    cl = hw.methods["close"]
    CL = pm.Alpha(cl)
    order = [c for c in norm.calls_in(cl.node) if norm.call_name(c) in ("_write_hashes", "_write_directory", "_write_extras", "write_int")]
    ok = len(order) == 4 and [norm.canon(c) for c in order[:3]] == ["self._write_hashes()", "self._write_directory()", "self._write_extras()"] and \
        CL.eq(order[3], "self.dbfile.write_int(self.dbfile.tell() - expos)", al=True) and CL.has(pm.stmts_of(cl.node), "expos = self.dbfile.tell()", al=True)
    # expos is taken after the directory and before the extras
    if ok:
        exst = CL.find(pm.stmts_of(cl.node), "expos = self.dbfile.tell()", al=True)
        cpos = norm.source_pos(cl.node)
        ok = cpos(order[1]) < cpos(exst) < cpos(order[2])
    ctx.ob(cl, ok, "close(): hashes, directory, extras, then the extras length", detail=str([CL.text(c) for c in order]))
    RI = pm.Alpha(ri)
    ris = pm.stmts_of(ri.node)
    ok = RI.has(ris, "exptr = (length + startoffset) - _INT_SIZE") and RI.has(ris, "exlen = dbfile.get_int(exptr)") and \
        RI.has(ris, "expos = exptr - exlen")
    seeks = [c.args[0] for c in norm.calls_in(ri.node) if norm.call_name(c) == "seek" and c.args]
    ctx.ob(ri, ok and any(RI.eq(x, "expos - _directory_size") for x in seeks) and any(RI.eq(x, "expos") for x in seeks),
           "reader finds the extras length at the end, the extras before it and the 256-entry directory before them",
           detail="seeks %s" % [RI.text(x) for x in seeks])
    mod = hw.module
    dsz = prog.fold_str(mod, mod.assigns.get("_directory_size")) if "_directory_size" in mod.assigns else None
    de = _struct_of(prog, mod, "_dir_entry")
    ctx.ob(hw, de is not None and (dsz == 256 * struct.calcsize(de) or norm.canon(mod.assigns.get("_directory_size")) in ("(256 * _dir_entry.size)", "(_dir_entry.size * 256)")),
           "the directory is 256 entries of _dir_entry", detail="_directory_size = %s" % norm.canon(mod.assigns.get("_directory_size")), loc=hw.loc)
    # record layout
    wrec = [norm.canon(c, norm.aliases(add.node)) for c in norm.calls_in(add.node) if norm.call_name(c) == "write"]
    ctx.ob(add, wrec == ["self.dbfile.write(_lengths.pack(len(key), len(value)))", "self.dbfile.write(key)", "self.dbfile.write(value)"],
           "record = lengths(key, value), key bytes, value bytes", detail=str(wrec))
    rg = hr.methods["_ranges"]
    RG = pm.Alpha(rg)
    rgs = pm.stmts_of(rg.node)
    ctx.ob(rg, RG.has(rgs, "keylen, datalen = _lengths.unpack(self.dbfile.get(pos, _lengths.size))", deep=True) and
           RG.has(rgs, "keypos = pos + _lengths.size", deep=True) and RG.has(rgs, "datapos = keypos + keylen") and RG.has(rgs, "pos = datapos + datalen") and
           any(isinstance(y, ast.Yield) and RG.eq(y.value, "(keypos, keylen, datapos, datalen)") for y in ast.walk(rg.node)),
           "reader steps through records as lengths, key, value")
    # ordered index: lower-bound search
    oh = prog.cls(FT + "OrderedHashReader")
    ck = oh.methods.get("closest_key_pos")
    if ck is None:
        raise AnalysisError("OrderedHashReader.closest_key_pos vanished")
    ctx.saw(ck)
    fa = guards.Facts(ck)
    CK = pm.Alpha(ck)
    cks = pm.stmts_of(ck.node)
    # bind lo/hi from the loop test first (`x = self.indexlen` alone could as well be a cached copy of the length)
    roles = CK.has(cks, "lo = 0") and any(isinstance(st, ast.While) and CK.eq(st.test, "lo < hi") for st in cks) and \
        CK.has(cks, "hi = self.indexlen", al=True) and CK.has(cks, "mid = (lo + hi) // 2")
    midkeys = [st for st in cks if isinstance(st, ast.Assign) and isinstance(st.targets[0], ast.Name) and
               any(isinstance(x, ast.Name) and x.id == CK.name("mid") for x in ast.walk(st.value)) and st.targets[0].id != CK.name("mid")]
    if len(midkeys) == 1:
        CK.eq(midkeys[0].targets[0], "midkey")
    lo_ok = hi_ok = False
    for n in fa.g.nodes:
        a = n.ast
        if n.kind == "stmt" and isinstance(a, ast.Assign):
            facts = fa.at(n) or frozenset()
            if CK.eq(a, "lo = mid + 1") and CK.fact(facts, "T", "midkey < key"):
                lo_ok = True
            if CK.eq(a, "hi = mid") and CK.fact(facts, "F", "midkey < key"):
                hi_ok = True
    ctx.ob(ck, roles and lo_ok and hi_ok, "binary search: midkey < key -> lo = mid + 1, else hi = mid (first key >= the probe)",
           detail="roles %s lo %s hi %s" % (roles, lo_ok, hi_ok))
    ow = prog.cls(FT + "OrderedHashWriter")
    oa = ow.methods["add"]
    ctx.ob(oa, any(isinstance(n, ast.If) and "lastkey" in norm.canon(n.test) and any(isinstance(x, ast.Raise) for x in n.body) for n in ast.walk(oa.node)),
           "the ordered writer rejects keys that are not strictly increasing")


@rule("C20", "R4", "K4", "compound file: directory pointer, directory and member ranges are written and read alike; "
                          "sub-files position the shared parent before every read",
      min_instances=4,
      clause="assemble()/save_as_compound() reserve a long and an int at the base position, write_dir() pickles the "
             "directory and the options and back-patches (dirpos, length); CompoundStorage.__init__ reads them in that "
             "order; per-member 'offset'/'length' keys are the ones open_file uses; SubFile.read/readline seek the "
             "parent file to offset + pos on every path before reading (members share one file object).")
def c20_r4(ctx):
    prog = ctx.prog
    cs = prog.cls("filedb.compound.CompoundStorage")
    for wname in ("filedb.compound.CompoundStorage.assemble", "filedb.compound.CompoundWriter.save_as_compound"):
        f = prog.func(wname)
        ctx.saw(f)
        FA = pm.Alpha(f)
        calls_ = [c for c in norm.calls_in(f.node) if norm.call_name(c) in ("write_long", "write_int", "write_dir")]
        seq = [FA.text(c) for c in calls_]
        fs = pm.stmts_of(f.node)
        ok = len(calls_) >= 3 and FA.has(fs, "basepos = dbfile.tell()") and FA.has(fs, "directory = {}") and \
            FA.eq(calls_[0], "dbfile.write_long(0)") and FA.eq(calls_[1], "dbfile.write_int(0)") and \
            (FA.eq(calls_[-1], "CompoundStorage.write_dir(dbfile, basepos, directory, options)") or FA.eq(calls_[-1], "CompoundStorage.write_dir(dbfile, basepos, directory)"))
        if ok:
            bp = FA.find(fs, "basepos = dbfile.tell()")
            fpos = norm.source_pos(f.node)
            ok = fpos(bp) < fpos(calls_[0])
        ctx.ob(f, ok,
               "reserves (long, int) at basepos, copies members, then write_dir(dbfile, basepos, directory...)", detail=str(seq))
        keys = set()
        for n in ast.walk(f.node):
            if isinstance(n, ast.Dict):
                keys |= set(k.value for k in n.keys if isinstance(k, ast.Constant))
        ctx.ob(f, {"offset", "length"} <= keys, "directory entries carry 'offset' and 'length'", detail=str(sorted(keys)))
    wd = prog.method("filedb.compound.CompoundStorage", "write_dir")
    ctx.saw(wd)
    WD = pm.Alpha(wd)
    calls_ = [c for c in norm.calls_in(wd.node) if norm.call_name(c) in ("write_pickle", "seek", "write_long", "write_int", "close", "flush")]
    seq = [WD.text(c) for c in calls_]
    want = ["dbfile.write_pickle(directory)", "dbfile.write_pickle(options)", "dbfile.flush()", "dbfile.seek(basepos)",
            "dbfile.write_long(dirpos)", "dbfile.write_int(endpos - dirpos)", "dbfile.close()"]
    wds = pm.stmts_of(wd.node)
    dp = WD.find(wds, "dirpos = dbfile.tell()")
    ep = WD.find(wds, "endpos = dbfile.tell()")
    ctx.ob(wd, dp is not None and ep is not None and len(calls_) == len(want) and all(WD.eq(c, w_) for c, w_ in zip(calls_, want)) and
           norm.source_pos(wd.node)(dp) < norm.source_pos(wd.node)(calls_[0]) and
           norm.source_pos(wd.node)(calls_[1]) < norm.source_pos(wd.node)(ep) < norm.source_pos(wd.node)(calls_[3]),
           "write_dir: directory pickle, options pickle, back-patch (dirpos, length) at basepos, close", detail=str(seq))
    ini = cs.methods["__init__"]
    ctx.saw(ini)
    # the file is self._file, or the constructor parameter self._file was bound from
    recv_ok = set(["self._file"])
    for st in ast.walk(ini.node):
        if isinstance(st, ast.Assign) and any(norm.canon(t) == "self._file" for t in st.targets) and isinstance(st.value, ast.Name) \
                and st.value.id in ini.params:
            recv_ok.add(st.value.id)
    rseq = [norm.call_name(c) for c in norm.calls_in(ini.node) if norm.call_name(c) in ("read_long", "read_int", "read_pickle", "seek")
            and norm.canon(norm.receiver(c) or ast.Name(id="")) in recv_ok]
    if "read_long" in rseq:
        rseq = rseq[rseq.index("read_long"):]
    ctx.ob(ini, rseq[:5] == ["read_long", "read_int", "seek", "read_pickle", "read_pickle"],
           "reader: long dirpos, int length, seek(dirpos), directory pickle, options pickle", detail=str(rseq))
    rg = cs.methods["range"]
    rets = [norm.deep_canon(r.value, rg.node) for r in returns_of(rg) if r.value is not None]
    ctx.ob(rg, rets == ["(self._dir[name]['offset'], self._dir[name]['length'])"], "open_file uses the 'offset' and 'length' of the member", detail=str(rets))
    # SubFile: seek before every read of the shared parent
    sub = prog.cls("filedb.compound.SubFile")
    for m in ("read", "readline"):
        f = sub.methods[m]
        ctx.saw(f)

        def classify(func, call, res, concrete):
            r = norm.receiver(call)
            if r is not None and norm.canon(r) == "self._file":
                nm = norm.call_name(call)
                if nm == "seek":
                    a = norm.canon(call.args[0]) if call.args else ""
                    return "seek:ok" if a == "(self._offset + self._pos)" else "seek:other"
                if nm in ("read", "readline", "readinto"):
                    return "read"
            return None

        def stmt_event(func, node):
            a = node.ast
            if node.kind == "stmt" and isinstance(a, (ast.Assign, ast.AugAssign)):
                tg = a.targets if isinstance(a, ast.Assign) else [a.target]
                if any(norm.canon(t_) == "self._pos" for t_ in tg):
                    return "pos_changed"
            return None

        def delta(state, ev):
            if state == "BAD":
                return state
            if ev == "seek:ok":
                return "P"      # parent positioned at offset + pos
            if ev == "seek:other":
                return "U"
            if ev == "read":
                return "U" if state == "P" else "BAD"
            return state
        # NB: `self._pos += size` between the seek and the read does not move the parent
        ts = TypeState(prog, calls_of(prog), delta, classify, stmt_event=stmt_event)
        ts.all_states = ("U", "P")
        exits = ts.run(f, sub, "U")
        bad = exits.get("BAD")
        ctx.ob(f, bad is None, "the parent file is positioned at offset + pos before every read",
               detail="another member (or this one) may have moved the shared file object in between", path=cfgmod.path_text(bad) if bad else None)


@rule("C20", "R5", "K1", "external sort: runs are sorted when written and all of them are merged",
      min_instances=3,
      clause="SortingPool.save() sorts the buffer before writing a run; items() returns the sorted buffer when no run "
             "exists, otherwise saves the tail and merges ALL runs; _read_run removes the run file only in finally.")
def c20_r5(ctx):
    prog = ctx.prog
    sp = prog.cls("externalsort.SortingPool")
    sv = sp.methods["save"]
    ctx.saw(sv)

    def classify(func, call, res, concrete):
        t = norm.canon(call)
        if norm.call_name(call) == "sort" and "current" in t:
            return "sort"
        if norm.call_name(call) == "_write_run":
            return "write_run"
        return None
    tr = Tracer(prog, calls_of(prog), classify, follow=lambda *a: [], max_depth=0)
    res = tr.traces(sv, None)
    bad = [t for t in res["normal"] if "write_run" in t and ("sort" not in t or t.index("sort") > t.index("write_run"))]
    ctx.ob(sv, bool(res["normal"]) and not bad and any("write_run" in t for t in res["normal"]), "the buffer is sorted before the run is written",
           detail=fmt(bad[0]) if bad else "")
    it = sp.methods["items"]
    ctx.saw(it)
    txt = norm.stmt_text(it.node)
    ctx.ob(it, "sorted(self.current)" in txt or "self.current.sort()" in txt, "with no runs on disk the in-memory items are returned sorted")
    ctx.ob(it, "self.save()" in txt, "a non-empty tail is saved as a run before merging")
    merges = [norm.canon(c) for c in norm.calls_in(it.node) if norm.call_name(c) in ("imerge", "merge")]
    rr = [norm.canon(n) for n in ast.walk(it.node) if isinstance(n, (ast.ListComp, ast.GeneratorExp)) and "_read_run" in norm.canon(n)]
    mr = [norm.deep_canon(c.args[0], it.node) for c in norm.calls_in(it.node) if norm.call_name(c) == "_merge_runs" and c.args]
    ctx.ob(it, mr == ["self.runs"], "all runs (self.runs) are handed to the merge", detail=str(mr))
    rd = sp.methods["_read_run"]
    ok = False
    for t in ast.walk(rd.node):
        if isinstance(t, ast.Try) and t.finalbody:
            ok = any(norm.call_name(c) == "_remove_run" for s_ in t.finalbody for c in norm.calls_in(s_)) and \
                not any(norm.call_name(c) == "_remove_run" for s_ in t.body for c in norm.calls_in(s_))
    ctx.ob(rd, ok, "a run file is removed only in the finally clause, after it was read completely")


DOCIDSET_API = ("__contains__", "__iter__", "__len__", "first", "last", "before", "after", "union", "intersection",
                "difference", "invert", "copy", "add", "discard", "update", "intersection_update", "difference_update")
IMMUTABLE_SETS = {"idsets.MultiIdSet": "read-only concatenation of per-segment sets", "idsets.ReverseIdSet": "complement view",
                  "idsets.OnDiskBitSet": "read-only view of a bit array in a file"}
ABSTRACT_SETS = {"idsets.BaseBitSet": "abstract base of BitSet / OnDiskBitSet"}


@rule("C20", "R6", "K10", "every doc-id set type offers the whole set interface",
      min_instances=4,
      clause="Each concrete DocIdSet resolves membership, ordered iteration, len, first/last/before/after, "
             "union/intersection/difference/invert, copy and (for mutable types) the in-place updates to a body that is "
             "not just `raise NotImplementedError`.")
def c20_r6(ctx):
    prog = ctx.prog
    base = prog.cls("idsets.DocIdSet")
    n = 0
    for cls in prog.subclasses(base, strict=True):
        if cls.short in ABSTRACT_SETS:
            continue
        n += 1
        for m in DOCIDSET_API:
            if cls.short in IMMUTABLE_SETS and m in ("add", "discard", "update", "intersection_update", "difference_update"):
                continue
            f = prog.lookup(cls, m)
            ok = f is not None and not is_abstract_body(f)
            ctx.ob(cls, ok, "%s() is implemented" % m,
                   detail="resolves to %s, which only raises NotImplementedError" % f.short if f is not None and not ok else ("missing" if f is None else ""),
                   loc=cls.loc)
    if n < 4:
        raise AnalysisError("only %d DocIdSet classes" % n)


@rule("C20", "R7", "K4", "variable-length integer and delta codecs are mirror images",
      min_instances=2,
      clause="varint()/read_varint() use 7 payload bits with 0x80 as the continuation flag on both sides; "
             "delta_encode()/delta_decode() subtract and add the running base symmetrically.")
def c20_r7(ctx):
    prog = ctx.prog
    vm = prog.module("util.varints")
    enc = vm.functions.get("_varint") or vm.functions.get("varint")
    dec = vm.functions.get("read_varint")
    if enc is None or dec is None:
        raise AnalysisError("util.varints varint/read_varint vanished")
    ctx.saw(enc)
    ctx.saw(dec)

    def consts(f):
        return sorted(set(n.value for n in ast.walk(f.node) if isinstance(n, ast.Constant) and isinstance(n.value, int) and n.value > 1))
    ce, cd = consts(enc), consts(dec)
    ctx.ob("util.varints.varint <-> read_varint", {7, 127, 128} <= set(ce) and {7, 127, 128} <= set(cd),
           "both sides use 7-bit groups (0x7f) with 0x80 as continuation flag", detail="%s / %s" % (ce, cd), loc=enc.loc)
    nm = prog.module("util.numlists")
    de = nm.functions.get("delta_encode")
    dd = nm.functions.get("delta_decode")
    if de is None or dd is None:
        raise AnalysisError("util.numlists delta_encode/delta_decode vanished")
    DE, DD = pm.Alpha(de), pm.Alpha(dd)
    des, dds = pm.stmts_of(de.node), pm.stmts_of(dd.node)
    def two_step(A_, stmts, first, second):
        """the loop over nums does `first` then `second` directly in its body, and nothing else binds base or yields"""
        for lp in stmts:
            if isinstance(lp, ast.For) and A_.eq(lp.iter, "nums") and A_.eq(lp.target, "n"):
                core = [st for st in lp.body if any(isinstance(x, (ast.Yield, ast.Assign, ast.AugAssign)) for x in ast.walk(st))]
                return len(core) == 2 and A_.eq(core[0], first) and A_.eq(core[1], second) and core[0] in lp.body and core[1] in lp.body
        return False
    e_ok = DE.has(des, "base = 0") and two_step(DE, des, "yield n - base", "base = n")
    d_ok = DD.has(dds, "base = 0") and two_step(DD, dds, "base += n", "yield base")
    ctx.ob("util.numlists.delta_encode <-> delta_decode", e_ok and d_ok,
           "encode yields n - base then base = n; decode adds to base and yields it", loc=de.loc)


TYPECODE_GETTER = {"B": "get_byte", "H": "get_ushort", "i": "get_int", "I": "get_uint", "q": "get_long"}


@rule("C20", "R8", "K4", "the ordered-hash index array is read with the getter of the typecode it was written with",
      min_instances=1, also=("C10",),
      clause="OrderedHashReader._read_extras binds self._get_pos, for each index typecode the writer can record (B, H, i, I, q), to "
             "the StructFile getter of exactly that type -- signedness included (I is unsigned 32 bit, i signed); the table is computed "
             "case by case from the code, whatever its shape (if-chain, dict keyed by typecode, dict keyed by item size).")
def c20_r8(ctx):
    from .. import cases
    prog = ctx.prog
    f = prog.method("filedb.filetables.OrderedHashReader", "_read_extras", inherited=False)
    ctx.saw(f)

    def absval(e, env, ev):
        t = cases.path_text(e, env)
        if t == 'self.extras["indextype"]' or t == "self.extras['indextype']":
            return ("tc", env["<tc>"])
        ok, v = cases.const_of(e)
        if ok:
            return ("const", v)
        if isinstance(e, ast.Attribute) and e.attr.startswith("get_"):
            return ("getter", e.attr)
        if isinstance(e, ast.Call) and isinstance(e.func, ast.Name) and e.func.id == "getattr" and len(e.args) == 2:
            a = ev.value(e.args[1], env)        # getattr(dbfile, "get_int")
            if a[0] == "const" and isinstance(a[1], str) and a[1].startswith("get_"):
                return ("getter", a[1])
        if isinstance(e, ast.Name) and e.id not in env and e.id in f.module.assigns:
            return ev.value(f.module.assigns[e.id], env)    # a module-level table
        if isinstance(e, ast.Call) and norm.canon(e.func) in ("struct.calcsize", "calcsize") and len(e.args) == 1:
            a = ev.value(e.args[0], env)
            if a[0] in ("tc", "const") and isinstance(a[1], str):
                return ("const", struct.calcsize(a[1]))
        if isinstance(e, ast.Dict) and all(k is not None for k in e.keys):
            items = []
            for k, v in zip(e.keys, e.values):
                items.append((ev.value(k, env), ev.value(v, env)))
            return ("dict", tuple(items))
        if isinstance(e, ast.Subscript):
            d = ev.value(e.value, env)
            k = ev.value(e.slice, env)
            if d[0] == "dict" and k[0] in ("tc", "const"):
                for kk, vv in d[1]:
                    if kk[0] in ("tc", "const") and kk[1] == k[1]:
                        return vv
                return ("raise",)
        if isinstance(e, ast.Call) and isinstance(e.func, ast.Attribute) and e.func.attr == "get" and e.args:
            d = ev.value(e.func.value, env)
            k = ev.value(e.args[0], env)
            if d[0] == "dict" and k[0] in ("tc", "const"):
                for kk, vv in d[1]:
                    if kk[0] in ("tc", "const") and kk[1] == k[1]:
                        return vv
                return ev.value(e.args[1], env) if len(e.args) > 1 else ("const", None)
        if cases.is_plain_path(e):
            return ("path", t)
        return cases.OPAQUE(norm.canon(e))

    def decide(t, env, ev):
        if isinstance(t, ast.Compare) and len(t.ops) == 1 and isinstance(t.ops[0], (ast.Is, ast.IsNot)):
            l, r = ev.value(t.left, env), ev.value(t.comparators[0], env)
            if r == ("const", None) and l[0] in ("const", "getter", "tc"):
                res = (l[0] == "const" and l[1] is None)
                return res if isinstance(t.ops[0], ast.Is) else not res
            return None
        if isinstance(t, ast.Compare) and len(t.ops) == 1 and isinstance(t.ops[0], (ast.Eq, ast.NotEq, ast.In, ast.NotIn)):
            l, r = ev.value(t.left, env), ev.value(t.comparators[0], env)
            if isinstance(t.ops[0], (ast.In, ast.NotIn)):
                if l[0] in ("tc", "const") and isinstance(t.comparators[0], (ast.Tuple, ast.List, ast.Set)):
                    vals = [ev.value(x, env) for x in t.comparators[0].elts]
                    if all(v[0] in ("tc", "const") for v in vals):
                        res = l[1] in [v[1] for v in vals]
                        return res if isinstance(t.ops[0], ast.In) else not res
                return None
            if l[0] in ("tc", "const") and r[0] in ("tc", "const"):
                return (l[1] == r[1]) if isinstance(t.ops[0], ast.Eq) else (l[1] != r[1])
        return None
    def resolve(call):
        # module-level helper functions of filetables.py, methods of the reader reached through self
        if isinstance(call.func, ast.Name):
            g = f.module.functions.get(call.func.id) if hasattr(f.module, "functions") else None
            if g is None:
                g = prog.functions.get(f.module.name + "." + call.func.id)
            return g.node if g is not None else None
        if isinstance(call.func, ast.Attribute) and isinstance(call.func.value, ast.Name) and call.func.value.id == "self":
            g = prog.lookup(f.cls, call.func.attr)
            return g.node if g is not None and g.name != "_read_extras" else None
        return None
    table = {}
    for tc in sorted(TYPECODE_GETTER):
        env, _ = cases.CaseEval(f.node, absval, decide, resolve=resolve, tables=f.module.assigns).run({"<tc>": tc})
        table[tc] = (env or {}).get("self._get_pos", cases.UNKNOWN)
    want = dict((tc, ("getter", g)) for tc, g in TYPECODE_GETTER.items())
    ctx.ob(f, table == want, "typecode -> getter: B get_byte, H get_ushort, i get_int, I get_uint, q get_long",
           detail="computed table: %s" % dict((k, v[-1]) for k, v in table.items()))
    # the writer records the array's own typecode
    w = prog.method("filedb.filetables.OrderedHashWriter", "_write_extras", inherited=False)
    ctx.saw(w)
    ok = any(isinstance(st, ast.Assign) and norm.canon(st.targets[0]) in ('self.extras["indextype"]', "self.extras['indextype']")
             and norm.deep_canon(st.value, w.node).endswith(".typecode") for st in ast.walk(w.node))
    ctx.ob(w, ok, "the writer records the index array's own typecode")


@rule("C20", "R9", "K2", "an ordered hash file refuses an out-of-order key before it records anything of it",
      min_instances=2,
      clause="In OrderedHashWriter.add and FieldedOrderedHashWriter.add the order check (`raise ValueError` for a key that does not "
             "increase) lies before every statement that changes the writer (index.append, HashWriter.add, lastkey): no path changes "
             "state and then raises. A caller that catches the error and goes on would otherwise leave a phantom entry in the position "
             "index, which closest_key()/keys_from() then read as a key.")
def c20_r9(ctx):
    prog = ctx.prog
    n = 0
    for cname in ("filedb.filetables.OrderedHashWriter", "filedb.filetables.FieldedOrderedHashWriter"):
        f = prog.method(cname, "add", inherited=False)
        ctx.saw(f)
        g = cfgmod.cfg_of(f, exc_edges=False)
        raises = [x for x in g.nodes if x.kind == "raise_stmt"]
        if not raises:
            raise AnalysisError("%s.add no longer raises for out-of-order keys" % cname)

        def mutates(x):
            a = x.ast
            if a is None or x.kind != "stmt":
                return False
            if isinstance(a, (ast.Assign, ast.AugAssign)):
                for t in (a.targets if isinstance(a, ast.Assign) else [a.target]):
                    y = t
                    while isinstance(y, ast.Subscript):
                        y = y.value
                    if isinstance(y, ast.Attribute) and norm.canon(y).startswith("self."):
                        return True
            for e in cfgmod.node_exprs(x):
                for c in norm.calls_in(e):
                    if isinstance(c.func, ast.Attribute) and c.func.attr in ("append", "extend", "add", "write", "insert") and (
                            norm.canon(c.func.value).startswith("self.") or (c.args and norm.canon(c.args[0]) == "self")):
                        return True
            return False
        n += 1
        bad = None
        for m in [x for x in g.nodes if mutates(x)]:
            p = cfgmod.find_path(g, m, lambda y: y in raises)
            if p:
                bad = [m] + p
        ctx.ob(f, bad is None, "no path changes the writer and then refuses the key",
               detail="state recorded for a key that is then rejected" if bad else "", path=cfgmod.path_text(bad) if bad else None)
    if n < 2:
        raise AnalysisError("ordered hash writers vanished")


def _is_buffer_ctor(v):
    return isinstance(v, ast.Call) and not v.args and not v.keywords and (
        (isinstance(v.func, ast.Name) and v.func.id in ("BytesIO", "StringIO")) or
        (isinstance(v.func, ast.Attribute) and v.func.attr in ("BytesIO", "StringIO")))


@rule("C20", "R10", "K2", "a buffer that is rewound but never truncated is read back only up to its cursor",
      min_instances=1, also=("C06", "C08", "C18"),
      clause="For every object attribute that a class creates as an empty BytesIO/StringIO: when some method rewinds it with seek(0) and "
             "no method truncates it, the bytes after the cursor are left over from an earlier fill. Every getvalue() of such a buffer "
             "must therefore be cut at a bound that was read from the same buffer's tell() with no write/seek of the buffer in between "
             "(CompoundWriter.SubStream.write: `bio.getvalue()[:buflen]`). Whole-value reads of a buffer that is never rewound, or that "
             "is truncated/replaced on rewind, satisfy the rule. Decides the shape of the bound, not the bytes.")
def c20_r10(ctx):
    prog = ctx.prog
    n = 0
    for c in sorted(prog.classes.values(), key=lambda k: k.qualname):
        if c.module.name.startswith(("whoosh.lang", "whoosh.support")):
            continue
        bufs = set()
        for f in c.methods.values():
            for st in ast.walk(f.node):
                if isinstance(st, ast.Assign) and _is_buffer_ctor(st.value):
                    for t in st.targets:
                        if isinstance(t, ast.Attribute) and isinstance(t.value, ast.Name) and t.value.id == "self":
                            bufs.add(t.attr)
        for attr in sorted(bufs):
            P = "self." + attr
            n += 1

            def calls_on(f, names):
                out = []
                for x in ast.walk(f.node):
                    if isinstance(x, ast.Call) and isinstance(x.func, ast.Attribute) and x.func.attr in names \
                            and norm.deep_canon(x.func.value, f.node) == P:
                        out.append(x)
                return out
            rewinds, truncs, reads = [], [], []
            for f in c.methods.values():
                ctx.saw(f)
                for x in calls_on(f, ("seek",)):
                    if x.args and isinstance(x.args[0], ast.Constant) and x.args[0].value == 0 and (
                            len(x.args) == 1 or (isinstance(x.args[1], ast.Constant) and x.args[1].value == 0)):
                        rewinds.append((f, x))
                truncs += [(f, x) for x in calls_on(f, ("truncate",))]
                reads += [(f, x) for x in calls_on(f, ("getvalue", "getbuffer"))]
            if not rewinds or truncs:
                ctx.ob("%s.%s" % (c.short, attr), True,
                       "buffer is %s: its whole value is its content" % ("truncated when reused" if truncs else "never rewound"),
                       loc=c.loc)
                continue
            if not reads:
                ctx.ob("%s.%s" % (c.short, attr), True, "rewound buffer is never read back as a whole", loc=c.loc)
            for f, x in reads:
                parents = {}
                for p in ast.walk(f.node):
                    for ch in ast.iter_child_nodes(p):
                        parents[id(ch)] = p
                par = parents.get(id(x))
                bound = None
                if isinstance(par, ast.Subscript) and par.value is x and isinstance(par.slice, ast.Slice) \
                        and par.slice.upper is not None and par.slice.step is None \
                        and (par.slice.lower is None or (isinstance(par.slice.lower, ast.Constant) and par.slice.lower.value == 0)):
                    bound = par.slice.upper
                ok = bound is not None and norm.deep_canon(bound, f.node) == P + ".tell()"
                detail = ""
                path = None
                if bound is None:
                    detail = "%s is rewound with seek(0) in %s and never truncated, but its whole value is used here: bytes of an " \
                             "earlier fill follow the cursor" % (P, rewinds[0][0].short)
                elif not ok:
                    detail = "the bound %s is not the buffer's own tell()" % norm.canon(bound)
                else:
                    # the bound must still be the cursor: no write/seek of the buffer between the tell() and this read
                    g = cfgmod.cfg_of(f, exc_edges=False)

                    def has(node, pred):
                        return any(pred(y) for e in cfgmod.node_exprs(node) for y in ast.walk(e))
                    tells = [y for y in g.nodes if has(y, lambda z: isinstance(z, ast.Call) and isinstance(z.func, ast.Attribute)
                                                       and z.func.attr == "tell" and norm.deep_canon(z.func.value, f.node) == P)]
                    use = [y for y in g.nodes if has(y, lambda z: z is x)]
                    moves = [y for y in g.nodes if y not in use and has(
                        y, lambda z: isinstance(z, ast.Call) and isinstance(z.func, ast.Attribute)
                        and z.func.attr in ("write", "seek", "writelines") and norm.deep_canon(z.func.value, f.node) == P)]
                    for t in tells:
                        if t in use:
                            continue
                        for m in moves:
                            p1 = cfgmod.find_path(g, t, lambda y: y is m)
                            p2 = p1 and cfgmod.find_path(g, m, lambda y: y in use, avoid_pred=lambda y: y in tells)
                            if p1 and p2:
                                ok = False
                                detail = "the buffer is moved between reading its cursor and cutting its value"
                                path = cfgmod.path_text([t] + p1 + p2)
                ctx.ob(f, ok, "getvalue() of the rewound buffer %s is cut at its cursor" % P, detail=detail,
                       loc=ctx.nodeloc(f, x), path=path)
    if n == 0:
        ctx.note("no class keeps an in-memory buffer attribute any more")
        ctx.ob("whoosh", True, "no reusable in-memory buffers to bound")


@rule("C20", "R11", "K6", "every lookup in a table of document-number offsets finds the last offset that is <= the number",
      min_instances=4, also=("C01", "C08", "C10"),
      clause="Multi-segment readers, the column reader over sub-readers, the writer's deletion routing and MultiIdSet keep a sorted list of "
             "first document numbers and locate the part that holds document n by bisection. All siblings must use the one correct "
             "form `bisect_right(offsets, n) - 1` (optionally clamped with max(0, .)): bisect_left sends a part's first document to the "
             "part before it, and a missing `- 1` or a clamp from below by the last index sends every document to the wrong part. "
             "Sibling agreement over the shape of the expression; the arithmetic on the found part is not decided here.")
def c20_r11(ctx):
    prog = ctx.prog
    n = 0
    for f in sorted(prog.functions.values(), key=lambda f: f.qualname):
        if f.module.name.startswith(("whoosh.lang", "whoosh.support")):
            continue
        calls = [x for x in ast.walk(f.node) if isinstance(x, ast.Call) and
                 (getattr(x.func, "id", None) or getattr(x.func, "attr", None)) in ("bisect_left", "bisect_right", "bisect")
                 and len(x.args) >= 2]
        if not calls:
            continue
        parents = {}
        for p in ast.walk(f.node):
            for ch in ast.iter_child_nodes(p):
                parents[id(ch)] = p
        for x in calls:
            table = norm.deep_canon(x.args[0], f.node)
            if "offset" not in table.lower():
                continue
            n += 1
            ctx.saw(f)
            fn = getattr(x.func, "id", None) or x.func.attr
            par = parents.get(id(x))
            minus1 = isinstance(par, ast.BinOp) and isinstance(par.op, ast.Sub) and par.left is x \
                and isinstance(par.right, ast.Constant) and par.right.value == 1
            detail = ""
            ok = fn in ("bisect_right", "bisect") and minus1
            if fn == "bisect_left":
                detail = "bisect_left(%s, n) puts a part's first document before its own offset" % table
            elif not minus1:
                detail = "bisect_right(%s, n) is the index after the part; the lookup must subtract 1" % table
            else:
                outer = parents.get(id(par))
                if isinstance(outer, ast.Call) and getattr(outer.func, "id", None) in ("max", "min"):
                    others = [a for a in outer.args if a is not par]
                    good = outer.func.id == "max" and len(others) == 1 and isinstance(others[0], ast.Constant) and others[0].value == 0
                    if not good:
                        ok = False
                        detail = "the found index is clamped with `%s`: only max(0, .) keeps it" % norm.canon(outer)
            ctx.ob(f, ok, "the part of document n is bisect_right(%s, n) - 1" % table, detail=detail, loc=ctx.nodeloc(f, x))
    if n == 0:
        raise AnalysisError("no offset-table lookup found")


@rule("C20", "R12", "K4", "element k of an on-disk position index is addressed at base + k * (size of the array's typecode)",
      min_instances=2,
      clause="OrderedHashReader.closest_key_pos and FieldedOrderedHashReader.closest_term_pos binary-search an array of key positions "
             "that the writer dumped with array.tofile(); element k lies at base + k * struct.calcsize(typecode). In every "
             "`base + k * s` handed to the position getter, s must be bound to struct.calcsize(...) of the recorded typecode (directly "
             "or through an attribute bound that way) -- in particular not to the element count, which the same tuple also carries.")
def c20_r12(ctx):
    prog = ctx.prog
    n = 0
    for cname, mname in (("filedb.filetables.OrderedHashReader", "closest_key_pos"),
                         ("filedb.filetables.FieldedOrderedHashReader", "closest_term_pos")):
        f = prog.method(cname, mname, inherited=False)
        ctx.saw(f)
        cls = prog.cls(cname)
        attrs = self_attr_assignments(prog, cls)

        def resolved(e):
            t = norm.deep_canon(e, f.node)
            if t.startswith("self.") and t[5:] in attrs:
                return " | ".join(norm.deep_canon(v, g.node) for g, v, _st in attrs[t[5:]] if v is not None)
            return t
        found = False
        for call in [x for x in ast.walk(f.node) if isinstance(x, ast.Call)]:
            for a in call.args:
                a2 = norm.inline_defs(a, f.node) if not isinstance(a, ast.BinOp) else a
                if not (isinstance(a2, ast.BinOp) and isinstance(a2.op, ast.Add)):
                    continue
                for side in (a2.left, a2.right):
                    if isinstance(side, ast.BinOp) and isinstance(side.op, ast.Mult):
                        found = True
                        n += 1
                        texts = [resolved(side.left), resolved(side.right)]
                        ok = any("calcsize(" in t for t in texts)
                        ctx.ob(f, ok, "`%s`: the stride is the item size of the index typecode" % norm.canon(a2),
                               detail="" if ok else "neither factor is struct.calcsize(typecode): %s" % " * ".join(texts),
                               loc=ctx.nodeloc(f, call))
        if not found:
            ctx.note("%s.%s no longer addresses index elements by hand" % (cname, mname))
            ctx.ob(f, True, "no hand-computed element address")
            n += 1
