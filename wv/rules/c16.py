"""C16 -- the query parser accepts any input and honours the documented language."""

import ast
import re

from ..report import rule
from .. import pm, norm, cfg as cfgmod, guards
from ..model import AnalysisError
from .common import calls_of, find_calls, returns_of, is_abstract_body, bind_args

# explicit raises in parse-time code that are not QueryParserError, each reviewed
REVIEWED_RAISES = {
    ("qparser.default.QueryParser.tag", "Exception"):
        "cannot happen for shipped taggers: every RegexTagger/FnTagger match has endchar > pos unless the "
        "expression matches the empty string, which no shipped plugin expression does",
    ("qparser.default.QueryParser.filterize", "Exception"):
        "cannot happen for shipped filters: every filter returns the (possibly new) group",
    ("qparser.syntax.SyntaxNode.query", "NotImplementedError"): "abstract method",
    ("qparser.syntax.Operator.replace_self", "NotImplementedError"): "abstract method",
    ("qparser.taggers.Tagger.match", "NotImplementedError"): "abstract method",
    ("qparser.taggers.RegexTagger.create", "NotImplementedError"): "abstract method",
    ("qparser.common.attach", "AttributeError"): "re-raise with a clearer message; only for query objects with __slots__",
}
CONFIG_TIME = ("__init__", "add_plugin", "add_plugins", "remove_plugin", "remove_plugin_class", "replace_plugin",
               "__repr__", "__eq__", "__hash__")
HOOKS = ("parse_query", "parse_range")
CATCH_ALL = ("Exception", "BaseException", "*")


def _hosts_of_new_helper(prog, f):
    """the functions that call f, when f is a private function the reference inventory does not have (an extracted block)"""
    from .. import inline
    inv = inline.inventory()
    if not inv or f.qualname in inv or not f.name.startswith("_") or f.name.startswith("__"):
        return []
    hosts = []
    for g in prog.functions.values():
        if g is f or g.module is not f.module:
            continue
        for x in ast.walk(g.node):
            if (isinstance(x, ast.Attribute) and x.attr == f.name) or (isinstance(x, ast.Name) and x.id == f.name):
                hosts.append(g)
                break
    return hosts


def _exc_name(raise_node):
    e = raise_node.exc
    if e is None:
        return None
    if isinstance(e, ast.Call):
        e = e.func
    return norm.canon(e).split(".")[-1]


def _handler_names(h):
    if h.type is None:
        return ["*"]
    if isinstance(h.type, ast.Tuple):
        return [norm.canon(e).split(".")[-1] for e in h.type.elts]
    return [norm.canon(h.type).split(".")[-1]]


def _enclosing_tries(funcnode, target):
    """Try statements whose *body* contains `target` (innermost last)."""
    out = []

    def rec(node, stack):
        if node is target:
            out.extend(stack)
            return True
        for fld, val in ast.iter_fields(node):
            items = val if isinstance(val, list) else [val]
            for ch in items:
                if not isinstance(ch, ast.AST):
                    continue
                st2 = stack
                if isinstance(node, ast.Try) and fld == "body":
                    st2 = stack + [node]
                if rec(ch, st2):
                    return True
        return False
    rec(funcnode, [])
    return out


@rule("C16", "R1", "K7", "parse-time code raises only QueryParserError (every other explicit raise is reviewed)",
      min_instances=5,
      clause="Every explicit `raise` in whoosh/qparser (outside constructors and parser configuration methods) "
             "raises QueryParserError, is an abstract-method stub, or is one of the listed 'cannot happen' checks with "
             "the invariant that makes it unreachable for shipped plugins.")
def c16_r1(ctx):
    prog = ctx.prog
    n = 0
    for f in prog.functions.values():
        if not f.module.name.startswith("whoosh.qparser") or f.module.name.endswith("dateparse"):
            continue
        if f.name in CONFIG_TIME:
            continue
        for r in ast.walk(f.node):
            if not isinstance(r, ast.Raise):
                continue
            n += 1
            nm = _exc_name(r)
            if nm is None:
                continue  # bare re-raise inside a handler
            ok = nm == "QueryParserError" or (f.short, nm) in REVIEWED_RAISES
            why = REVIEWED_RAISES.get((f.short, nm), "")
            if not ok:
                # the reviewed check moved, with the block around it, into a new private helper of the same function
                hosts = _hosts_of_new_helper(prog, f)
                if hosts and all((h.short, nm) in REVIEWED_RAISES for h in hosts):
                    ok = True
                    why = "in a new private helper called only from %s: %s" % (", ".join(h.short for h in hosts), REVIEWED_RAISES[(hosts[0].short, nm)])
            ctx.saw(f)
            ctx.ob(f, ok, "raise %s" % nm,
                   detail=why if ok else "a non-parser exception can escape QueryParser.parse()",
                   loc=ctx.nodeloc(f, r))
    for (fn, nm) in REVIEWED_RAISES:
        if not prog.has_func(fn):
            raise AnalysisError("reviewed raise site %s vanished; re-confirm the table" % fn)
    if n < 5:
        raise AnalysisError("only %d raise statements found in qparser" % n)


@rule("C16", "R2", "K2", "every call from the parser into a field's parsing hook is fenced by a catch-all that yields an error query",
      min_instances=2,
      clause="field.parse_query(...) and field.parse_range(...) are user-extensible hooks whose shipped "
             "implementations raise ValueError, decimal.InvalidOperation, bare Exception ...; each call site in "
             "whoosh/qparser sits in a try whose handler catches Exception (or everything) and returns "
             "query.error_query(...) or raises QueryParserError.")
def c16_r2(ctx):
    prog = ctx.prog
    n = 0
    for f in prog.functions.values():
        if not f.module.name.startswith("whoosh.qparser"):
            continue
        for c in norm.calls_in(f.node):
            if norm.call_name(c) not in HOOKS or not isinstance(c.func, ast.Attribute):
                continue
            recv = norm.canon(c.func.value)
            if "field" not in recv.lower():
                continue
            n += 1
            ctx.saw(f)
            tries = _enclosing_tries(f.node, c)
            caught = []
            converts = False
            for t in tries:
                for h in t.handlers:
                    names = _handler_names(h)
                    caught.extend(names)
                    if any(x in CATCH_ALL for x in names):
                        body = " ".join(norm.stmt_text(s) for s in h.body)
                        converts = converts or "error_query(" in body or "QueryParserError(" in body
            ok = any(x in CATCH_ALL for x in caught) and converts
            ctx.ob(f, ok, "%s.%s(...) is inside try/except Exception -> error query" % (recv, norm.call_name(c)),
                   detail="handlers catch only %s: other exception types raised by field implementations escape parse()" % (caught or "nothing")
                   if not ok else "", loc=ctx.nodeloc(f, c))
    if n < 2:
        raise AnalysisError("only %d field-hook call sites found in qparser" % n)
    # the hooks do raise non-parser exceptions today (why the fence must be a catch-all)
    fbase = prog.cls("fields.FieldType")
    kinds = set()
    for cls in prog.subclasses(fbase):
        for hook in HOOKS + ("_parse_datestring", "prepare_number", "to_bytes"):
            g = cls.methods.get(hook)
            if g is None:
                continue
            for r in ast.walk(g.node):
                if isinstance(r, ast.Raise) and _exc_name(r):
                    kinds.add(_exc_name(r))
    ctx.note("exception types raised explicitly by shipped field hooks: %s" % sorted(kinds))


@rule("C16", "R3", "K7", "running a query raises at most QueryError: matcher-building code raises nothing else explicitly "
                          "and looks fields up only after a membership test",
      min_instances=4,
      clause="In every Query class's matcher()/_matcher()/_btexts()/_compile_query()/docs(): explicit raises are "
             "QueryError (TermNotFound only where the caller catches it); schema[...] subscripts with a user-supplied "
             "field name are dominated by a `fieldname in schema` test (else KeyError for an unknown field).")
def c16_r3(ctx):
    prog = ctx.prog
    qbase = prog.cls("query.qcore.Query")
    seen = set()
    n = 0
    for cls in prog.subclasses(qbase):
        for mname in ("matcher", "_matcher", "_btexts", "_compile_query", "docs", "_find_prefix"):
            f = cls.methods.get(mname)
            if f is None or f.qualname in seen or is_abstract_body(f):
                continue
            seen.add(f.qualname)
            n += 1
            for r in ast.walk(f.node):
                if isinstance(r, ast.Raise) and _exc_name(r):
                    nm = _exc_name(r)
                    ok = nm in ("QueryError", "NotImplementedError") or nm.endswith("QueryError") or \
                        (f.short, nm) in REVIEWED_QUERY_RAISES
                    ctx.saw(f)
                    ctx.ob(f, ok, "raise %s" % nm, detail="a search on user input can raise %s instead of QueryError" % nm if not ok else "",
                           loc=ctx.nodeloc(f, r))
            # unguarded schema[...] subscripts
            fa = None
            for nd in ast.walk(f.node):
                if isinstance(nd, ast.Subscript) and norm.canon(nd.value).endswith("schema") and isinstance(nd.ctx, ast.Load):
                    if fa is None:
                        fa = guards.Facts(f)
                    key = norm.canon(nd.slice, fa.al)
                    node = None
                    for cn in fa.g.nodes:
                        for frag in cfgmod.node_exprs(cn):
                            if any(x is nd for x in ast.walk(frag)):
                                node = cn
                    facts = (fa.at(node) if node is not None else None) or frozenset()
                    schema_t = norm.canon(nd.value, fa.al)
                    guarded = _caller_guards(prog, cls, mname, key) or any(p == "T" and (" in " in t and t.startswith("(" + key + " in ") and "schema" in t) for (p, t) in facts) or \
                        any(p == "F" and (" not in " in t and t.startswith("(" + key + " not in ") and "schema" in t) for (p, t) in facts)
                    ctx.saw(f)
                    ctx.ob(f, guarded, "%s[%s] is looked up after a membership test" % (norm.canon(nd.value), key),
                           detail="KeyError for a field name that is not in the schema" if not guarded else "", loc=ctx.nodeloc(f, nd))
    if n < 8:
        raise AnalysisError("only %d matcher-building methods found" % n)


REVIEWED_QUERY_RAISES = {
    ("query.compound.Or._matcher", "ValueError"): "programmer error: matcher_type is a class-level constant, not user input",
}


def _caller_guards(prog, cls, mname, key):
    """The lookup happens in a helper (_btexts/_compile_query) that matcher() of the same class
    only calls after testing `<field> in searcher.schema`."""
    if mname not in ("_btexts", "_compile_query", "_find_prefix"):
        return False
    m = prog.lookup(cls, "matcher")
    if m is None:
        return False
    fa = guards.Facts(m)
    for cn in fa.g.nodes:
        for frag in cfgmod.node_exprs(cn):
            for c in norm.calls_in(frag):
                if norm.call_name(c) == mname and norm.canon(norm.receiver(c) or ast.Name(id="")) == "self":
                    facts = fa.at(cn) or frozenset()
                    for (p, t) in facts:
                        if p == "F" and " not in " in t and t.rstrip(")").endswith("searcher.schema") and \
                                ("fieldname" in t or "self.field()" in t):
                            return True
                        if p == "T" and " in " in t and " not in " not in t and t.rstrip(")").endswith("searcher.schema"):
                            return True
    return False


DOCUMENTED_OPS = [("Not", "NotGroup", "PrefixOperator"), ("And", "AndGroup", "InfixOperator"), ("Or", "OrGroup", "InfixOperator"),
                  ("AndNot", "AndNotGroup", "InfixOperator"), ("AndMaybe", "AndMaybeGroup", "InfixOperator"),
                  ("Require", "RequireGroup", "InfixOperator")]


@rule("C16", "R4", "K5", "operator precedence is the documented one: NOT, AND, OR, then ANDNOT / ANDMAYBE / REQUIRE",
      min_instances=2,
      clause="OperatorsPlugin.__init__ appends its operator taggers in the documented binding order (docs/source/"
             "querylang.rst) with NOT as a prefix operator and the others infix, and do_operators applies self.ops in "
             "list order without re-sorting; the operators filter runs before the implicit grouping is final.")
def c16_r4(ctx):
    prog = ctx.prog
    init = prog.method("qparser.plugins.OperatorsPlugin", "__init__", inherited=False)
    ctx.saw(init)
    got = []
    ial = norm.aliases(init.node)
    for c in norm.calls_in(init.node):
        if norm.canon(c.func, ial) == "self.OpTagger" and len(c.args) >= 2:
            expr = norm.canon(c.args[0])
            grp = norm.canon(c.args[1]).split(".")[-1]
            opt = norm.canon(c.args[2]).split(".")[-1] if len(c.args) > 2 else "InfixOperator"
            got.append((expr, grp, opt))
    if len(got) == 1 and all(isinstance(a_, ast.Name) for c_ in norm.calls_in(init.node) if norm.canon(c_.func, ial) == "self.OpTagger"
                             for a_ in c_.args[:3]):
        # second spelling: one OpTagger(...) call in a loop over a literal table of rows -- read the rows in table order
        call = [c_ for c_ in norm.calls_in(init.node) if norm.canon(c_.func, ial) == "self.OpTagger"][0]
        loops = [w for w in ast.walk(init.node) if isinstance(w, ast.For) and isinstance(w.target, ast.Tuple)
                 and any(x is call for x in ast.walk(w))]
        if len(loops) == 1:
            lp = loops[0]
            table = lp.iter
            if isinstance(table, ast.Name):
                vals_ = [v_ for v_ in norm.assigned_names(init.node).get(table.id, []) if v_ is not None]
                table = vals_[0] if len(vals_) == 1 else table
            if isinstance(table, (ast.List, ast.Tuple)) and all(isinstance(r_, ast.Tuple) and len(r_.elts) == len(lp.target.elts)
                                                                for r_ in table.elts):
                names_ = [e_.id if isinstance(e_, ast.Name) else None for e_ in lp.target.elts]
                got = []
                for r_ in table.elts:
                    env = dict(zip(names_, r_.elts))
                    row = []
                    for a_ in call.args[:3]:
                        v_ = env.get(a_.id)
                        row.append(norm.canon(v_, ial).split(".")[-1] if v_ is not None else "?")
                    if len(row) == 2:
                        row.append("InfixOperator")
                    got.append(tuple(row))
    ctx.ob(init, got == DOCUMENTED_OPS, "taggers are appended as Not(prefix), And, Or, AndNot, AndMaybe, Require",
           detail="appended: %s" % got)
    ot = prog.cls("qparser.plugins.OperatorsPlugin.OpTagger")
    oi = ot.methods["__init__"]
    a = oi.node.args
    d = dict(zip([x.arg for x in a.args][len(a.args) - len(a.defaults):], a.defaults))
    ctx.ob(oi, norm.canon(d.get("optype")).endswith("InfixOperator") and isinstance(d.get("leftassoc"), ast.Constant) and d["leftassoc"].value is True,
           "operators default to infix, left-associative")
    do = prog.method("qparser.plugins.OperatorsPlugin", "do_operators", inherited=False)
    ctx.saw(do)
    loops = [n for n in ast.walk(do.node) if isinstance(n, ast.For)]
    ok = bool(loops) and norm.canon(loops[0].iter) == "self.ops" and not any(
        norm.call_name(c) in ("sort", "sorted", "reversed", "reverse") for c in norm.calls_in(do.node))
    ctx.ob(do, ok, "do_operators applies self.ops in list order (no re-sorting)")
    # group classes for the binary operators
    syn = prog.module("qparser.syntax")
    for name, qcls in (("AndGroup", "And"), ("OrGroup", "Or"), ("AndNotGroup", "AndNot"), ("AndMaybeGroup", "AndMaybe"),
                       ("RequireGroup", "Require"), ("NotGroup", "Not")):
        c = prog.cls("qparser.syntax." + name)
        q = prog.lookup_attr(c, "qclass")
        ctx.ob(c, q is not None and norm.canon(q).split(".")[-1] == qcls, "%s builds query.%s" % (name, qcls),
               detail=norm.canon(q) if q is not None else "no qclass", loc=c.loc)


@rule("C16", "R5", "K5", "tagging is total: text no tagger claims becomes a word node, nothing is dropped",
      min_instances=1,
      clause="In QueryParser.tag, untagged spans become WordNodes both inside the loop (before a matched token) and "
             "after it (trailing text); the cursor advances by one when no tagger matches; parse() substitutes NullQuery "
             "for an empty result and normalizes.")
def c16_r5(ctx):
    prog = ctx.prog
    tag = prog.method("qparser.default.QueryParser", "tag", inherited=False)
    ctx.saw(tag)
    # untagged text is wrapped into WordNode(text[a:b]) -- directly, or through a local helper(a, b) that does it
    helpers = {}
    for n in ast.walk(tag.node):
        if isinstance(n, ast.FunctionDef) and n is not tag.node and any(norm.call_name(c) == "WordNode" for c in norm.calls_in(n)):
            helpers[n.name] = n
    TA = pm.Alpha(tag)
    TA.find(pm.stmts_of(tag.node), "prev = pos")
    spans = []
    nested = set(id(x) for h in helpers.values() for x in ast.walk(h))
    for c in norm.calls_in(tag.node, include_nested_defs=False):
        if id(c) in nested:
            continue
        nm = norm.call_name(c)
        if nm in helpers and len(c.args) == 2:
            spans.append((norm.deep_canon(c.args[0], tag.node), norm.deep_canon(c.args[1], tag.node)))
        elif nm == "WordNode" and c.args and isinstance(c.args[0], ast.Subscript) and isinstance(c.args[0].slice, ast.Slice) \
                and norm.canon(c.args[0].value) == tag.params[1] and c.args[0].slice.lower is not None and c.args[0].slice.upper is not None:
            spans.append((norm.deep_canon(c.args[0].slice.lower, tag.node), norm.deep_canon(c.args[0].slice.upper, tag.node)))
    # roles from the spans themselves: the trailing span is (P, len(text)); the in-between span is (P, C) with the same P, and C --
    # the cursor -- is the variable the scanning loop compares with len(text)  (names do not matter: the loop may have been inlined
    # back from a helper, which renames the cursor apart)
    tail_txt = "len(%s)" % tag.params[1]
    tails = [sp for sp in spans if sp[1] == tail_txt]
    betweens = [sp for sp in spans if sp[1] != tail_txt and sp[1].isidentifier() and sp[0].isidentifier()]
    loops = [norm.deep_canon(w.test, tag.node) for w in ast.walk(tag.node) if isinstance(w, ast.While)]
    posn = betweens[0][1] if betweens else "pos"
    roles_ok = len(tails) == 1 and len(betweens) == 1 and tails[0][0] == betweens[0][0] and "(%s < %s)" % (posn, tail_txt) in loops
    ctx.ob(tag, len(helpers) <= 1 and roles_ok,
           "in-between text and trailing text are both turned into word nodes", detail=str(spans))
    adv = any(isinstance(st, ast.AugAssign) and norm.canon(st.target) == posn and isinstance(st.op, ast.Add) and
              norm.canon(st.value) == "1" for st in ast.walk(tag.node))
    ctx.ob(tag, adv, "the cursor advances by one character when no tagger matches")
    pr = prog.method("qparser.default.QueryParser", "parse", inherited=False)
    ctx.saw(pr)
    PA = pm.Alpha(pr)
    sts = pm.stmts_of(pr.node)
    rets = [r.value for r in returns_of(pr)]
    ok = PA.has(sts, "q = nodes.query(self)") and PA.has(sts, "q = query.NullQuery") and PA.has(sts, "q = q.normalize()") and \
        len(rets) >= 1 and all(PA.eq(r, "q") for r in rets)
    if not ok:
        # second spelling: `q = nodes.query(self) or NullQuery`, an early `return q` when normalize is off, the normalized
        # query under its own name.  What is required: the query variable has the NullQuery fallback, every return is that
        # variable or its .normalize(), and the un-normalized one is returned only where `normalize` is known to be false
        an_ = norm.assigned_names(pr.node)
        qv = [n_ for n_, vals_ in an_.items() if any(v_ is not None and "nodes.query(self)" in norm.canon(v_) for v_ in vals_)]
        if len(qv) == 1:
            qn = qv[0]
            fallback = any(v_ is not None and "NullQuery" in norm.canon(v_) for v_ in an_[qn])
            fp = guards.Facts(pr)
            good = bool(rets) and fallback
            normalized_somewhere = False
            nparam = "normalize" if "normalize" in pr.params else None
            for r_ in returns_of(pr):
                t_ = norm.deep_canon(r_.value, pr.node) if r_.value is not None else ""
                raw = norm.canon(r_.value) == qn
                isnorm = t_.endswith(".normalize()") or (raw and PA.has(sts, "%s = %s.normalize()" % (qn, qn)))
                normalized_somewhere = normalized_somewhere or isnorm
                if raw and not isnorm:
                    nd_ = fp.node_of(r_.value)
                    facts_ = fp.at(nd_) if nd_ is not None else None
                    if nparam is None or not facts_ or ("F", nparam) not in facts_:
                        good = False
                elif not isnorm:
                    good = False
            ok = good and normalized_somewhere
    ctx.ob(pr, ok, "parse() returns NullQuery for nothing and normalizes the result")


FIELD_ANALYSIS = ("process_text", "tokenize")


def _field_preconditions(prog):
    """what FieldType.tokenize / process_text need to be true of the field so as not to raise: derived from their own
    `if not self.<attr>: raise ...` guards (process_text calls tokenize, so it inherits tokenize's)."""
    ft = prog.cls("fields.FieldType")
    need = {}
    for m in FIELD_ANALYSIS:
        f = ft.methods.get(m)
        if f is None:
            raise AnalysisError("fields.FieldType.%s vanished" % m)
        attrs = set()
        fa = guards.Facts(f)
        for n in fa.g.nodes:
            if n.kind == "raise_stmt":
                for (p, t) in fa.at(n) or ():
                    if p == "F" and t.startswith("self.") and t.count(".") == 1:
                        attrs.add(t.split(".")[1])
        need[m] = attrs
    if "tokenize" in [norm.call_name(c) for c in norm.calls_in(ft.methods["process_text"].node)]:
        need["process_text"] = need["process_text"] | need["tokenize"]
    return need


@rule("C16", "R6", "K2", "parser code calls into a field's text analysis only when the field can analyse, or inside a catch-all",
      min_instances=3,
      clause="FieldType.tokenize raises a bare Exception when the field has no analyzer and process_text when it has no "
             "format (STORED, BOOLEAN, NUMERIC ... fields): every call of field.tokenize / field.process_text / "
             "get_single_text(field, ...) in whoosh/qparser is dominated by tests establishing those attributes, or sits in "
             "a try whose handler catches Exception and yields an error query.")
def c16_r6(ctx):
    prog = ctx.prog
    need = _field_preconditions(prog)
    ctx.note("preconditions derived from FieldType: %s" % {k: sorted(v) for k, v in need.items()})
    n = 0
    for f in prog.functions.values():
        if not f.module.name.startswith("whoosh.qparser") or f.module.name.endswith("dateparse"):
            continue
        if f.short == "qparser.common.get_single_text":
            continue  # the wrapper itself: its callers are checked
        fa = None
        for c in norm.calls_in(f.node):
            nm = norm.call_name(c)
            if nm in FIELD_ANALYSIS and isinstance(c.func, ast.Attribute):
                recv = norm.canon(c.func.value)
                req = need[nm]
            elif nm == "get_single_text" and c.args:
                recv = norm.canon(c.args[0])
                req = need["process_text"]
            else:
                continue
            if "field" not in recv.lower():
                continue
            n += 1
            ctx.saw(f)
            if fa is None:
                fa = guards.Facts(f)
            node = None
            for cn in fa.g.nodes:
                for frag in cfgmod.node_exprs(cn):
                    if any(x is c for x in ast.walk(frag)):
                        node = cn
            facts = (fa.at(node) if node is not None else None) or frozenset()
            have = set(t.split(".", 1)[1] for (p, t) in facts if p == "T" and t.startswith(recv + ".") and t.count(".") == recv.count(".") + 1)
            fenced = False
            for t_ in _enclosing_tries(f.node, c):
                for h in t_.handlers:
                    if any(x in CATCH_ALL for x in _handler_names(h)):
                        body = " ".join(norm.stmt_text(s) for s in h.body)
                        fenced = fenced or "error_query(" in body or "QueryParserError(" in body
            ok = fenced or req <= have
            ctx.ob(f, ok, "%s on %s cannot raise a non-parser exception" % (nm, recv),
                   detail="needs %s.%s to be set, known here: %s; not inside try/except Exception -> error query: a query on a field "
                          "without analyzer/format makes parse() raise a bare Exception" % (recv, sorted(req - have), sorted(have)) if not ok else "",
                   loc=ctx.nodeloc(f, c))
    if n < 3:
        raise AnalysisError("only %d field-analysis call sites found in qparser" % n)


@rule("C16", "R7", "K2", "syntax nodes build queries without assuming a well-formed tree",
      min_instances=2,
      clause="In the query() methods of the parser's group nodes, self.nodes[<constant>] is read only where a test has "
             "established that the group is non-empty / has that many nodes (operators next to each other leave empty "
             "and one-element groups behind: `NOT NOT a`, `a ANDMAYBE ANDNOT b`); no `assert` guards user-reachable "
             "shapes; a sub-query that came back None is not wrapped.")
def c16_r7(ctx):
    prog = ctx.prog
    base = prog.cls("qparser.syntax.SyntaxNode")
    n = 0
    for cls in [base] + prog.subclasses(base, strict=True):
        f = cls.methods.get("query")
        if f is None or is_abstract_body(f):
            continue
        subs = [x for x in ast.walk(f.node) if isinstance(x, ast.Subscript) and norm.canon(x.value) == "self.nodes"
                and isinstance(x.slice, ast.Constant) and isinstance(x.slice.value, int)]
        asserts = [x for x in ast.walk(f.node) if isinstance(x, ast.Assert)]
        if not subs and not asserts:
            continue
        n += 1
        ctx.saw(f)
        for a_ in asserts:
            ctx.ob(f, False, "no assert in query(): assert %s" % norm.canon(a_.test),
                   detail="an AssertionError (not a QueryParserError) escapes QueryParser.parse() for inputs that reach this shape",
                   loc=ctx.nodeloc(f, a_))
        fa = guards.Facts(f)
        for x in subs:
            node = None
            for cn in fa.g.nodes:
                for frag in cfgmod.node_exprs(cn):
                    if any(y is x for y in ast.walk(frag)):
                        node = cn
            facts = (fa.at(node) if node is not None else None) or frozenset()
            k = x.slice.value
            need = k + 1 if k >= 0 else -k
            ok = False
            for (p, t) in facts:
                if "self.nodes" not in t:
                    continue
                if p == "T" and t == "self.nodes" and need <= 1:
                    ok = True
                m = re.match(r"^\(len\(self\.nodes\) < (\d+)\)$", t)
                if m and p == "F" and int(m.group(1)) >= need:
                    ok = True
                m = re.match(r"^\((\d+) < len\(self\.nodes\)\)$", t)
                if m and p == "T" and int(m.group(1)) + 1 >= need:
                    ok = True
                m = re.match(r"^\((\d+) == len\(self\.nodes\)\)$|^\(len\(self\.nodes\) == (\d+)\)$", t)
                if m and p == "T" and int(m.group(1) or m.group(2)) >= need:
                    ok = True
            ctx.ob(f, ok, "self.nodes[%d] is read only after the group's size was tested" % k,
                   detail="facts here: %s -- IndexError for a group left with %d node(s)" % (sorted(facts), need - 1) if not ok else "",
                   loc=ctx.nodeloc(f, x))
    if n < 2:
        raise AnalysisError("only %d group query() methods index self.nodes" % n)
    # a None sub-query is never wrapped: Wrapper.query builds qclass(q) only when q is truthy
    wr = prog.method("qparser.syntax.Wrapper", "query", inherited=False)
    fa = guards.Facts(wr)
    for cn in fa.g.nodes:
        for frag in cfgmod.node_exprs(cn):
            for c in norm.calls_in(frag):
                if norm.canon(c.func) == "self.qclass" and c.args and isinstance(c.args[0], ast.Name):
                    facts = fa.at(cn) or frozenset()
                    v = c.args[0].id
                    ok = ("T", v) in facts or ("F", "(None is %s)" % v) in facts
                    ctx.ob(wr, ok, "self.qclass(%s) is built only for a sub-query that exists" % v, loc=ctx.nodeloc(wr, c))


@rule("C16", "R8", "K4", "the two bounds of a parsed range are analysed by the same code, each independently of the other",
      min_instances=1,
      clause="In RangeNode.query the start text and the end text each go through get_single_text(field, <bound>, "
             "tokenize=False, removestops=False) under a test on that bound alone: neither call is conditional on the other "
             "bound (an `elif` would leave the end of a two-sided range un-analysed, e.g. not lower-cased).")
def c16_r8(ctx):
    prog = ctx.prog
    f = prog.method("qparser.syntax.RangeNode", "query", inherited=False)
    ctx.saw(f)
    fa = guards.Facts(f)
    sites = {}
    for n in fa.g.nodes:
        a = n.ast
        if n.kind == "stmt" and isinstance(a, ast.Assign) and isinstance(a.value, ast.Call) and norm.call_name(a.value) == "get_single_text" \
                and len(a.value.args) >= 2 and isinstance(a.value.args[1], ast.Name) and isinstance(a.targets[0], ast.Name) \
                and a.targets[0].id == a.value.args[1].id:
            kw = sorted("%s=%s" % (k.arg, norm.canon(k.value)) for k in a.value.keywords)
            sites[a.targets[0].id] = (sorted(fa.at(n) or []), kw, norm.canon(a.value.args[0]))
    names = sorted(sites)
    ok = len(names) == 2
    detail = str(sites)
    if ok:
        x, y = names
        fx, kx, fldx = sites[x]
        fy, ky, fldy = sites[y]
        # same call shape, and each guarded by its own bound only
        ok = kx == ky and fldx == fldy and \
            not any(re.search(r"\b%s\b" % re.escape(y), t) for (_, t) in fx) and not any(re.search(r"\b%s\b" % re.escape(x), t) for (_, t) in fy) and \
            ("T", x) in fx and ("T", y) in fy
    ctx.ob(f, ok, "start and end are each analysed under a test on that bound alone, with the same arguments", detail=detail)


SCHEMA_PRIVATE = ("_dyn_fields", "_subfields")


def _schema_private_reads(tree):
    """attribute reads that reach into a Schema's private tables: <x>._dyn_fields, <x>._subfields, <...>schema._fields"""
    out = []
    for n in ast.walk(tree):
        if isinstance(n, ast.Attribute):
            if n.attr in SCHEMA_PRIVATE:
                out.append(n)
            elif n.attr == "_fields" and norm.canon(n.value).split(".")[-1].lstrip("_") in ("schema", "ixschema"):
                out.append(n)
    return out


@rule("C16", "R9", "K3", "field lookup goes through the Schema interface (which knows dynamic fields), never through its private tables",
      min_instances=1, also=("C17",),
      clause="Outside whoosh.fields nothing reads Schema._fields / _dyn_fields / _subfields: `name in schema` and `schema[name]` also "
             "resolve glob (dynamic) fields, the private dict of static fields does not -- a lookup through it makes the parser treat "
             "text in a dynamic field as an unknown field (not analysed, not parsed by its field type).")
def c16_r9(ctx):
    prog = ctx.prog
    # the detector must recognise the construct it exists for (expected count on the tree is zero)
    probe = ast.parse("def f(self, n):\n    return self.schema._fields.get(n) or parser.schema._dyn_fields\n")
    if len(_schema_private_reads(probe)) != 2:
        raise AnalysisError("C16-R9 detector does not match its own positive example")
    nmod = 0
    for m in prog.modules.values():
        if m.name == "whoosh.fields":
            continue
        nmod += 1
        hits = _schema_private_reads(m.tree)
        ctx.ob(m.name, not hits, "does not read a Schema's private field tables",
               detail="; ".join("%s at line %d" % (norm.canon(h), h.lineno) for h in hits[:4]), loc=m.relpath)
    if nmod < 100:
        raise AnalysisError("only %d modules scanned" % nmod)


_MUTATING = ("append", "extend", "add", "update", "insert", "pop", "remove", "clear", "setdefault", "discard", "sort", "popitem")


def _self_mutated(fnode):
    out = set()
    # a local that holds an attribute container (`bits = self.bits`, bound once): changing the local's items changes the attribute
    binds = {}
    for s in ast.walk(fnode):
        if isinstance(s, ast.Assign) and len(s.targets) == 1 and isinstance(s.targets[0], ast.Name):
            binds.setdefault(s.targets[0].id, []).append(s.value)
        elif isinstance(s, (ast.AugAssign, ast.For)) and isinstance(s.target, ast.Name):
            binds.setdefault(s.target.id, []).append(None)
    alias = dict((k, v[0].attr) for k, v in binds.items() if len(v) == 1 and isinstance(v[0], ast.Attribute)
                 and isinstance(v[0].value, ast.Name) and v[0].value.id == "self")
    for s in ast.walk(fnode):
        tg = s.targets if isinstance(s, ast.Assign) else ([s.target] if isinstance(s, ast.AugAssign) else [])
        for t in tg:
            for x in (t.elts if isinstance(t, (ast.Tuple, ast.List)) else [t]):
                if isinstance(x, ast.Attribute) and isinstance(x.value, ast.Name) and x.value.id == "self":
                    out.add(x.attr)
                if isinstance(x, ast.Subscript) and isinstance(x.value, ast.Attribute) and isinstance(x.value.value, ast.Name) \
                        and x.value.value.id == "self":
                    out.add(x.value.attr)
                if isinstance(x, ast.Subscript) and isinstance(x.value, ast.Name) and x.value.id in alias:
                    out.add(alias[x.value.id])
        if isinstance(s, ast.Call) and isinstance(s.func, ast.Attribute) and s.func.attr in _MUTATING and isinstance(s.func.value, ast.Attribute) \
                and isinstance(s.func.value.value, ast.Name) and s.func.value.value.id == "self":
            out.add(s.func.value.attr)
        if isinstance(s, ast.Call) and isinstance(s.func, ast.Attribute) and s.func.attr in _MUTATING and isinstance(s.func.value, ast.Name) \
                and s.func.value.id in alias:
            out.add(alias[s.func.value.id])
    return out


def _self_invalidated(fnode):
    """attributes reset to an empty value: self.C = None / {} / [] , self.C.clear()"""
    out = set()
    for s in ast.walk(fnode):
        if isinstance(s, ast.Assign):
            v = s.value
            empty = (isinstance(v, ast.Constant) and v.value is None) or (isinstance(v, (ast.List, ast.Tuple, ast.Set)) and not v.elts) or \
                (isinstance(v, ast.Dict) and not v.keys)
            if empty:
                for t in s.targets:
                    if isinstance(t, ast.Attribute) and isinstance(t.value, ast.Name) and t.value.id == "self":
                        out.add(t.attr)
        if isinstance(s, ast.Call) and isinstance(s.func, ast.Attribute) and s.func.attr == "clear" and isinstance(s.func.value, ast.Attribute) \
                and isinstance(s.func.value.value, ast.Name) and s.func.value.value.id == "self":
            out.add(s.func.value.attr)
    return out


def _lazy_fill_from_self(fnode, C):
    for st in ast.walk(fnode):
        if isinstance(st, ast.If) and norm.canon(st.test) in ("(self.%s is None)" % C, "(None is self.%s)" % C, "(not self.%s)" % C):
            for a in st.body:
                if isinstance(a, ast.Assign) and any(norm.canon(t) == "self." + C for t in a.targets) \
                        and any(isinstance(x, ast.Name) and x.id == "self" for x in ast.walk(a.value)):
                    return True
    return False


def _invalidation_gaps(methods):
    """methods: name -> FunctionDef (constructor excluded).  If two or more methods reset attribute C and all of them also mutate the
    attribute(s) D, the class treats C as derived from D; another method that mutates D without resetting C leaves C stale.
    -> [(C, sorted D, invalidators, offending method, what it mutates)]"""
    inv = dict((n, _self_invalidated(f)) for n, f in methods.items())
    mut = dict((n, _self_mutated(f)) for n, f in methods.items())
    out = []
    caches = set().union(*inv.values()) if inv else set()
    for C in sorted(caches):
        invs = sorted(m for m in inv if C in inv[m])
        if len(invs) < 2:
            continue
        D = set.intersection(*[mut[m] - {C} for m in invs])
        # evidence that C really is computed from D: some method fills C (stores a value / an item) and reads D while doing so
        fillers = []
        for n, f in methods.items():
            if n in invs:
                continue
            fills = False
            for s_ in ast.walk(f):
                if isinstance(s_, ast.Assign):
                    for t in s_.targets:
                        if isinstance(t, ast.Attribute) and isinstance(t.value, ast.Name) and t.value.id == "self" and t.attr == C:
                            fills = True
                        if isinstance(t, ast.Subscript) and isinstance(t.value, ast.Attribute) and isinstance(t.value.value, ast.Name) \
                                and t.value.value.id == "self" and t.value.attr == C:
                            fills = True
            if fills and not (mut[n] & D):      # a method that changes D itself and stores C is another invalidator, not the computation
                reads = set(x.attr for x in ast.walk(f) if isinstance(x, ast.Attribute) and isinstance(x.ctx, ast.Load)
                            and isinstance(x.value, ast.Name) and x.value.id == "self")
                if reads & D:
                    fillers.append(n)
                    D = D & reads
        if not D or not fillers:
            continue
        # a method also takes care of C when it stores C at all (clear() sets the count to 0), and a private step is covered when every
        # method of the class that calls it takes care of C (add() calls _resize() and then resets)
        handles = set(invs)
        for n, f in methods.items():
            for s_ in ast.walk(f):
                if isinstance(s_, (ast.Assign, ast.AugAssign)):
                    for t in (s_.targets if isinstance(s_, ast.Assign) else [s_.target]):
                        if isinstance(t, ast.Attribute) and isinstance(t.value, ast.Name) and t.value.id == "self" and t.attr == C:
                            handles.add(n)
        callers = {}
        for n, f in methods.items():
            for c_ in ast.walk(f):
                if isinstance(c_, ast.Call) and isinstance(c_.func, ast.Attribute) and isinstance(c_.func.value, ast.Name) \
                        and c_.func.value.id == "self" and c_.func.attr in methods and c_.func.attr != n:
                    callers.setdefault(c_.func.attr, set()).add(n)
        changed = True
        while changed:
            changed = False
            for n in methods:
                if n not in handles and callers.get(n) and all(c_ in handles for c_ in callers[n]):
                    handles.add(n)
                    changed = True
        for n in sorted(methods):
            if n not in handles and mut[n] & D:
                out.append((C, sorted(D), invs, n, sorted(mut[n] & D)))
    return out


@rule("C16", "R10", "K4", "every method that changes what a cache was computed from also resets the cache",
      min_instances=1, also=("C03", "C14"),
      clause="Belief inferred from the class itself: when two or more methods reset an attribute C (to None / empty / .clear()) and each of "
             "them also mutates the same attribute(s) D, C is a value derived from D; then every other method of the class that mutates D "
             "resets C too.  A parser that caches its prioritised taggers and clears the cache in add_plugin() and remove_plugin_class() but "
             "not in remove_plugin() keeps applying a removed plugin's syntax.")
def c16_r10(ctx):
    prog = ctx.prog
    probe = ast.parse(
        "class P:\n"
        "    def add(self, p):\n        self.plugins.append(p)\n        self._cache.clear()\n"
        "    def drop_class(self, c):\n        self.plugins = [p for p in self.plugins if not isinstance(p, c)]\n        self._cache.clear()\n"
        "    def drop(self, p):\n        self.plugins.remove(p)\n"
        "    def get(self, k):\n        if k not in self._cache:\n            self._cache[k] = [p for p in self.plugins if p.k == k]\n        return self._cache[k]\n")
    pm_ = dict((n.name, n) for n in probe.body[0].body)
    if [g[3] for g in _invalidation_gaps(pm_)] != ["drop"]:
        raise AnalysisError("C16-R10 detector does not match its own positive example")
    n = 0
    for cls in prog.classes.values():
        if cls.module.name.startswith(("whoosh.lang", "whoosh.support")):
            continue
        meths = dict((f.name, f.node) for f in cls.methods.values() if f.name != "__init__")
        if len(meths) < 2:
            continue
        n += 1
        for C, D, invs, name, what in _invalidation_gaps(meths):
            f = cls.methods[name]
            ctx.saw(f)
            ctx.ob(f, False, "%s() resets self.%s like the other methods that change %s" % (name, C, ", ".join("self." + d for d in D)),
                   detail="%s all change %s and reset self.%s; %s() changes %s and leaves self.%s as it was (stale)" % (
                       ", ".join(m + "()" for m in invs), ", ".join("self." + d for d in D), C, name, ", ".join("self." + w for w in what), C))
    ctx.ob("whole program", n > 200, "%d classes examined for derived attributes that one mutator forgets to reset" % n)
    if n < 200:
        raise AnalysisError("only %d classes examined" % n)


@rule("C16", "R11", "K2", "a group that is being built is indexed at its end only where it is known to be non-empty",
      min_instances=2,
      clause="In every function of whoosh.qparser, a subscript [0] / [-1] of a local that starts empty (group.empty_copy(), [], list()) and "
             "is filled as the function goes is dominated, on every incoming path, by a test that the local is non-empty (its truth "
             "value, len(x), len(x) > 0, not len(x) == 0): a leading operator token finds nothing before it, and the IndexError would "
             "escape QueryParser.parse().")
def c16_r11(ctx):
    prog = ctx.prog
    n = 0
    for f in prog.functions.values():
        if not f.module.name.startswith("whoosh.qparser"):
            continue
        an = norm.assigned_names(f.node)
        sites = []
        for x in ast.walk(f.node):
            if isinstance(x, ast.Subscript) and isinstance(x.ctx, ast.Load) and isinstance(x.value, ast.Name) \
                    and norm.canon(x.slice) in ("(-1)", "0", "-1"):
                vals = [v for v in an.get(x.value.id, []) if v is not None]
                grown = any((isinstance(v, ast.List) and not v.elts) or
                            (isinstance(v, ast.Call) and norm.call_name(v) in ("empty_copy", "list") and not v.args) for v in vals)
                if grown:
                    sites.append(x)
        if not sites:
            continue
        fa = guards.Facts(f)
        for x in sites:
            n += 1
            ctx.saw(f)
            node = fa.node_of(x)
            alts = fa.alternatives(node) if node is not None else None
            nm = x.value.id
            inline = guards.expr_facts(cfgmod.node_exprs(node)[0], x, frozenset(), fa.textfn) if node is not None and cfgmod.node_exprs(node) else None

            def nonempty(a_):
                a_ = set(a_) | set(inline or ())
                return any((p == "T" and t in (nm, "len(%s)" % nm, "(0 < len(%s))" % nm)) or
                           (p == "F" and t in ("(0 == len(%s))" % nm, "(len(%s) == 0)" % nm, "(len(%s) < 1)" % nm)) for (p, t) in a_)
            ok = bool(alts) and all(nonempty(a_) for a_ in alts)
            ctx.ob(f, ok, "%s is read only where `%s` is known to be non-empty" % (norm.canon(x), nm),
                   detail="nothing may have been added to `%s` yet: IndexError escapes the parser" % nm, loc=ctx.nodeloc(f, x))
    if n < 2:
        raise AnalysisError("only %d end-indexing sites found in the parser" % n)


def _minlen_analysis(f):
    """forward must-analysis of a lower bound on len(x) for local lists that are only ever bound to list displays and changed by
    append/pop/insert/extend: state = frozenset((name, bound)).  -> (cfg, state_in per node id, tracked names)"""
    an = norm.assigned_names(f.node)
    tracked = set()
    for name, vals in an.items():
        vals = [v for v in vals if v is not None]
        if vals and all(isinstance(v, ast.List) for v in vals) and len(vals) == len(an[name]):
            tracked.add(name)
    # a tracked list must not be rebound by loops/with/unpacking or passed where it could be emptied
    for x in ast.walk(f.node):
        if isinstance(x, (ast.For, ast.comprehension)):
            for t in ast.walk(x.target):
                if isinstance(t, ast.Name):
                    tracked.discard(t.id)
        if isinstance(x, ast.Call) and isinstance(x.func, ast.Attribute) and isinstance(x.func.value, ast.Name) \
                and x.func.value.id in tracked and x.func.attr in ("clear", "remove", "__delitem__"):
            tracked.discard(x.func.value.id)
        if isinstance(x, ast.Delete):
            for t in x.targets:
                for y in ast.walk(t):
                    if isinstance(y, ast.Name):
                        tracked.discard(y.id)
        if isinstance(x, (ast.Subscript,)) and isinstance(x.ctx, (ast.Store, ast.Del)) and isinstance(x.value, ast.Name) \
                and isinstance(x.slice, ast.Slice):
            tracked.discard(x.value.id)
    if not tracked:
        return None
    g = cfgmod.cfg_of(f, exc_edges=False)

    def get(state, nm):
        for k, v in state:
            if k == nm:
                return v
        return None

    def put(state, nm, v):
        return frozenset([(k, w) for k, w in state if k != nm] + ([(nm, v)] if v is not None else []))

    def transfer(node, state):
        if node.ast is None:
            return state
        for e in cfgmod.node_exprs(node):
            if isinstance(e, ast.Assign) and len(e.targets) == 1 and isinstance(e.targets[0], ast.Name) and e.targets[0].id in tracked \
                    and isinstance(e.value, ast.List):
                state = put(state, e.targets[0].id, len([x for x in e.value.elts if not isinstance(x, ast.Starred)]))
                continue
            for c in ast.walk(e):
                if isinstance(c, ast.Call) and isinstance(c.func, ast.Attribute) and isinstance(c.func.value, ast.Name) \
                        and c.func.value.id in tracked:
                    cur = get(state, c.func.value.id)
                    if cur is None:
                        continue
                    if c.func.attr in ("append", "insert"):
                        state = put(state, c.func.value.id, min(cur + 1, 8))
                    elif c.func.attr == "pop":
                        state = put(state, c.func.value.id, max(cur - 1, 0))
        return state

    def bound_from(test, truth):
        """(name, lower bound) a test outcome implies, or None"""
        t = test
        if isinstance(t, ast.Name) and t.id in tracked:
            return (t.id, 1) if truth else None
        if isinstance(t, ast.Call) and isinstance(t.func, ast.Name) and t.func.id == "len" and len(t.args) == 1 \
                and isinstance(t.args[0], ast.Name) and t.args[0].id in tracked:
            return (t.args[0].id, 1) if truth else None
        if isinstance(t, ast.Compare) and len(t.ops) == 1:
            l, r, op = t.left, t.comparators[0], t.ops[0]

            def lenof(x):
                return x.args[0].id if (isinstance(x, ast.Call) and isinstance(x.func, ast.Name) and x.func.id == "len" and len(x.args) == 1
                                        and isinstance(x.args[0], ast.Name) and x.args[0].id in tracked) else None

            def num(x):
                return x.value if isinstance(x, ast.Constant) and isinstance(x.value, int) and not isinstance(x.value, bool) else None
            flip = {ast.Lt: ast.Gt, ast.Gt: ast.Lt, ast.LtE: ast.GtE, ast.GtE: ast.LtE, ast.Eq: ast.Eq, ast.NotEq: ast.NotEq}
            if lenof(r) is not None and num(l) is not None:
                l, r, op = r, l, flip[type(op)]()
            nm, k = lenof(l), num(r)
            if nm is None or k is None:
                return None
            neg = {ast.Lt: ast.GtE, ast.GtE: ast.Lt, ast.Gt: ast.LtE, ast.LtE: ast.Gt, ast.Eq: ast.NotEq, ast.NotEq: ast.Eq}
            o = type(op) if truth else neg.get(type(op))
            if o is ast.Gt:
                return (nm, k + 1)
            if o is ast.GtE:
                return (nm, k)
            if o is ast.Eq:
                return (nm, k)
            if o is ast.NotEq and k == 0:
                return (nm, 1)
        return None

    def edge(src, label, dst, state):
        if src.kind == "test" and isinstance(label, tuple) and label[0] in ("T", "F"):
            b = bound_from(src.ast, label[0] == "T")
            if b is not None:
                cur = get(state, b[0])
                if cur is not None and b[1] > cur:
                    state = put(state, b[0], b[1])
        return state

    def meet(a, b):
        da, db = dict(a), dict(b)
        return frozenset((k, min(da[k], db[k])) for k in da if k in db)
    sin, _ = cfgmod.forward(g, frozenset(), transfer, edge_transfer=edge, meet=meet, include_exc=False)
    return g, sin, tracked


@rule("C16", "R12", "K2", "a stack the parser pushes and pops is indexed or popped only where it cannot be empty",
      min_instances=1,
      clause="For every local list of a whoosh.qparser function that is only ever bound to list displays and changed through "
             "append/insert/pop: a lower bound on its length is propagated along every path (display length, +1 per append, -1 per pop, "
             "raised by len()/truth tests on the taken branch, minimum at joins and around loops). x[-1], x[0] and x.pop() occur only "
             "where the bound is at least 1 -- otherwise some token sequence (an unmatched closing bracket) makes parse() raise IndexError.")
def c16_r12(ctx):
    prog = ctx.prog
    n = 0
    for f in prog.functions.values():
        if not f.module.name.startswith("whoosh.qparser"):
            continue
        r = _minlen_analysis(f)
        if r is None:
            continue
        g, sin, tracked = r
        for node in g.nodes:
            if node.ast is None or sin[node.id] is None:
                continue
            state = dict(sin[node.id])
            for e in cfgmod.node_exprs(node):
                # within one statement, what is evaluated first comes first: only the first use per name is judged
                judged = set()
                for x in ast.walk(e):
                    nm = None
                    what = None
                    if isinstance(x, ast.Subscript) and isinstance(x.ctx, ast.Load) and isinstance(x.value, ast.Name) \
                            and x.value.id in tracked and norm.canon(x.slice) in ("(-1)", "0", "-1"):
                        nm, what = x.value.id, norm.canon(x)
                    elif isinstance(x, ast.Call) and isinstance(x.func, ast.Attribute) and x.func.attr == "pop" and not x.args \
                            and isinstance(x.func.value, ast.Name) and x.func.value.id in tracked:
                        nm, what = x.func.value.id, norm.canon(x)
                    if nm is None or nm in judged or nm not in state:
                        continue
                    judged.add(nm)
                    n += 1
                    ctx.saw(f)
                    ctx.ob(f, state[nm] >= 1, "%s happens only where `%s` holds at least one element" % (what, nm),
                           detail="on some path `%s` may be empty here (length bound %d): IndexError escapes the parser" % (nm, state[nm]),
                           loc=ctx.nodeloc(f, x))
    if n < 1:
        raise AnalysisError("no stack sites found in the parser")


@rule("C16", "R13", "K2", "a field prefix reaches every node of the group it is attached to",
      min_instances=1,
      clause="GroupNode.set_fieldname() forwards the name to every sub-node unconditionally (the call in the loop over self.nodes is not "
             "under a test): whether a node takes a field name is that node's own decision (SyntaxNode.set_fieldname returns early for "
             "has_fieldname False, GroupNode overrides it to recurse), so a filter in the loop cuts nested groups off from `field:(...)`.")
def c16_r13(ctx):
    prog = ctx.prog
    f = prog.method("qparser.syntax.GroupNode", "set_fieldname", inherited=False)
    ctx.saw(f)
    ok = False
    detail = ""
    for lp in ast.walk(f.node):
        if isinstance(lp, ast.For) and norm.canon(lp.iter) == "self.nodes" and isinstance(lp.target, ast.Name):
            v = lp.target.id
            top = [st for st in lp.body if isinstance(st, ast.Expr) and isinstance(st.value, ast.Call)
                   and norm.canon(st.value.func) == "%s.set_fieldname" % v]
            ok = len(top) == 1
            detail = "loop body: %s" % [norm.stmt_text(s)[:60] for s in lp.body]
    ctx.ob(f, ok, "every sub-node is handed the field name (the decision to take it is the sub-node's)", detail=detail)


FLAT_FILTERS_OK = {
    "qparser.plugins.GroupPlugin.do_groups": "builds the nesting out of the flat bracket tokens; there are no sub-groups before it has run",
}


@rule("C16", "R14", "K9", "every plugin filter treats nested groups like the top-level group",
      min_instances=10,
      clause="Sibling agreement over the filter methods of the parser plugins (do_*): every one of them that walks the nodes of the group "
             "it is given reaches the nodes of nested groups too -- it calls itself (directly or through a helper method of the class) "
             "for GroupNode children. A filter that consumes its marker nodes only at the top level leaves markers inside parentheses; "
             "MarkerNode.query() then raises NotImplementedError out of QueryParser.parse().")
def c16_r14(ctx):
    prog = ctx.prog
    n = 0
    for K in sorted(prog.classes.values(), key=lambda k: k.qualname):
        if not K.module.name.startswith("whoosh.qparser"):
            continue
        for name, f in sorted(K.methods.items()):
            if not name.startswith("do_"):
                continue
            walks = any(isinstance(x, ast.For) for x in ast.walk(f.node))
            if not walks:
                continue
            n += 1
            ctx.saw(f)
            # methods of the class reachable through self-calls
            seen = set()
            work = [f]
            rec = False
            while work:
                g = work.pop()
                for c in norm.calls_in(g.node):
                    if isinstance(c.func, ast.Attribute) and isinstance(c.func.value, ast.Name) and c.func.value.id == "self":
                        if c.func.attr == name:
                            rec = True
                        h = prog.lookup(K, c.func.attr)
                        if h is not None and h.qualname not in seen and h is not f:
                            seen.add(h.qualname)
                            work.append(h)
            groups = any(isinstance(c.func, ast.Name) and c.func.id == "isinstance" and len(c.args) == 2 and "GroupNode" in norm.canon(c.args[1])
                         for g in [f] + [prog.functions[q] for q in seen if q in prog.functions] for c in norm.calls_in(g.node))
            ok = (rec and groups) or f.short in FLAT_FILTERS_OK
            ctx.ob(f, ok, "%s.%s() descends into nested groups" % (K.name, name),
                   detail=FLAT_FILTERS_OK.get(f.short, "") if ok else "the filter only looks at the nodes of the group it is given: what it "
                   "consumes (markers, its own node class) survives inside parentheses")
    if n < 10:
        raise AnalysisError("only %d plugin filters found" % n)


@rule("C16", "R15", "K7", "a pattern that comes from the query text is compiled inside a handler that turns re.error into QueryError",
      min_instances=1,
      clause="In whoosh.query every re.compile()/rcompile() call whose argument is not a constant sits in a try whose handler catches "
             "re.error (or Exception) and raises QueryError: the text of a regex/wildcard query is typed by the user (RegexPlugin hands "
             "it over verbatim) and is compiled only when the query is run, so an unterminated '[' would otherwise escape a search as "
             "re.error.")
def c16_r15(ctx):
    prog = ctx.prog
    n = 0
    for f in prog.functions.values():
        if not f.module.name.startswith("whoosh.query"):
            continue
        parents = None
        for c in norm.calls_in(f.node):
            t = norm.canon(c.func)
            if t not in ("re.compile", "rcompile", "compile") or not c.args:
                continue
            if t == "compile" and "re" not in f.module.imports:
                continue
            if prog.fold_str(f.module, c.args[0], f.cls) is not None:
                continue
            n += 1
            ctx.saw(f)
            if parents is None:
                parents = {}
                for p_ in ast.walk(f.node):
                    for ch in ast.iter_child_nodes(p_):
                        parents[id(ch)] = p_
            ok = False
            x = c
            while id(x) in parents:
                par = parents[id(x)]
                if isinstance(par, ast.Try) and any(x is b or any(x is y for y in ast.walk(b)) for b in par.body):
                    for h in par.handlers:
                        ht = norm.canon(h.type) if h.type is not None else "*"
                        catches = ht in ("*", "Exception", "BaseException") or "error" in ht
                        raises = any(isinstance(r, ast.Raise) and r.exc is not None and "QueryError" in norm.canon(r.exc) for r in ast.walk(h))
                        if catches and raises:
                            ok = True
                x = par
            ctx.ob(f, ok, "the pattern is compiled under a handler that raises QueryError",
                   detail="re.error from `%s` escapes the search" % norm.canon(c) if not ok else "", loc=ctx.nodeloc(f, c))
    if n < 1:
        raise AnalysisError("no run-time pattern compilation found in whoosh.query")


@rule("C16", "R16", "K2", "turning the user's text into a date is fenced by a catch-all that yields an error node",
      min_instances=1,
      clause="In DateParserPlugin's filter every call that converts node text into a date (the methods of the plugin that reach "
             "dateparser.date_from()/disambiguated()) sits in a try whose handler catches Exception (or everything) and produces "
             "errorize(...)/an ErrorNode -- the idiom QueryParser.term_query uses for the field hooks. datetime() refuses 'feb 30' with "
             "ValueError, incomplete range ends fail with AttributeError; neither is a DateParseError.")
def c16_r16(ctx):
    prog = ctx.prog
    K = prog.cls("qparser.dateparse.DateParserPlugin")
    f = K.methods.get("do_dates")
    if f is None:
        raise AnalysisError("DateParserPlugin.do_dates vanished")
    ctx.saw(f)
    # methods of the plugin that reach the date parser
    converters = set()
    for name, g in K.methods.items():
        if name == "do_dates":
            continue
        if any(norm.call_name(c) in ("date_from", "disambiguated") for c in norm.calls_in(g.node)):
            converters.add(name)
    parents = {}
    for p_ in ast.walk(f.node):
        for ch in ast.iter_child_nodes(p_):
            parents[id(ch)] = p_
    n = 0
    for c in norm.calls_in(f.node):
        if not (isinstance(c.func, ast.Attribute) and norm.canon(c.func.value) == "self" and c.func.attr in converters):
            continue
        n += 1
        ok = False
        x = c
        while id(x) in parents:
            par = parents[id(x)]
            if isinstance(par, ast.Try) and any(any(x is y for y in ast.walk(b)) for b in par.body):
                for h in par.handlers:
                    ht = norm.canon(h.type) if h.type is not None else "*"
                    if ht in CATCH_ALL and any(norm.call_name(cc) in ("errorize", "ErrorNode") for cc in norm.calls_in(h)):
                        ok = True
            x = par
        ctx.ob(f, ok, "self.%s(...) runs under a catch-all that yields an error node" % c.func.attr,
               detail="an impossible date typed by the user escapes QueryParser.parse() as ValueError/AttributeError" if not ok else "",
               loc=ctx.nodeloc(f, c))
    if n < 2:
        raise AnalysisError("only %d text-to-date conversions found in do_dates" % n)
