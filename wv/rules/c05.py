"""C05 -- limiting a search to the top N never changes which hits win or their scores.

C05 also runs C01-R1/R2 (alignment after quality skips) and C12-R1 (bounds).
"""

import ast

from ..report import rule
from .. import norm, cfg as cfgmod, guards, matchers as M, shapes as S
from ..model import AnalysisError
from .common import calls_of, find_calls, returns_of, is_abstract_body, bind_args
from .c11 import NOT_A_CURSOR
from .c12 import return_shapes, has_unknown, _children_in


def score_structure(prog, cls):
    """("sum"|"max"|"only"|"scale"|None, contributing children, scale factor)."""
    sf, sc = return_shapes(prog, cls, "score")
    if not sc:
        return None, [], None
    kinds = set()
    contrib = set()
    scale = None
    for _, t in sc:
        if t[0] == "scale":
            scale = t[1]
            t = t[2]
        if t[0] == "sum":
            kinds.add("sum")
        elif t[0] == "max":
            kinds.add("max")
        for ch in _children_in(t):
            contrib.add(ch)
    if "sum" in kinds:
        k = "sum"
    elif "max" in kinds:
        k = "max"
    elif contrib:
        k = "only"
    else:
        k = None
    return k, sorted(contrib), scale


@rule("C05", "R1", "K8", "quality thresholds handed to children never exceed what the child must contribute",
      min_instances=10, also=("C12",),
      clause="In every replace(minq)/skip_to_quality(minq): the threshold passed to child x is minq minus the "
             "max_quality() of every other child that adds to the score (Sum shapes), minq itself for Max/Only "
             "shapes, and minq / boost under a Scale(boost) score; a *block* quality of another child is not a "
             "valid subtrahend (it bounds only that child's current block, not the range being skipped).")
def c05_r1(ctx):
    prog = ctx.prog
    inst = M.instantiated_classes(prog)
    seen = set()
    for cls in M.matcher_classes(prog):
        if cls.short in NOT_A_CURSOR and cls.short != "matching.wrappers.WrappingMatcher":
            continue
        if cls.qualname not in inst and not any(s.qualname in inst for s in prog.subclasses(cls)):
            continue
        kind, contrib, scale = score_structure(prog, cls)
        if M.constant_false_sbq(prog, cls):
            continue  # never handed a non-zero threshold (C05-R5 guards the collector)
        for mname in ("replace", "skip_to_quality"):
            f = prog.lookup(cls, mname)
            if f is None or is_abstract_body(f) or len(f.params) < 2:
                continue
            # the threshold discipline belongs to the class whose score shape the method was written for
            k2, c2, s2 = score_structure(prog, f.cls)
            if (k2, c2, s2) != (kind, contrib, scale):
                key = (f.qualname, cls.qualname)
            else:
                key = (f.qualname, None)
            if key in seen:
                continue
            seen.add(key)
            minq = f.params[1]
            sym, ps = S.paths(f)
            sym.minq = {minq}
            al = sym.al
            sites = {}
            for conds, env, ret in ps:
                pass
            # evaluate every child call along every path (env at the call = env after preceding statements)
            g = cfgmod.cfg_of(f)
            results = {}

            def visit(node, env, conds, visited, _f=f):
                env_after = _step(sym, node, env)
                for frag in cfgmod.node_exprs(node):
                    for c in norm.calls_in(frag):
                        nm = norm.call_name(c)
                        if nm in ("replace", "skip_to_quality") and isinstance(c.func, ast.Attribute) and c.args:
                            ch = sym.child_of(c.func.value, env)
                            if ch:
                                t = sym.ev(c.args[0], env)
                                dead = frozenset(x for x in ("a", "b", "child")
                                                 if ("F", "self.%s.is_active()" % x) in conds)
                                results.setdefault((c.lineno, c.col_offset, ch, nm), set()).add((t, dead))
                env = env_after
                if node.kind == "return" or node is g.exit:
                    return
                for (succ, label) in node.succs:
                    if label == "exc":
                        continue
                    k = (node.id, succ.id)
                    if k in visited:
                        continue
                    c2 = conds
                    if isinstance(label, tuple):
                        e = label[1]
                        if isinstance(e, ast.Name):
                            for st in ast.walk(_f.node):
                                if isinstance(st, ast.Assign) and any(isinstance(t, ast.Name) and t.id == e.id for t in st.targets):
                                    e = st.value
                                    break
                        txt = norm.canon(e, al)
                        if isinstance(e, ast.Call) and norm.call_name(e) == "is_active" and isinstance(e.func, ast.Attribute):
                            chx = sym.child_of(e.func.value, env)
                            if chx:
                                txt = "self.%s.is_active()" % chx
                        c2 = conds + [(label[0], txt)]
                    visit(succ, env, c2, visited | {k})

            visit(g.entry, {}, [], frozenset())
            if not results:
                continue
            ctx.saw(f)
            construct = f.short if key[1] is None else "%s [self=%s]" % (f.short, cls.name)
            apply_shape = _is_apply_score(prog, cls)
            for (ln, col, ch, nm), terms in sorted(results.items()):
                for (t, dead) in sorted(terms, key=repr):
                    for alt in _alternatives(t):
                        live = [c for c in contrib if c not in dead or c == ch]
                        ok, why = _threshold_ok(alt, ch, kind, live, scale)
                        if not ok and "but the score is not scaled" in why and _boost_is_default(prog, cls):
                            ok, why = True, "self.boost is the constructor default 1.0 for this class"
                        if ok and apply_shape and alt[0] == "thr":
                            ctx.note("%s: score is %s(child score); the threshold for the child is not derivable by the "
                                     "shape algebra (no witness found; not armed)" % (construct, apply_shape))
                        ctx.ob(construct, ok, "threshold for %s.%s(...) is %s" % (ch, nm, S.show(alt)),
                               detail=why, loc="%s:%d" % (f.module.relpath, ln))


def _boost_is_default(prog, cls):
    """cls.__init__ initialises through WrappingMatcher.__init__(self, child) without a boost."""
    init = prog.lookup(cls, "__init__")
    if init is None or init.cls.short == "matching.wrappers.WrappingMatcher":
        return False
    for c in norm.calls_in(init.node):
        if norm.canon(c.func) in ("WrappingMatcher.__init__", "wrappers.WrappingMatcher.__init__", "matching.WrappingMatcher.__init__") \
                and len(c.args) == 2 and not c.keywords:
            sets_boost = any(isinstance(st, ast.Assign) and any(norm.canon(t) == "self.boost" for t in st.targets)
                             for st in ast.walk(init.node))
            return not sets_boost
    return False


def _is_apply_score(prog, cls):
    sf, sc = return_shapes(prog, cls, "score")
    for _, t in sc or []:
        if t[0] == "apply":
            return t[1]
    return None


def _step(sym, node, env):
    a = node.ast
    if node.kind == "stmt" and isinstance(a, ast.Assign):
        env = dict(env)
        v = sym.ev(a.value, env)
        for t in a.targets:
            if isinstance(t, ast.Name):
                env[t.id] = v
            elif isinstance(t, ast.Tuple) and isinstance(a.value, ast.Tuple) and len(t.elts) == len(a.value.elts):
                for tt, vv in zip(t.elts, a.value.elts):
                    if isinstance(tt, ast.Name):
                        env[tt.id] = sym.ev(vv, env)
    elif node.kind == "stmt" and isinstance(a, ast.AugAssign) and isinstance(a.target, ast.Name):
        env = dict(env)
        cur = env.get(a.target.id, ("unknown", a.target.id))
        v = sym.ev(a.value, env)
        env[a.target.id] = S.T_sum([cur, v]) if isinstance(a.op, ast.Add) else ("unknown", norm.stmt_text(a))
    return env


def _alternatives(t):
    if t[0] == "choice":
        return _alternatives(t[1]) + _alternatives(t[2])
    return [t]


def _threshold_ok(t, ch, kind, contrib, scale):
    if t in (("const", "0"), ("const", "0.0")):
        return True, ""
    if t[0] == "const" and t[1] in ("None",):
        return True, ""
    if t[0] != "thr":
        if t[0] == "unknown" and t[1] in ("",):
            return True, ""
        return False, "threshold expression is not of the form minq [- bounds] [/ boost]"
    minus, div = t[1], t[2]
    # scale
    if scale and kind in ("only", None, "sum", "max") and ch == "child":
        if div != scale:
            return False, "the score is Scale(%s, child): the child must reach minq / %s, not %s" % (scale, scale, S.show(t))
    elif div:
        return False, "threshold is divided by %s but the score is not scaled" % div
    others = [c for c in contrib if c != ch]
    if kind == "sum":
        have = set()
        for m in minus:
            if m[0] == "atom" and m[1] == "MQ":
                have.add(m[2])
            elif m[0] == "atom" and m[1] == "BQ":
                return False, ("subtracts block_quality(%s): that bounds only %s's current block, while the skip may pass "
                               "documents beyond it; max_quality(%s) is the valid bound" % (m[2], m[2], m[2]))
            else:
                return False, "subtracts %s, which is not a quality bound of a sibling" % S.show(m)
        extra = have - set(others)
        if ch in have:
            return False, "subtracts the child's own bound"
        missing = [o for o in others if o not in have]
        if ch not in contrib:
            # a child that does not add to the score gets no quality threshold at all
            return False, "%s does not contribute to the score; it must be replaced without a threshold" % ch
        if missing:
            return False, "does not subtract max_quality(%s): the child need only supply minq minus what %s can add" % (
                missing[0], missing[0])
        return True, ""
    # max / only / none: nothing may be subtracted... subtracting is merely conservative, but a non-contributing
    # child must not get a threshold
    if kind in ("only", "max") and ch not in contrib:
        return False, "%s does not contribute to the score; it must be replaced without a threshold" % ch
    for m in minus:
        if m[0] == "atom" and m[1] == "BQ":
            return False, "subtracts a block quality"
    return True, ""


@rule("C05", "R2", "K4", "quality comparisons never discard what could still beat the threshold",
      min_instances=10, also=("C12",),
      clause="Every comparison between a quality value and the threshold in replace()/skip_to_quality() has the "
             "form bound < minq or bound <= minq (the collector only replaces the heap minimum when score > "
             "minscore), or is the 'nothing to skip' test whose true branch returns immediately.")
def c05_r2(ctx):
    prog = ctx.prog
    for cls in M.matcher_classes(prog):
        for mname in ("replace", "skip_to_quality"):
            f = cls.methods.get(mname)
            if f is None or is_abstract_body(f) or len(f.params) < 2:
                continue
            minq = f.params[1]
            al = norm.aliases(f.node)
            for n in ast.walk(f.node):
                if not isinstance(n, ast.Compare) or len(n.ops) != 1:
                    continue
                if not isinstance(n.ops[0], (ast.Lt, ast.LtE, ast.Gt, ast.GtE)):
                    continue
                l, r = n.left, n.comparators[0]
                lt, rt = norm.canon(l, al), norm.canon(r, al)
                # which side carries the threshold?
                l_has = minq in norm.names_in(l)
                r_has = minq in norm.names_in(r)
                if l_has == r_has:
                    continue
                ctx.saw(f)
                op = n.ops[0]
                # normalise to  X < Y / X <= Y
                if isinstance(op, (ast.Gt, ast.GtE)):
                    l_has, r_has = r_has, l_has
                    lt, rt = rt, lt
                thr_on_greater_side = r_has
                ok = thr_on_greater_side
                why = ""
                if not ok:
                    # `if block_quality() > minq: return 0` -- nothing to skip
                    parent_if = _enclosing_if(f.node, n)
                    if parent_if is not None and parent_if.body and isinstance(parent_if.body[-1], ast.Return) and \
                            not any(isinstance(x, (ast.Assign, ast.AugAssign)) or (isinstance(x, ast.Expr) and any(
                                norm.call_name(c) in ("next", "skip_to", "skip_to_quality", "_next_block", "_skip_to_block") for c in norm.calls_in(x)))
                                for x in parent_if.body[:-1]):
                        ok = True
                    else:
                        why = "%s %s %s keeps/discards in the wrong direction" % (lt, "<" if isinstance(op, (ast.Lt, ast.Gt)) else "<=", rt)
                ctx.ob(f, ok, "comparison %s is of the form bound < threshold" % norm.canon(n, al), detail=why,
                       loc=ctx.nodeloc(f, n))


def _enclosing_if(funcnode, cmp):
    for n in ast.walk(funcnode):
        if isinstance(n, ast.If) and any(x is cmp for x in ast.walk(n.test)):
            return n
    return None


@rule("C05", "R3", "K4", "the top-N heap order equals the exhaustive result order",
      min_instances=3, also=("C14",),
      clause="TopCollector keeps (score, -docnum) in a min-heap, replaces the minimum only for a strictly greater "
             "score, and presents items sorted reverse with the doc number re-negated; UnlimitedCollector sorts by "
             "(-score, docnum): both mean score descending, docnum ascending.  minscore is refreshed from the heap "
             "minimum after every replacement.")
def c05_r3(ctx):
    prog = ctx.prog
    f = prog.method("collectors.TopCollector", "_collect", inherited=False)
    ctx.saw(f)
    pushes = [c for c in norm.calls_in(f.node) if norm.call_name(c) in ("heappush", "heapreplace")]
    items = [norm.deep_canon(c.args[1], f.node) for c in pushes if len(c.args) > 1]
    ctx.ob(f, len(items) == 2 and all(i == "(score, (0 - global_docnum))" for i in items),
           "heap items are (score, 0 - global_docnum)", detail=str(items))
    fa = guards.Facts(f)
    ok = False
    detail = ""
    for n in fa.g.nodes:
        for frag in cfgmod.node_exprs(n):
            for c in norm.calls_in(frag):
                if norm.call_name(c) == "heapreplace":
                    facts = fa.at(n) or frozenset()
                    detail = str(sorted(facts))
                    ok = ("T", "(items[0][0] < score)") in facts or ("T", "(self.items[0][0] < score)") in facts
    ctx.ob(f, ok, "the heap minimum is replaced only when score > items[0][0]", detail=detail)
    # minscore refreshed after the replacement
    body = norm.stmt_text(f.node)
    assigns = [st for st in ast.walk(f.node) if isinstance(st, ast.Assign) and norm.canon(st.targets[0]) == "self.minscore"]
    ok = any(norm.canon(a.value, norm.aliases(f.node)) in ("self.items[0][0]", "items[0][0]") for a in assigns)
    ctx.ob(f, ok, "minscore := items[0][0] after heapreplace")
    r = prog.method("collectors.TopCollector", "results", inherited=False)
    ctx.saw(r)
    sorts = [c for c in norm.calls_in(r.node) if norm.call_name(c) == "sort"]
    rev = sorts and any(k.arg == "reverse" and isinstance(k.value, ast.Constant) and k.value.value is True for k in sorts[0].keywords)
    reneg = any(isinstance(n, (ast.ListComp, ast.GeneratorExp)) and norm.canon(n.elt) == "(score, (0 - docnum))" for n in ast.walk(r.node))
    ctx.ob(r, bool(rev) and reneg, "results(): sort(reverse=True) then re-negate the document number")
    u = prog.method("collectors.UnlimitedCollector", "results", inherited=False)
    ctx.saw(u)
    sorts = [c for c in norm.calls_in(u.node) if norm.call_name(c) == "sort"]
    keyok = False
    for c in sorts:
        for k in c.keywords:
            if k.arg == "key" and isinstance(k.value, ast.Lambda):
                keyok = norm.canon(k.value.body) == "((0 - x[0]), x[1])"
    uc = prog.method("collectors.UnlimitedCollector", "_collect", inherited=False)
    app = [norm.canon(c.args[0]) for c in norm.calls_in(uc.node) if norm.call_name(c) == "append" and c.args]
    ctx.ob(u, keyok and app == ["(score, global_docnum)"], "unlimited: items (score, docnum) sorted by (0 - score, docnum)",
           detail="append %s" % app)


@rule("C05", "R5", "K2", "quality thresholds reach the matcher tree only when it can answer quality questions",
      min_instances=1,
      clause="In ScoredCollector.matches every replace(x)/skip_to_quality(x) with a possibly non-zero x is "
             "dominated by the _use_block_quality() test; after replace() the collector's matcher is rebound "
             "before the next read.")
def c05_r5(ctx):
    prog = ctx.prog
    f = prog.method("collectors.ScoredCollector", "matches", inherited=False)
    ctx.saw(f)
    al = norm.aliases(f.node)
    # usequality is (re)assigned only from self._use_block_quality()
    asg = norm.assigned_names(f.node)
    uqs = [n_ for n_, vals in asg.items() if any(v is not None and norm.canon(v) == "self._use_block_quality()" for v in vals)]
    uq = uqs[0] if len(uqs) == 1 else "usequality"
    uq_defs = [norm.canon(v) if v is not None else "<non-simple binding>" for v in asg.get(uq, [])]
    mvars = set(n_ for n_, vals in asg.items() if any(v is not None and norm.canon(v) == "self.matcher" for v in vals)) | {"self.matcher"}
    # ... and plain copies of such a local (a helper inlined back brings `m2 = matcher`)
    grew = True
    while grew:
        grew = False
        for n_, vals in asg.items():
            if n_ not in mvars and any(isinstance(v, ast.Name) and v.id in mvars for v in vals if v is not None):
                mvars.add(n_)
                grew = True
    ctx.ob(f, bool(uq_defs) and all(d == "self._use_block_quality()" for d in uq_defs),
           "usequality is always self._use_block_quality()", detail=str(uq_defs))
    fa = guards.Facts(f)
    n_sites = 0
    for n in fa.g.nodes:
        for frag in cfgmod.node_exprs(n):
            for c in norm.calls_in(frag):
                nm = norm.call_name(c)
                if nm not in ("replace", "skip_to_quality") or norm.canon(norm.receiver(c) or ast.Name(id="")) not in mvars:
                    continue
                n_sites += 1
                arg = c.args[0] if c.args else None
                facts = fa.at(n) or frozenset()
                guarded = ("T", uq) in facts
                ok = guarded
                how = "dominated by `usequality`" if guarded else ""
                if not ok and arg is None:
                    ok, how = True, "no threshold"
                if not ok and isinstance(arg, ast.Constant) and arg.value == 0:
                    ok, how = True, "literal 0"
                if not ok and isinstance(arg, ast.Name):
                    # every definition of the local is 0 or made under usequality
                    okdefs = True
                    for dn in fa.g.nodes:
                        a = dn.ast
                        if dn.kind == "stmt" and isinstance(a, ast.Assign) and any(isinstance(t, ast.Name) and t.id == arg.id for t in a.targets):
                            if isinstance(a.value, ast.Constant) and a.value.value == 0:
                                continue
                            if ("T", uq) in (fa.at(dn) or frozenset()):
                                continue
                            okdefs = False
                    ok, how = okdefs, "threshold local is 0 unless assigned under `usequality`"
                ctx.ob(f, ok, "%s(%s) receives a threshold only under block-quality support" % (nm, norm.canon(arg) if arg is not None else ""),
                       detail=how if ok else "unguarded threshold: composite replace() bodies call max_quality() on children that "
                                             "may not support it, and scorers that disclaim quality support get their bounds used",
                       loc=ctx.nodeloc(f, c))
    ctx.ob(f, n_sites >= 2, "replace and skip_to_quality call sites found", detail="%d" % n_sites)
    # self.matcher rebound with the replacement
    def from_replace(v):
        if any(norm.call_name(c) == "replace" for c in norm.calls_in(norm.inline_defs(v, f.node))) or \
                (isinstance(v, ast.Call) and norm.call_name(v) == "replace"):
            return True
        # self.matcher = m  where m was bound from ....replace(...) (a local with several bindings cannot be inlined)
        return isinstance(v, ast.Name) and any(
            isinstance(st2, ast.Assign) and any(isinstance(t2, ast.Name) and t2.id == v.id for t2 in st2.targets)
            and isinstance(st2.value, ast.Call) and norm.call_name(st2.value) == "replace" for st2 in ast.walk(f.node))
    rebound = any(isinstance(st, ast.Assign) and any(norm.canon(t) == "self.matcher" for t in st.targets) and from_replace(st.value)
                  for st in ast.walk(f.node))
    ctx.ob(f, rebound, "self.matcher is rebound to the result of replace()")


STALE_MUTATORS = ("append", "extend", "add", "update", "insert", "pop", "remove", "clear", "setdefault", "discard", "sort", "popitem",
                  "next", "skip_to", "skip_to_quality", "reset", "write", "close")


def _direct_self_stores(funcnode):
    s = set()
    for st in ast.walk(funcnode):
        tg = st.targets if isinstance(st, ast.Assign) else ([st.target] if isinstance(st, ast.AugAssign) else [])
        for t in tg:
            for x in (t.elts if isinstance(t, (ast.Tuple, ast.List)) else [t]):
                if isinstance(x, ast.Attribute) and isinstance(x.value, ast.Name) and x.value.id == "self":
                    s.add(x.attr)
    return s


@rule("C05", "R6", "K1", "a local alias of an attribute is not worked on after the attribute has been re-bound",
      min_instances=1, also=("C08", "C18", "C10", "C20"),
      clause="Within a method, after `x = self.A`, no path re-binds self.A (directly, or through a self-call that -- followed through the "
             "class hierarchy -- assigns self.A) and then goes on to mutate or advance the object through the now stale alias x (append/"
             "extend/add/update/... , item assignment, matcher next()/skip_to()/skip_to_quality()) without x having been re-bound: the "
             "work is done on an object the instance no longer refers to (a posting appended to a list already written out as a run, a "
             "loop advancing the old matcher tree while collect() scores with the replaced one, rows flushed from a buffer that was "
             "swapped).")
def c05_r6(ctx):
    prog = ctx.prog
    direct = {}
    for f in prog.functions.values():
        if f.cls is not None:
            direct[f.qualname] = _direct_self_stores(f.node)
    memo = {}

    def rebinds(cls, attr, name, seen=None):
        key = (cls.qualname, attr, name)
        if key in memo:
            return memo[key]
        seen = seen if seen is not None else set()
        if name in seen:
            return False
        seen.add(name)
        cands = []
        for k in prog.mro(cls):
            if not isinstance(k, str) and name in k.methods:
                cands.append(k.methods[name])
                break
        for k in prog.subclasses(cls, strict=True):
            if name in k.methods:
                cands.append(k.methods[name])
        res = False
        for g_ in cands:
            if attr in direct.get(g_.qualname, ()):
                res = True
                break
            for c in norm.calls_in(g_.node):
                if isinstance(c.func, ast.Attribute) and isinstance(c.func.value, ast.Name) and c.func.value.id == "self" \
                        and rebinds(cls, attr, c.func.attr, seen):
                    res = True
                    break
                # Base.m(self, ...): the explicitly named base implementation
                if isinstance(c.func, ast.Attribute) and isinstance(c.func.value, ast.Name) and c.args and isinstance(c.args[0], ast.Name) \
                        and c.args[0].id == "self":
                    base = [b for b in prog.mro(cls) if not isinstance(b, str) and b.name == c.func.value.id and c.func.attr in b.methods]
                    if base and attr in direct.get(base[0].methods[c.func.attr].qualname, ()):
                        res = True
                        break
            if res:
                break
        memo[key] = res
        return res
    n = 0
    for f in prog.functions.values():
        if f.cls is None or f.module.name.startswith(("whoosh.lang", "whoosh.support")):
            continue
        al = [(st.targets[0].id, st.value.attr, st) for st in ast.walk(f.node)
              if isinstance(st, ast.Assign) and len(st.targets) == 1 and isinstance(st.targets[0], ast.Name)
              and isinstance(st.value, ast.Attribute) and isinstance(st.value.value, ast.Name) and st.value.value.id == "self"]
        if not al:
            continue
        g = cfgmod.cfg_of(f)
        for x, attr, st in al:
            defn = [n_ for n_ in g.nodes if n_.ast is st]
            if not defn:
                continue
            n += 1

            def kills(n_, _x=x, _st=st):
                a = n_.ast
                if a is None or a is _st:
                    return False
                root = a.target if n_.kind == "for" else a
                if n_.kind in ("stmt", "for", "with_enter", "except_entry"):
                    for y in ast.walk(root):
                        if isinstance(y, ast.Name) and y.id == _x and isinstance(y.ctx, ast.Store):
                            return True
                return False

            def is_rebind(n_, _attr=attr, _st=st):
                a = n_.ast
                if a is None or a is _st or kills(n_):
                    return False
                if n_.kind == "stmt" and isinstance(a, (ast.Assign, ast.AugAssign)):
                    tg = a.targets if isinstance(a, ast.Assign) else [a.target]
                    for t in tg:
                        for y in (t.elts if isinstance(t, (ast.Tuple, ast.List)) else [t]):
                            if isinstance(y, ast.Attribute) and norm.canon(y) == "self." + _attr:
                                return True
                for frag in cfgmod.node_exprs(n_):
                    for c in norm.calls_in(frag):
                        if isinstance(c.func, ast.Attribute) and isinstance(c.func.value, ast.Name) and c.func.value.id == "self" \
                                and rebinds(f.cls, _attr, c.func.attr):
                            return True
                return False

            def mutates(n_, _x=x):
                for frag in cfgmod.node_exprs(n_):
                    for c in norm.calls_in(frag):
                        if isinstance(c.func, ast.Attribute) and c.func.attr in STALE_MUTATORS and isinstance(c.func.value, ast.Name) \
                                and c.func.value.id == _x:
                            return True
                    for s_ in ast.walk(frag):
                        if isinstance(s_, ast.Subscript) and isinstance(s_.ctx, (ast.Store, ast.Del)) and isinstance(s_.value, ast.Name) \
                                and s_.value.id == _x:
                            return True
                return False
            p1 = cfgmod.find_path(g, defn[0], is_rebind, avoid_pred=kills)
            bad = None
            if p1 is not None:
                p2 = cfgmod.find_path(g, p1[-1], mutates, avoid_pred=lambda n_: kills(n_))
                if p2 is not None:
                    bad = p1 + p2[1:]
            if bad is not None:
                ctx.saw(f)
                ctx.ob(f, False, "`%s` (an alias of self.%s) is not used to mutate/advance the object after self.%s was re-bound" % (x, attr, attr),
                       detail="alias taken at line %d, self.%s re-bound at line %s, `%s` worked on at line %s" % (
                           st.lineno, attr, getattr(p1[-1].ast, "lineno", "?"), x, getattr(bad[-1].ast, "lineno", "?")),
                       path=cfgmod.path_text(bad), loc=ctx.nodeloc(f, st))
    ctx.ob("whole program", n > 100, "%d local aliases of instance attributes followed through their methods" % n)
    if n < 100:
        raise AnalysisError("only %d attribute aliases found" % n)
