"""C09 -- scores are the documented composition of the weighting model's term scores."""

import ast

from ..report import rule
from .. import norm, cfg as cfgmod, guards, matchers as M
from ..model import AnalysisError
from .common import calls_of, find_calls, returns_of, is_abstract_body, bind_args

STRUCTURAL = set(M.MUTATORS) | {"copy", "replace", "_replacement", "children", "depth", "__repr__", "supports",
                                "supports_block_quality", "is_active", "all_ids", "all_items", "items_as"}


def _facts_for(f):
    al = norm.aliases(f.node)

    def textfn(e):
        return norm.canon(norm.inline_defs(e, f.node), al)

    def kill(node, fact):
        # a cursor move on X invalidates what is known about X
        for frag in cfgmod.node_exprs(node):
            for c in norm.calls_in(frag):
                if norm.call_name(c) in M.CURSOR_MOVES and isinstance(c.func, ast.Attribute):
                    r = norm.canon(c.func.value, al)
                    if (r + ".") in fact[1]:
                        return True
        return False

    return guards.Facts(f, al=al, kill=kill, textfn=textfn), al, textfn


@rule("C09", "R1", "K2", "a child's per-posting data is read only when that child is on the current document",
      min_instances=8, also=("C11",),
      clause="In union-kind matchers every read of x.score()/weight()/value()/spans() is dominated by tests "
             "showing x active and on the current id (other child inactive, x.id() < other.id(), or ids equal); "
             "in leader/follower kinds the follower is read only under follower.is_active() and equal ids.")
def c09_r1(ctx):
    prog = ctx.prog
    inst = M.instantiated_classes(prog)
    seen = set()
    for cls in M.matcher_classes(prog):
        rk = M.read_kind(prog, cls)
        if rk is None:
            continue
        kind, x1, x2 = rk
        # methods as resolved for this class, defined below the Matcher base
        names = set()
        for k in prog.mro(cls):
            if isinstance(k, str) or k.short == M.MATCHER_BASE:
                continue
            names |= set(k.methods)
        for name in sorted(names - STRUCTURAL):
            f = prog.lookup(cls, name)
            if f is None or f.qualname in seen or is_abstract_body(f):
                continue
            # the defining class decides which kind the method was written for
            if M.read_kind(prog, f.cls) != rk:
                continue
            seen.add(f.qualname)
            reads = []
            al0 = norm.aliases(f.node)
            for c in norm.calls_in(f.node):
                nm = norm.call_name(c)
                if not isinstance(c.func, ast.Attribute):
                    continue
                recv = norm.canon(c.func.value, al0)
                if recv not in ("self." + x1, "self." + x2):
                    continue
                if nm in M.POSTING_READS or nm == "id":
                    reads.append(c)
            if not reads:
                continue
            ctx.saw(f)
            fa, al, textfn = _facts_for(f)
            for c in reads:
                nm = norm.call_name(c)
                x = norm.canon(c.func.value, al)
                y = "self." + (x2 if x == "self." + x1 else x1)
                node = None
                for n in fa.g.nodes:
                    for frag in cfgmod.node_exprs(n):
                        if any(cc is c for cc in norm.calls_in(frag)):
                            node = n
                            frag_of = frag
                if node is None:
                    continue
                base = fa.at(node)
                if base is None:
                    continue  # unreachable code
                facts = guards.expr_facts(frag_of, c, base, textfn) or base
                T = lambda t: ("T", t) in facts
                F = lambda t: ("F", t) in facts
                x_act = T(x + ".is_active()")
                y_act = T(y + ".is_active()")
                y_inact = F(y + ".is_active()")
                lt = "(%s.id() < %s.id())" % (x, y)
                gt = "(%s.id() < %s.id())" % (y, x)
                le = "(%s.id() <= %s.id())" % (x, y)
                eq = "(%s.id() == %s.id())" % tuple(sorted([x, y]))
                ne = "(%s.id() != %s.id())" % tuple(sorted([x, y]))
                on_current = (T(lt) or T(eq) or F(ne) or (F(lt) and F(gt)) or T(le)
                              or ((F(eq) or T(ne)) and F(gt)))
                if kind == "union":
                    if nm == "id":
                        ok = x_act or y_inact
                        need = "x active (or the other child exhausted)"
                    else:
                        ok = y_inact or (x_act and on_current) or (x_act and y_act and on_current)
                        need = "other child exhausted, or x active and x.id() <= other.id()"
                else:  # leader / follower
                    follower = "self." + x2
                    if x != follower:
                        continue
                    if nm == "id":
                        ok = x_act
                        need = "follower active"
                    else:
                        ok = x_act and (T(eq) or F(ne))
                        need = "follower active and on the leader's document"
                ctx.ob(f, ok, "%s.%s() read is guarded (%s)" % (x, nm, need),
                       detail="facts: %s" % sorted(t for (p, t) in facts if "id()" in t or "is_active" in t)[:8] if not ok else "",
                       loc=ctx.nodeloc(f, c))


# ------------------------------------------------------------------- R3
from ..traces import Tracer, fmt

BOOST_EXEMPT = {
    "query.wrappers.Not": "documented: 'Boost is meaningless for excluded documents'",
    "query.compound.SplitOr": "unfinished experiment: its matcher() references matching.ArrayMatcher, which does not exist",
}


@rule("C09", "R3", "K11", "a query's boost reaches the matcher it returns on every path",
      min_instances=8,
      clause="For every query class with a boost parameter, each path of matcher() (with _matcher/_tree_matcher "
             "inlined per concrete class) that returns a non-null matcher either passes self.boost on (WrappingMatcher, "
             "boost=/all_weights= argument, child query built with boost=self.boost) or has tested self.boost == 1.")
def c09_r3(ctx):
    prog = ctx.prog
    qbase = prog.cls("query.qcore.Query")

    def classify(func, call, res, concrete):
        al_ = norm.aliases(func.node)
        for a in list(call.args) + [k.value for k in call.keywords]:
            t = norm.canon(a, al_)
            if t == "self.boost" or t.endswith("* self.boost)") or t.startswith("(self.boost *"):
                return "apply_boost"
        return None

    def follow(func, call, res, concrete):
        nm = norm.call_name(call)
        if isinstance(call.func, ast.Attribute) and norm.canon(call.func.value) == "self" and nm and nm.startswith("_") \
                and not nm.startswith("__") and res.targets and res.kind in ("exact", "cha"):
            return [(res.targets[0], concrete)]
        # explicit base-class call:  PatternQuery.matcher(self, searcher, context)
        if isinstance(call.func, ast.Attribute) and nm == "matcher" and call.args and \
                isinstance(call.args[0], ast.Name) and call.args[0].id == "self" and res.kind == "exact" and res.targets:
            return [(res.targets[0], concrete)]
        return []

    def edge_event(func, node, label):
        if node.kind != "test":
            return None
        t = norm.canon(node.ast, norm.aliases(func.node))
        if t in ("(1.0 != self.boost)", "(1 != self.boost)", "(self.boost != 1.0)", "(self.boost != 1)"):
            return "boost_one" if label[0] == "F" else None
        if t in ("(1.0 == self.boost)", "(1 == self.boost)", "(self.boost == 1.0)", "(self.boost == 1)"):
            return "boost_one" if label[0] == "T" else None
        return None

    def stmt_event(func, node):
        if node.kind == "return":
            v = node.ast.value
            t = norm.canon(v) if v is not None else "None"
            if "NullMatcher" in t:
                return "ret:null"
            if t.endswith("NullQuery") or t.endswith("NullQuery()"):
                return "nullq"
            if func.name == "matcher" and func.qualname == cur_entry[0]:
                return "ret"
        return None

    cur_entry = [None]
    tr = Tracer(prog, calls_of(prog), classify, follow, stmt_event=stmt_event, edge_event=edge_event,
                max_depth=3, track_raises=False)
    seen = set()
    for k in BOOST_EXEMPT:
        prog.cls(k)
    for cls in prog.subclasses(qbase, strict=True):
        init = prog.lookup(cls, "__init__")
        if init is None or "boost" not in init.params or cls.short in BOOST_EXEMPT:
            continue
        f = prog.lookup(cls, "matcher")
        if f is None or is_abstract_body(f):
            continue
        ctx.saw(f)
        cur_entry[0] = f.qualname
        tr._memo.clear()
        res = tr.traces(f, cls)
        bad = None
        for t in sorted(res["normal"]):
            if not t or t[-1] != "ret":
                continue
            if "apply_boost" in t or "boost_one" in t or "ret:null" in t or "nullq" in t:
                continue
            bad = t
            break
        # attribute the obligation to the function that returns on the offending path
        construct = "%s [self=%s]" % (f.short, cls.name)
        key = (f.qualname, bad)
        if bad is not None and (f.qualname, "bad") in seen:
            # same inherited method already reported for another subclass
            ctx.ob(f.short, False, "every non-null return applies self.boost or has tested it to be 1",
                   detail="e.g. self=%s: %s" % (cls.name, fmt(bad)), loc=f.loc)
            continue
        if bad is not None:
            seen.add((f.qualname, "bad"))
        ctx.ob(f.short if bad is not None else construct, bad is None,
               "every non-null return applies self.boost or has tested it to be 1",
               detail="e.g. self=%s: path %s returns a matcher that ignores the query's boost" % (cls.name, fmt(bad)) if bad else "",
               loc=f.loc)


# ------------------------------------------------------------------- R4
GLOBAL_STATS = ("idf", "avg_field_length", "field_length", "doc_count_all", "doc_count", "frequency",
                "doc_frequency", "weight")
SEGMENT_STATS = ("doc_field_length",)


@rule("C09", "R4", "K11", "collection statistics come from the top-level searcher, per-document lengths from the segment",
      min_instances=6,
      clause="In whoosh.scoring every read of idf / avg_field_length / field_length / doc_count(_all) / "
             "(doc_)frequency is made on searcher.get_parent(); doc_field_length is read from the segment searcher "
             "the scorer was created for.")
def c09_r4(ctx):
    prog = ctx.prog
    mod = prog.module("scoring")
    n = 0
    for f in prog.functions.values():
        if f.module is not mod:
            continue
        for c in norm.calls_in(f.node, include_nested_defs=True):
            nm = norm.call_name(c)
            if not isinstance(c.func, ast.Attribute):
                continue
            recv = norm.deep_canon(c.func.value, f.node)
            if nm in GLOBAL_STATS and ("searcher" in recv or recv == "parent"):
                n += 1
                ctx.saw(f)
                ctx.ob(f, recv == "searcher.get_parent()", "%s(...) is read from the top-level searcher" % nm,
                       detail="receiver: %s -- a per-segment searcher makes scores depend on segment layout" % recv
                       if recv != "searcher.get_parent()" else "", loc=ctx.nodeloc(f, c))
            elif nm in SEGMENT_STATS and "searcher" in recv:
                n += 1
                ctx.ob(f, recv in ("searcher", "self.searcher"), "%s(...) is read from the segment searcher" % nm,
                       detail="receiver: %s" % recv, loc=ctx.nodeloc(f, c))
    if n < 6:
        raise AnalysisError("only %d statistic reads found in scoring.py" % n)
    # everything scoring.py calls on a searcher exists on Searcher (scorers are built per term at search time)
    from ..model import self_attr_assignments
    scls = prog.cls("searching.Searcher")
    sattrs = self_attr_assignments(prog, scls)
    # reader methods are copied onto the Searcher in __init__ (setattr loop over a literal tuple of names)
    copied = set()
    init = prog.lookup(scls, "__init__")
    for nd in ast.walk(init.node):
        if isinstance(nd, ast.For) and isinstance(nd.iter, (ast.Tuple, ast.List)) and any(norm.call_name(c) == "setattr" for c in norm.calls_in(nd)):
            copied |= set(e.value for e in nd.iter.elts if isinstance(e, ast.Constant))
    for f in prog.functions.values():
        if f.module is not mod:
            continue
        for c in norm.calls_in(f.node, include_nested_defs=True):
            if not isinstance(c.func, ast.Attribute):
                continue
            recv = norm.deep_canon(c.func.value, f.node)
            if recv not in ("searcher", "searcher.get_parent()", "self.searcher"):
                continue
            nm = c.func.attr
            ok = prog.lookup(scls, nm) is not None or nm in sattrs or nm in copied
            ctx.ob(f, ok, "Searcher.%s exists" % nm, detail="AttributeError when the scorer is created" if not ok else "", loc=ctx.nodeloc(f, c))
    # Searcher.idf/avg_field_length delegate to its own reader (which for the parent is the whole index)
    gp = prog.method("searching.Searcher", "get_parent", inherited=False)
    rets = [norm.canon(r.value) for r in returns_of(gp) if r.value is not None]
    ctx.ob(gp, set(rets) <= {"self.parent()", "self", "self._parent", "self.parent"} and "self" in rets,
           "get_parent() returns the parent searcher, or self for a top-level searcher", detail=str(rets))


# ------------------------------------------------------------------- R2
from .. import shapes as S
from .c12 import return_shapes

# query class -> (matcher class it builds, documented score shapes)  [docs/source/api/query.rst + class docstrings]
DOCUMENTED_SHAPES = [
    ("query.compound.And", "matching.binary.IntersectionMatcher", {"Sum{S(a), S(b)}"},
     "sum over clauses (all match)"),
    ("query.compound.DefaultOr", "matching.binary.UnionMatcher", {"S(a)", "S(b)", "Sum{S(a), S(b)}"},
     "sum over the clauses that match the document"),
    ("query.compound.DisjunctionMax", "matching.binary.DisjunctionMaxMatcher", {"S(a)", "S(b)", "Max{S(a), S(b)}"},
     "maximum over the clauses that match the document"),
    ("query.compound.Require", "matching.wrappers.RequireMatcher", {"S(a)"}, "first operand only"),
    ("query.compound.AndNot", "matching.binary.AndNotMatcher", {"S(a)"}, "first operand only"),
    ("query.compound.AndMaybe", "matching.binary.AndMaybeMatcher", {"S(a)", "Sum{S(a), S(b)}"},
     "first operand, plus the second when it matches the document"),
    ("query.wrappers.ConstantScoreQuery", "matching.wrappers.ConstantScoreWrapperMatcher", {"Const(self._score)"},
     "a constant"),
    (None, "matching.wrappers.WrappingMatcher", {"Scale(self.boost, S(child))"}, "child score times the boost"),
]


@rule("C09", "R2", "K8", "each query kind builds the matcher whose score shape is the documented composition",
      min_instances=8,
      clause="And/Or sum the matching clauses, DisjunctionMax takes their maximum, Require/AndNot score the first "
             "operand only, AndMaybe adds the second when present, ConstantScore is constant, boosts scale: the "
             "symbolic score shapes of the matcher classes equal this table and each query class references its matcher class.")
def c09_r2(ctx):
    prog = ctx.prog
    for qname, mname, want, doc in DOCUMENTED_SHAPES:
        mcls = prog.cls(mname)
        f, sc = return_shapes(prog, mcls, "score")
        got = set(S.show(t) for _, t in (sc or []))
        ctx.ob(mcls, got == want, "score() shape is %s" % doc,
               detail="extracted %s, documented %s" % (sorted(got), sorted(want)) if got != want else "", loc=f.loc if f else mcls.loc)
        if qname:
            qcls = prog.cls(qname)
            refs = set()
            for meth in ("matcher", "_matcher"):
                g = prog.lookup(qcls, meth)
                if g is None:
                    continue
                for n in ast.walk(g.node):
                    if isinstance(n, (ast.Name, ast.Attribute)):
                        r = prog.resolve_in_func(g, n)
                        if r is not None and r[0] == "class":
                            refs.add(r[1].qualname)
            # class attributes such as  matcherclass = ...
            for k in prog.mro(qcls):
                if isinstance(k, str):
                    continue
                for v in k.attrs.values():
                    if isinstance(v, (ast.Name, ast.Attribute)):
                        r = prog.resolve_expr(k.module, v, k)
                        if r is not None and r[0] == "class":
                            refs.add(r[1].qualname)
            ctx.ob(qcls, mcls.qualname in refs, "%s builds %s" % (qcls.name, mcls.name),
                   detail="matcher classes referenced: %s" % sorted(x.split(".")[-1] for x in refs if "atcher" in x), loc=qcls.loc)


@rule("C09", "R5", "K3", "a derived context / copy never shares its attribute dictionary with the original",
      min_instances=1, also=("C11", "C15"),
      clause="No object's __dict__ is bound to another object's __dict__ (ctx.__dict__ = self.__dict__): SearchContext.set(), "
             "which every compound query calls to derive the context of its sub-queries (weighting=None for filters, "
             "needs_current...), must leave the caller's context untouched; the derived object is a copy (copy.copy / "
             "dict(self.__dict__) / a fresh constructor call).")
def c09_r5(ctx):
    prog = ctx.prog
    probe = ast.parse("def f(self):\n    c = object.__new__(type(self))\n    c.__dict__ = self.__dict__\n    return c\n")

    def aliasing(tree):
        out = []
        for st in ast.walk(tree):
            if isinstance(st, ast.Assign) and isinstance(st.value, ast.Attribute) and st.value.attr == "__dict__":
                for t in st.targets:
                    if isinstance(t, ast.Attribute) and t.attr == "__dict__":
                        out.append(st)
        return out
    if len(aliasing(probe)) != 1:
        raise AnalysisError("C09-R5 detector does not match its own positive example")
    n = 0
    for m in prog.modules.values():
        n += 1
        hits = aliasing(m.tree)
        ctx.ob(m.name, not hits, "no object takes over another object's __dict__",
               detail="; ".join("line %d: %s" % (h.lineno, norm.stmt_text(h)) for h in hits[:3]), loc=m.relpath)
    st = prog.method("searching.SearchContext", "set", inherited=False)
    ctx.saw(st)
    al = norm.aliases(st.node)
    copies = [c for c in norm.calls_in(st.node) if norm.canon(c.func) in ("copy.copy", "copy", "self.__class__", "SearchContext", "copy.deepcopy")]
    stores_self = [s_ for s_ in ast.walk(st.node) if isinstance(s_, (ast.Assign, ast.AugAssign)) and
                   any(norm.canon(t, al).startswith("self.") for t in (s_.targets if isinstance(s_, ast.Assign) else [s_.target]))]
    upd_self = [c for c in norm.calls_in(st.node) if norm.call_name(c) in ("update", "setdefault", "__setattr__") and
                norm.canon(norm.receiver(c), al).startswith("self")]
    ctx.ob(st, bool(copies) and not stores_self and not upd_self, "SearchContext.set() builds a copy and writes only to it",
           detail="copies: %s; writes to self: %s" % ([norm.canon(c) for c in copies], [norm.stmt_text(s_) for s_ in stores_self] + [norm.canon(c) for c in upd_self]))
    if n < 100:
        raise AnalysisError("only %d modules scanned" % n)


# methods that change nothing and hand back a modified copy / derived object: calling one and dropping the result does nothing
COPY_ON_WRITE = {
    "set": ("searching.SearchContext",),            # derived search context
    "with_boost": ("query.qcore.Query",),
    "normalize": ("query.qcore.Query",),
    "replace": ("query.qcore.Query", "matching.mcore.Matcher"),
    "accept": ("query.qcore.Query",),
    "simplify": ("query.qcore.Query",),
    "copy": ("query.qcore.Query", "matching.mcore.Matcher"),
}
COW_RECEIVER_HINTS = {"set": ("context", "ctx")}


@rule("C09", "R6", "K9", "the result of a copy-on-write call is used",
      min_instances=1, also=("C15", "C14", "C05"),
      clause="SearchContext.set(), Query.with_boost()/normalize()/replace()/accept()/simplify()/copy() and Matcher.replace()/copy() "
             "return a new object and leave the receiver untouched; a call of one of them as a bare statement (result dropped) is a "
             "setting that silently never takes effect (a weighting model, needs_current flag or simplified matcher that is never used).")
def c09_r6(ctx):
    prog = ctx.prog
    C = calls_of(prog)
    probe = ast.parse("def f(self, context):\n    context.set(weighting=None)\n    return context\n")

    def dropped(tree):
        return [st for st in ast.walk(tree) if isinstance(st, ast.Expr) and isinstance(st.value, ast.Call)
                and isinstance(st.value.func, ast.Attribute) and st.value.func.attr in COPY_ON_WRITE]
    if len(dropped(probe)) != 1:
        raise AnalysisError("C09-R6 detector does not match its own positive example")
    n = 0
    for f in prog.functions.values():
        if f.module.name.startswith(("whoosh.lang", "whoosh.support", "whoosh.filedb.gae")):
            continue
        n += 1
        for st in dropped(f.node):
            c = st.value
            nm = c.func.attr
            # is the receiver one of the copy-on-write kinds?  typed resolution first, receiver naming as a fallback for `set`
            kinds = COPY_ON_WRITE[nm]
            r = C.resolve(f, c)
            owner = [t.cls.short for t in r.targets if t.cls is not None] if r.targets else []
            roots = [prog.cls(k) for k in kinds if prog.has_cls(k)]
            typed = any(t.cls is not None and any(prog.is_subclass(t.cls, root) for root in roots) for t in r.targets) if r.targets else False
            hinted = norm.canon(c.func.value).split(".")[-1] in COW_RECEIVER_HINTS.get(nm, ())
            if not (typed or hinted):
                continue
            ctx.saw(f)
            ctx.ob(f, False, "the result of %s is used" % norm.canon(c)[:70],
                   detail="%s() returns a new object and does not modify its receiver: this statement has no effect" % nm, loc=ctx.nodeloc(f, st))
    ctx.ob("whole program", n > 2000, "%d functions scanned for dropped results of copy-on-write calls" % n)


@rule("C09", "R7", "K2", "every posting a document adds carries the document/field boost",
      min_instances=1,
      clause="In SegmentWriter.add_document the weight handed to the posting pool is, on every path to the add, the field's weight "
             "multiplied by the boost computed by _field_boost(): the multiplication is not under a condition (scorable, stored, ...) "
             "the add itself is not under -- every weighting model falls back to the stored weight for fields without lengths.")
def c09_r7(ctx):
    prog = ctx.prog
    f = prog.method("writing.SegmentWriter", "add_document", inherited=False)
    ctx.saw(f)
    g = cfgmod.cfg_of(f, exc_edges=False)
    dom = g.dominators()
    # the local(s) that hold the boost
    boosts = set()
    for st in ast.walk(f.node):
        if isinstance(st, ast.Assign) and isinstance(st.value, ast.Call) and norm.call_name(st.value) == "_field_boost":
            boosts.update(t.id for t in st.targets if isinstance(t, ast.Name))
    if not boosts:
        raise AnalysisError("add_document no longer keeps the result of _field_boost() in a local")
    al = norm.aliases(f.node)
    adds = []
    for nd in g.nodes:
        if nd.ast is None:
            continue
        for e in cfgmod.node_exprs(nd):
            for c in norm.calls_in(e):
                t = norm.canon(c.func, al)
                if t in ("self.pool.add", "add_post") and c.args and isinstance(c.args[0], ast.Tuple) and len(c.args[0].elts) == 5:
                    adds.append((nd, c))
    # the add of the field's own postings: its weight element is a variable (the spelling add uses the constant 1)
    main = [(nd, c) for nd, c in adds if not isinstance(c.args[0].elts[3], ast.Constant)]
    if not main:
        raise AnalysisError("the posting-pool add of add_document was not found")
    for nd, c in main:
        w = c.args[0].elts[3]
        ok = bool(norm.names_in(w) & boosts)
        if not ok and isinstance(w, ast.Name):
            for m in g.nodes:
                a = m.ast
                if isinstance(a, ast.AugAssign) and isinstance(a.op, ast.Mult) and isinstance(a.target, ast.Name) and a.target.id == w.id \
                        and norm.names_in(a.value) & boosts and m.id in dom.get(nd.id, ()):
                    ok = True
                if isinstance(a, ast.Assign) and any(isinstance(t, ast.Name) and t.id == w.id for t in a.targets) \
                        and isinstance(a.value, ast.BinOp) and isinstance(a.value.op, ast.Mult) and norm.names_in(a.value) & boosts \
                        and w.id in norm.names_in(a.value) and m.id in dom.get(nd.id, ()):
                    ok = True
        ctx.ob(f, ok, "the weight added to the pool has been multiplied by the field boost on every path",
               detail="weight element `%s`; boost local(s) %s" % (norm.canon(w), sorted(boosts)), loc=ctx.nodeloc(f, c))


@rule("C09", "R8", "K4", "collection statistics are taken over one population",
      min_instances=2,
      clause="Searcher.avg_field_length divides the total field length by the cached doc_count_all() (self._doccount), and "
             "WeightingModel.idf takes doc_count_all(): total field length and document frequencies include deleted-but-unmerged "
             "documents, so the document count they are normalised by must include them too.")
def c09_r8(ctx):
    prog = ctx.prog
    S_ = prog.cls("searching.Searcher")
    init = S_.methods["__init__"]
    af = S_.methods["avg_field_length"]
    ctx.saw(af)
    # self._doccount is bound from doc_count_all() in the constructor
    src = [norm.canon(st.value) for st in ast.walk(init.node) if isinstance(st, ast.Assign) and any(norm.canon(t) == "self._doccount" for t in st.targets)]
    ctx.ob(init, bool(src) and all(s.endswith(".doc_count_all()") for s in src), "self._doccount caches doc_count_all()", detail=str(src))
    divs = [n for n in ast.walk(af.node) if isinstance(n, ast.BinOp) and isinstance(n.op, (ast.Div, ast.FloorDiv))]
    ok = False
    if len(divs) == 1:
        left = norm.deep_canon(divs[0].left, af.node)
        right_e = norm.inline_defs(divs[0].right, af.node)
        right = norm.canon(right_e)
        ok = "field_length(" in left and \
            bool((norm.names_in(right_e) | set(x.attr for x in ast.walk(right_e) if isinstance(x, ast.Attribute))) & {"_doccount", "doc_count_all"}) \
            and "doc_count()" not in right
    ctx.ob(af, bool(ok), "average field length = total field length / doc_count_all", detail=str([norm.canon(d) for d in divs]))
    idf = prog.method("scoring.WeightingModel", "idf", inherited=False)
    ctx.saw(idf)
    t = norm.stmt_text(idf.node)
    ctx.ob(idf, "doc_count_all()" in t and ".doc_count()" not in t, "idf uses doc_count_all()")
