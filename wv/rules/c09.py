"""C09 -- scores are the documented composition of the weighting model's term scores."""

import ast

from ..report import rule
from .. import norm, cfg as cfgmod, guards, matchers as M
from ..model import AnalysisError
from .common import calls_of, find_calls, returns_of, is_abstract_body, bind_args

STRUCTURAL = set(M.MUTATORS) | {"copy", "replace", "_replacement", "children", "depth", "__repr__", "supports",
                                "supports_block_quality", "is_active", "all_ids", "all_items", "items_as"}


def _facts_for(f):
    al = norm.aliases(f.node)

    def textfn(e):
        return norm.canon(norm.inline_defs(e, f.node), al)

    def kill(node, fact):
        # a cursor move on X invalidates what is known about X
        for frag in cfgmod.node_exprs(node):
            for c in norm.calls_in(frag):
                if norm.call_name(c) in M.CURSOR_MOVES and isinstance(c.func, ast.Attribute):
                    r = norm.canon(c.func.value, al)
                    if (r + ".") in fact[1]:
                        return True
        return False

    return guards.Facts(f, al=al, kill=kill, textfn=textfn), al, textfn


@rule("C09", "R1", "K2", "a child's per-posting data is read only when that child is on the current document",
      min_instances=8, also=("C11",),
      clause="In union-kind matchers every read of x.score()/weight()/value()/spans() is dominated by tests "
             "showing x active and on the current id (other child inactive, x.id() < other.id(), or ids equal); "
             "in leader/follower kinds the follower is read only under follower.is_active() and equal ids.")
def c09_r1(ctx):
    prog = ctx.prog
    inst = M.instantiated_classes(prog)
    seen = set()
    for cls in M.matcher_classes(prog):
        rk = M.read_kind(prog, cls)
        if rk is None:
            continue
        kind, x1, x2 = rk
        # methods as resolved for this class, defined below the Matcher base
        names = set()
        for k in prog.mro(cls):
            if isinstance(k, str) or k.short == M.MATCHER_BASE:
                continue
            names |= set(k.methods)
        for name in sorted(names - STRUCTURAL):
            f = prog.lookup(cls, name)
            if f is None or f.qualname in seen or is_abstract_body(f):
                continue
            # the defining class decides which kind the method was written for
            if M.read_kind(prog, f.cls) != rk:
                continue
            seen.add(f.qualname)
            reads = []
            al0 = norm.aliases(f.node)
            for c in norm.calls_in(f.node):
                nm = norm.call_name(c)
                if not isinstance(c.func, ast.Attribute):
                    continue
                recv = norm.canon(c.func.value, al0)
                if recv not in ("self." + x1, "self." + x2):
                    continue
                if nm in M.POSTING_READS or nm == "id":
                    reads.append(c)
            if not reads:
                continue
            ctx.saw(f)
            fa, al, textfn = _facts_for(f)
            for c in reads:
                nm = norm.call_name(c)
                x = norm.canon(c.func.value, al)
                y = "self." + (x2 if x == "self." + x1 else x1)
                node = None
                for n in fa.g.nodes:
                    for frag in cfgmod.node_exprs(n):
                        if any(cc is c for cc in norm.calls_in(frag)):
                            node = n
                            frag_of = frag
                if node is None:
                    continue
                base = fa.at(node)
                if base is None:
                    continue  # unreachable code
                facts = guards.expr_facts(frag_of, c, base, textfn) or base
                T = lambda t: ("T", t) in facts
                F = lambda t: ("F", t) in facts
                x_act = T(x + ".is_active()")
                y_act = T(y + ".is_active()")
                y_inact = F(y + ".is_active()")
                lt = "(%s.id() < %s.id())" % (x, y)
                gt = "(%s.id() < %s.id())" % (y, x)
                le = "(%s.id() <= %s.id())" % (x, y)
                eq = "(%s.id() == %s.id())" % tuple(sorted([x, y]))
                ne = "(%s.id() != %s.id())" % tuple(sorted([x, y]))
                on_current = (T(lt) or T(eq) or F(ne) or (F(lt) and F(gt)) or T(le)
                              or ((F(eq) or T(ne)) and F(gt)))
                if kind == "union":
                    if nm == "id":
                        ok = x_act or y_inact
                        need = "x active (or the other child exhausted)"
                    else:
                        ok = y_inact or (x_act and on_current) or (x_act and y_act and on_current)
                        need = "other child exhausted, or x active and x.id() <= other.id()"
                else:  # leader / follower
                    follower = "self." + x2
                    if x != follower:
                        continue
                    if nm == "id":
                        ok = x_act
                        need = "follower active"
                    else:
                        ok = x_act and (T(eq) or F(ne))
                        need = "follower active and on the leader's document"
                ctx.ob(f, ok, "%s.%s() read is guarded (%s)" % (x, nm, need),
                       detail="facts: %s" % sorted(t for (p, t) in facts if "id()" in t or "is_active" in t)[:8] if not ok else "",
                       loc=ctx.nodeloc(f, c))
