"""C17 -- index- and query-time analysis agree: documents are findable by their own words.

C17 also runs C10-R3 (formats request every token attribute they read).
"""

import ast

from ..report import rule
from .. import pm, norm, cfg as cfgmod, guards
from ..model import AnalysisError
from ..typestate import TypeState
from .common import bound_arg, calls_of, find_calls, returns_of, is_abstract_body, bind_args

# call sites that choose the analysis mode with a literal (confirmed by reading)
MODE_SITES = {
    "writing.SegmentWriter.add_document": {"index"},
    "qparser.common.get_single_text": {"query"},
    "qparser.default.QueryParser.term_query": {"query"},
    "qparser.plugins.PhrasePlugin.PhraseNode.query": {"query"},
    "fields.NGRAM.parse_query": {"query"},
    "highlight.Highlighter.highlight_hit": {"index"},
    "fields.FieldType.index": {"index"},
}


@rule("C17", "R1", "K5", "every site that picks an analysis mode picks the documented one",
      min_instances=6,
      clause="Indexing, vectors and highlight re-tokenisation analyse with mode='index'; the parser's term, phrase and "
             "range text and NGRAM.parse_query analyse with mode='query'; no other site passes a literal mode; the "
             "analyzer used is the field's own.")
def c17_r1(ctx):
    prog = ctx.prog
    seen = {}
    for f in prog.functions.values():
        if f.module.name.startswith(("whoosh.lang", "whoosh.support", "whoosh.analysis")):
            continue
        for c in norm.calls_in(f.node, include_nested_defs=True):
            # the value bound to the callee's `mode`, by keyword or (resolved callee) by position
            mv = None
            for k in c.keywords:
                if k.arg == "mode":
                    mv = k.value
            if mv is None and c.args:
                try:
                    mv = bound_arg(prog, f, c, "mode")
                except Exception:
                    mv = None
            if isinstance(mv, ast.Constant) and mv.value in ("index", "query"):
                seen.setdefault(f.short, set()).add(mv.value)
                ctx.saw(f)
                want = MODE_SITES.get(f.short)
                ctx.ob(f, want is not None and mv.value in want, "mode=%r at a reviewed site" % mv.value,
                       detail="expected %s" % (sorted(want) if want else "no literal mode here (site not in the reviewed table)"),
                       loc=ctx.nodeloc(f, c))
        # kwargs["mode"] = "index"
        for st in ast.walk(f.node):
            if isinstance(st, ast.Assign) and isinstance(st.targets[0], ast.Subscript) and \
                    isinstance(st.targets[0].slice, ast.Constant) and st.targets[0].slice.value == "mode" and \
                    isinstance(st.value, ast.Constant):
                seen.setdefault(f.short, set()).add(st.value.value)
                want = MODE_SITES.get(f.short)
                ctx.ob(f, want is not None and st.value.value in want, "default mode %r at a reviewed site" % st.value.value,
                       loc=ctx.nodeloc(f, st))
    for site, want in MODE_SITES.items():
        if site not in seen:
            raise AnalysisError("reviewed mode site %s no longer passes a literal mode; re-confirm the table" % site)
    # per call: every analysis of user query text in the parser says mode="query" (or forwards a `mode` it was given):
    # tokenize()/process_text() default to an empty / index-time mode, under which n-gram analyzers emit every gram size
    # and MultiFilter picks its default branch
    nq = 0
    for f in prog.functions.values():
        if not f.module.name.startswith("whoosh.qparser"):
            continue
        for c in norm.calls_in(f.node, include_nested_defs=True):
            if norm.call_name(c) not in ("tokenize", "process_text") or not isinstance(c.func, ast.Attribute):
                continue
            nq += 1
            ctx.saw(f)
            modes = [k for k in c.keywords if k.arg == "mode"]
            okm = any(isinstance(k.value, ast.Constant) and k.value.value == "query" for k in modes) or \
                any(isinstance(k.value, ast.Name) and k.value.id == "mode" for k in modes) or \
                (norm.call_name(c) == "process_text" and len(c.args) >= 2)
            ctx.ob(f, okm, "%s(...) on query text passes mode=\"query\"" % norm.canon(c.func),
                   detail="without it the field's analyzer runs in its default mode: query text is analysed differently from the single-word path",
                   loc=ctx.nodeloc(f, c))
    if nq < 4:
        raise AnalysisError("only %d analysis calls found in the query parser" % nq)
    # the analyzer is the field's own
    ad = prog.method("writing.SegmentWriter", "add_document", inherited=False)
    AA = pm.Alpha(ad)
    wv = [c for c in norm.calls_in(ad.node) if norm.call_name(c) == "word_values" and len(c.args) >= 2]
    an = [norm.deep_canon(c.args[1], ad.node) for c in wv]
    ctx.ob(ad, len(wv) == 1 and AA.eq(norm.inline_defs(wv[0].args[1], ad.node), "self.schema[fieldname].analyzer") and
           AA.eq(norm.inline_defs(norm.receiver(wv[0]), ad.node), "self.schema[fieldname].vector"),
           "vectors are analysed with the field's own analyzer", detail=str(an))
    fi = prog.method("fields.FieldType", "index", inherited=False)
    wv = [c for c in norm.calls_in(fi.node) if norm.deep_canon(c.func, fi.node) == "self.format.word_values" and len(c.args) >= 2]
    an = [norm.deep_canon(c.args[1], fi.node) for c in wv]
    ctx.ob(fi, an == ["self.analyzer"], "FieldType.index analyses with self.analyzer", detail=str(an))
    tk = prog.method("fields.FieldType", "tokenize", inherited=False)
    rets = [norm.canon(r.value, norm.aliases(tk.node)) for r in returns_of(tk) if r.value is not None]
    ctx.ob(tk, any(r.startswith("self.analyzer(") for r in rets), "FieldType.tokenize calls self.analyzer", detail=str(rets))
    pt = prog.method("fields.FieldType", "process_text", inherited=False)
    ok = any(norm.call_name(c) == "tokenize" and any(k.arg == "mode" and norm.canon(k.value) == "mode" for k in c.keywords)
             for c in norm.calls_in(pt.node))
    ctx.ob(pt, ok, "process_text forwards its mode to tokenize")


@rule("C17", "R3", "K2", "tokenizers fill in positions and character offsets whenever they are asked to",
      min_instances=4,
      clause="In every Tokenizer.__call__ that takes positions/chars: each yielded token has had t.pos assigned since "
             "the previous yield when `positions` is true, and both t.startchar and t.endchar when `chars` is true; the "
             "analysis mode is forwarded into the Token.")
def c17_r3(ctx):
    prog = ctx.prog
    base = prog.cls("analysis.tokenizers.Tokenizer")
    n = 0
    for cls in prog.subclasses(base, strict=True):
        f = cls.methods.get("__call__")
        if f is None or is_abstract_body(f):
            continue
        params = f.params
        if "positions" not in params and "chars" not in params:
            continue
        n += 1
        ctx.saw(f)
        for attr, flag in (("pos", "positions"), ("startchar", "chars"), ("endchar", "chars")):
            if flag not in params:
                continue

            def stmt_event(func, node, _attr=attr):
                a = node.ast
                evs = []
                if node.kind == "stmt" and isinstance(a, (ast.Assign, ast.AugAssign)):
                    tg = a.targets if isinstance(a, ast.Assign) else [a.target]
                    for x in tg:
                        if isinstance(x, ast.Attribute) and x.attr == _attr and isinstance(x.value, ast.Name):
                            evs.append("set")
                if node.kind == "stmt" and isinstance(a, ast.Expr) and isinstance(a.value, (ast.Yield, ast.YieldFrom)):
                    evs.append("yield")
                return evs or None

            def edge_event(func, node, label, _flag=flag):
                if node.kind == "test" and norm.canon(node.ast) == _flag and label[0] == "F":
                    return "notasked"
                return None

            def delta(state, ev):
                if state == "BAD":
                    return state
                if ev in ("set", "notasked"):
                    return "S"
                if ev == "yield":
                    return "BAD" if state == "U" else ("S" if state == "N" else "U")
                return state

            # "notasked" holds for the whole call: once seen, every later yield is fine -> state N (sticky)
            def delta2(state, ev):
                if state in ("BAD", "N"):
                    return state
                if ev == "notasked":
                    return "N"
                if ev == "set":
                    return "S"
                if ev == "yield":
                    return "BAD" if state == "U" else "U"
                return state

            ts = TypeState(prog, calls_of(prog), delta2, lambda *a: None, stmt_event=stmt_event, edge_event=edge_event)
            ts.all_states = ("U", "S", "N")
            exits = ts.run(f, cls, "U")
            bad = exits.get("BAD")
            ctx.ob(f, bad is None, "t.%s is assigned before every yield when `%s` is requested" % (attr, flag),
                   path=cfgmod.path_text(bad) if bad else None)
        toks = [c for c in norm.calls_in(f.node) if norm.call_name(c) == "Token"]
        def mode_forwarded(c):
            m_ = bound_arg(prog, f, c, "mode")
            return (m_ is not None and norm.canon(m_) == "mode") or any(k.arg is None and "mode" not in params for k in c.keywords)
        ok = bool(toks) and all(mode_forwarded(c) for c in toks)
        ctx.ob(f, ok, "the analysis mode is forwarded into the Token")
    if n < 4:
        raise AnalysisError("only %d tokenizers analysed" % n)


def _is_clamped_size(expr_text):
    forms = ("min(inlen, self.max)", "min(self.max, inlen)", "min(len(value), self.max)", "min(self.max, len(value))",
             "(self.max if (self.max < inlen) else inlen)", "(inlen if (inlen < self.max) else self.max)",
             "(self.max if (self.max <= inlen) else inlen)", "(inlen if (inlen <= self.max) else self.max)")
    return expr_text in forms


@rule("C17", "R4", "K5", "query-time n-grams are a subset of the index-time n-grams of the same text",
      min_instances=2,
      clause="NgramTokenizer/NgramFilter are the mode-sensitive components: the index branch emits every size in "
             "[min, max] that fits the text, the query branch emits one size that is clamped to the text length "
             "(so a text shorter than max still yields the grams it was indexed under) and never below min.")
def c17_r4(ctx):
    prog = ctx.prog
    f = prog.method("analysis.ngrams.NgramTokenizer", "__call__", inherited=False)
    ctx.saw(f)
    # locate the query branch
    qif = [st for st in ast.walk(f.node) if isinstance(st, ast.If) and norm.canon(st.test) in ("('query' == mode)", "(mode == 'query')")]
    ctx.ob(f, len(qif) == 1, "has one `mode == 'query'` branch")
    if len(qif) != 1:
        return
    qb = qif[0]
    # the gram size of the query branch: the one local assigned at the top of the branch
    sizes = [st for st in qb.body if isinstance(st, ast.Assign) and isinstance(st.targets[0], ast.Name)]
    txt = [norm.canon(norm.inline_defs(s_.value, f.node)) for s_ in sizes]
    ctx.ob(f, len(txt) == 1 and _is_clamped_size(txt[0].replace("len(value)", "inlen")),
           "query-mode gram size is self.max clamped to the text length",
           detail="size = %s" % txt)
    # index branch: sizes self.min .. self.max
    rest = qb.orelse
    if not rest:
        # `if mode == "query": ...; return` followed by the index branch
        for blk in ast.walk(f.node):
            b_ = getattr(blk, "body", None)
            if isinstance(b_, list) and qb in b_:
                rest = b_[b_.index(qb) + 1:]
    # the inner loop (nested in the loop over start offsets) enumerates the sizes
    rng = [norm.canon(n.iter) for s_ in rest for outer in ast.walk(s_) if isinstance(outer, ast.For)
           for n in outer.body if isinstance(n, ast.For)]
    ctx.ob(f, rng in (["xrange(self.min, (1 + self.max))"], ["range(self.min, (1 + self.max))"]),
           "index-mode emits every size from self.min to self.max", detail=str(rng))
    nf = prog.method("analysis.ngrams.NgramFilter", "__call__", inherited=False)
    ctx.saw(nf)
    src = norm.stmt_text(nf.node)
    ctx.ob(nf, "mode" in src and ("min(" in src), "NgramFilter distinguishes query mode and clamps the gram size to the token length")
    # mode readers: only the n-gram components and MultiFilter branch on t.mode / mode
    readers = set()
    for g in prog.functions.values():
        if not g.module.name.startswith("whoosh.analysis"):
            continue
        for n in ast.walk(g.node):
            if isinstance(n, ast.Compare) and any(isinstance(x, ast.Constant) and x.value in ("query", "index") for x in ast.walk(n)):
                readers.add(g.short.rsplit(".", 1)[0])
            if isinstance(n, ast.Subscript) and "filters" in norm.canon(n.value) and "mode" in norm.canon(n.slice):
                readers.add(g.short.rsplit(".", 1)[0])
    allowed = {"analysis.ngrams.NgramTokenizer", "analysis.ngrams.NgramFilter", "analysis.filters.MultiFilter"}
    ctx.ob("whoosh.analysis", readers <= allowed, "only the reviewed components behave differently per mode",
           detail="mode-sensitive: %s" % sorted(readers), loc="src/whoosh/analysis")


MUTABLE_CALLS = ("dict", "list", "set", "defaultdict", "array")


@rule("C17", "R5", "K2", "per-document containers are not aliased (no dict.fromkeys / list-multiplication with a mutable value)",
      min_instances=1,
      clause="In the highlighting, analysis and formats code no mapping or list is initialised by sharing one mutable "
             "object between its entries (dict.fromkeys(keys, {}) / [[]] * n): per-hit character ranges and per-term "
             "lists must be distinct objects.")
def c17_r5(ctx):
    prog = ctx.prog
    n = 0
    for f in prog.functions.values():
        mod = f.module.name
        if not (mod in ("whoosh.highlight", "whoosh.formats", "whoosh.sorting", "whoosh.collectors", "whoosh.searching")
                or mod.startswith("whoosh.analysis")):
            continue
        n += 1

        def mutable(e):
            return isinstance(e, (ast.Dict, ast.List, ast.Set)) or (
                isinstance(e, ast.Call) and norm.call_name(e) in MUTABLE_CALLS)
        for c in norm.calls_in(f.node, include_nested_defs=True):
            if norm.call_name(c) == "fromkeys" and len(c.args) == 2 and mutable(c.args[1]):
                ctx.ob(f, False, norm.canon(c), detail="every key shares one %s object" % type(c.args[1]).__name__, loc=ctx.nodeloc(f, c))
        for x in ast.walk(f.node):
            if isinstance(x, ast.BinOp) and isinstance(x.op, ast.Mult) and isinstance(x.left, ast.List) and \
                    any(mutable(e) for e in x.left.elts):
                ctx.ob(f, False, norm.canon(x), detail="every slot shares one mutable object", loc=ctx.nodeloc(f, x))
    ctx.ob("highlight/analysis/formats", n > 100, "functions scanned for aliased containers", detail="%d functions" % n, loc="src/whoosh")
    # positive control
    sample = ast.parse("def f(ids):\n    return dict.fromkeys(ids, {})\n").body[0]
    hit = [c for c in norm.calls_in(sample) if norm.call_name(c) == "fromkeys" and isinstance(c.args[1], ast.Dict)]
    if not hit:
        raise AnalysisError("C17-R5 positive control failed")


def _must_assigned_attrs(prog, cls, f, depth=0, seen=None):
    """self attributes assigned on EVERY non-raising path of method f (following unconditional self.m() calls one level)."""
    seen = seen or set()
    if f.qualname in seen or depth > 2:
        return frozenset()
    seen.add(f.qualname)
    g = cfgmod.cfg_of(f)

    def transfer(node, state):
        out = set(state)
        a = node.ast
        if node.kind == "stmt" and isinstance(a, (ast.Assign, ast.AugAssign)):
            for t in (a.targets if isinstance(a, ast.Assign) else [a.target]):
                for y in ast.walk(t):
                    if isinstance(y, ast.Attribute) and isinstance(y.ctx, ast.Store) and norm.canon(y.value) == "self":
                        out.add(y.attr)
        for frag in cfgmod.node_exprs(node):
            for c in norm.calls_in(frag):
                if isinstance(c.func, ast.Attribute) and norm.canon(c.func.value) == "self":
                    m = prog.lookup(cls, c.func.attr)
                    if m is not None:
                        out |= _must_assigned_attrs(prog, cls, m, depth + 1, seen)
        return frozenset(out)
    sin, sout = cfgmod.forward(g, frozenset(), transfer, include_exc=False)
    return sin[g.exit.id] or frozenset()


@rule("C17", "R6", "K6", "a pickled analysis component keeps its whole configuration",
      min_instances=2,
      clause="For every class in whoosh.analysis / whoosh.fields that defines __getstate__: every attribute its constructor "
             "sets from its parameters is either part of the pickled state or is rebuilt UNCONDITIONALLY by __setstate__ "
             "(directly or through a method it always calls); the schema -- analyzers included -- is pickled into the TOC, so "
             "a dropped setting (e.g. the stemmer language) silently changes query-time analysis after the index is reopened.")
def c17_r6(ctx):
    prog = ctx.prog
    n = 0
    for cls in prog.classes.values():
        if not (cls.module.name.startswith("whoosh.analysis") or cls.module.name == "whoosh.fields"):
            continue
        gs = cls.methods.get("__getstate__")
        if gs is None:
            continue
        n += 1
        ctx.saw(gs)
        init = prog.lookup(cls, "__init__")
        ss = prog.lookup(cls, "__setstate__")
        configured = set()
        if init is not None:
            for st in ast.walk(init.node):
                if isinstance(st, ast.Assign):
                    for t in st.targets:
                        if isinstance(t, ast.Attribute) and norm.canon(t.value) == "self":
                            configured.add(t.attr)
        # what __getstate__ keeps
        keeps_all_but = None
        kept = None
        rets = [r.value for r in ast.walk(gs.node) if isinstance(r, ast.Return) and r.value is not None]
        txt = norm.stmt_text(gs.node)
        if len(rets) == 1:
            v = norm.inline_defs(rets[0], gs.node)
            if isinstance(v, ast.Dict) and all(isinstance(k, ast.Constant) for k in v.keys):
                kept = set(k.value for k in v.keys)
            elif "self.__dict__" in norm.canon(v) or "self.__dict__" in txt:
                excl = set()
                for x in ast.walk(gs.node):
                    if isinstance(x, ast.Compare) and len(x.ops) == 1 and isinstance(x.ops[0], (ast.NotEq, ast.NotIn)):
                        for c_ in ast.walk(x):
                            if isinstance(c_, ast.Constant) and isinstance(c_.value, str):
                                excl.add(c_.value)
                    if isinstance(x, ast.Delete):
                        for t in x.targets:
                            if isinstance(t, ast.Subscript) and isinstance(t.slice, ast.Constant):
                                excl.add(t.slice.value)
                    if isinstance(x, ast.Call) and norm.call_name(x) == "pop" and x.args and isinstance(x.args[0], ast.Constant):
                        excl.add(x.args[0].value)
                keeps_all_but = excl
        rebuilt = _must_assigned_attrs(prog, cls, ss) if ss is not None else frozenset()
        if kept is not None:
            missing = sorted(a for a in configured if a not in kept and a not in rebuilt)
        elif keeps_all_but is not None:
            missing = sorted(a for a in keeps_all_but if a in configured and a not in rebuilt) + \
                sorted(a for a in keeps_all_but if a not in configured and a not in rebuilt and
                       a in _must_assigned_attrs(prog, cls, init) if init is not None)
        else:
            missing = ["<__getstate__ form not recognised>"]
        ctx.ob(cls, not missing, "every configured attribute is pickled or rebuilt unconditionally on unpickling",
               detail="lost on pickling: %s (pickled: %s; rebuilt by __setstate__ on every path: %s)" % (
                   missing, sorted(kept) if kept is not None else "all but %s" % sorted(keeps_all_but or []), sorted(rebuilt)) if missing else "",
               loc=gs.loc)
    if n < 2:
        raise AnalysisError("only %d __getstate__ implementations found" % n)


@rule("C17", "R7", "K4", "highlighting only marks terms of the field being highlighted",
      min_instances=1,
      clause="In whoosh/highlight.py every matched_terms() enumeration is filtered by `term[0] == fieldname` (the terms "
             "are (fieldname, text) pairs of ALL fields of the query) and every query_terms() call passes "
             "fieldname=<the highlighted field>: both ways of obtaining the words agree on the field.")
def c17_r7(ctx):
    prog = ctx.prog
    n = 0
    for f in prog.functions.values():
        if f.module.name != "whoosh.highlight":
            continue
        if "fieldname" not in f.params:
            continue
        for c in norm.calls_in(f.node):
            nm = norm.call_name(c)
            if nm == "query_terms":
                n += 1
                ctx.saw(f)
                ok = any(k.arg == "fieldname" and norm.canon(k.value) == "fieldname" for k in c.keywords)
                ctx.ob(f, ok, "query_terms(...) is restricted to fieldname=fieldname", loc=ctx.nodeloc(f, c))
            elif nm == "matched_terms":
                n += 1
                ctx.saw(f)
                # the call is the iterable of a comprehension / loop that filters on the pair's field
                ok = False
                for comp in ast.walk(f.node):
                    if isinstance(comp, (ast.GeneratorExp, ast.ListComp, ast.SetComp)):
                        for g in comp.generators:
                            if any(x is c for x in ast.walk(g.iter)):
                                tg = g.target
                                for cond in g.ifs:
                                    t = norm.canon(cond)
                                    if isinstance(tg, ast.Name) and t in ("(%s[0] == fieldname)" % tg.id, "(fieldname == %s[0])" % tg.id):
                                        ok = True
                                    if isinstance(tg, ast.Tuple) and tg.elts and isinstance(tg.elts[0], ast.Name) and \
                                            t in ("(%s == fieldname)" % tg.elts[0].id, "(fieldname == %s)" % tg.elts[0].id):
                                        ok = True
                    if isinstance(comp, ast.For) and any(x is c for x in ast.walk(comp.iter)):
                        fa = guards.Facts(f)
                        # a loop: every use of the element's text sits under the field test (approximated: an if on the field directly in the body)
                        for st in comp.body:
                            if isinstance(st, ast.If) and "fieldname" in norm.canon(st.test):
                                ok = True
                ctx.ob(f, ok, "matched_terms() is filtered by the pair's field == fieldname",
                       detail="terms matched in OTHER fields of the query would be marked in this field's excerpt" if not ok else "",
                       loc=ctx.nodeloc(f, c))
    if n < 2:
        raise AnalysisError("only %d matched_terms/query_terms call sites in highlight.py" % n)


@rule("C17", "R9", "K2", "a formatter that escapes its output escapes the matched words too",
      min_instances=1,
      clause="For every highlight Formatter class whose _text() is not the identity (HtmlFormatter escapes &, <, >): in its format_token() "
             "the text obtained from get_text(...) reaches the output only through self._text(...). format_fragment() already sends the "
             "text between the matches through _text(); a token pasted raw breaks the claim that the excerpt, stripped of markup, is a "
             "substring of the source text (and lets document text inject markup).")
def c17_r9(ctx):
    prog = ctx.prog
    base = prog.cls("highlight.Formatter")
    n = 0
    for K in prog.subclasses(base, strict=True):
        tx = prog.lookup(K, "_text")
        ft = prog.lookup(K, "format_token")
        if tx is None or ft is None or tx.cls is base:
            continue
        body = [st for st in tx.node.body if not (isinstance(st, ast.Expr) and isinstance(st.value, ast.Constant))]
        if len(body) == 1 and isinstance(body[0], ast.Return) and isinstance(body[0].value, ast.Name):
            continue        # identity
        n += 1
        ctx.saw(ft)
        parents = {}
        for p_ in ast.walk(ft.node):
            for ch in ast.iter_child_nodes(p_):
                parents[id(ch)] = p_
        gets = [c for c in norm.calls_in(ft.node) if norm.call_name(c) == "get_text"]
        if not gets:
            ctx.ob(ft, True, "%s.format_token() does not read the token text itself" % K.name)
            continue
        for c in gets:
            par = parents.get(id(c))
            ok = isinstance(par, ast.Call) and norm.canon(par.func) == "self._text"
            if not ok and isinstance(par, ast.Assign) and len(par.targets) == 1 and isinstance(par.targets[0], ast.Name):
                v = par.targets[0].id
                uses = [x for x in ast.walk(ft.node) if isinstance(x, ast.Name) and x.id == v and isinstance(x.ctx, ast.Load)]
                wrapped = [x for x in uses if isinstance(parents.get(id(x)), ast.Call) and norm.canon(parents[id(x)].func) == "self._text"]
                ok = bool(uses) and len(uses) == len(wrapped)
            ctx.ob(ft, ok, "the token text from get_text() goes through self._text() before it is used",
                   detail="%s._text() escapes; this text does not pass through it" % K.name if not ok else "", loc=ctx.nodeloc(ft, c))
    if n < 1:
        raise AnalysisError("no escaping formatter found")
