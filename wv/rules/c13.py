"""C13 -- numeric and date fields order and range-match exactly."""

import ast

from ..report import rule
from .. import pm, norm, cfg as cfgmod, guards
from ..model import AnalysisError
from .common import calls_of, find_calls, returns_of, is_abstract_body, bind_args


def _steps(func, var):
    """Normalise the top-level statements of a codec function operating on one running value.

    Returns a list of steps:  ("cast", from_pack, to_unpack) / ("op", kind, const_text, cond_text or None)
    where cond_text mentions the running value as `V`.  The running variable may be renamed by a cast
    (bits = unpack(pack(x))); conditions must test the *current* running variable."""
    cur = var
    out = []

    def subst(e):
        return norm.canon(norm.substitute(e, {cur: ast.Name(id="V", ctx=ast.Load())}))

    def op_of(st, cond):
        nonlocal cur
        if isinstance(st, ast.AugAssign) and isinstance(st.target, ast.Name):
            if st.target.id != cur:
                out.append(("bad", "updates %s, not the running value %s" % (st.target.id, cur)))
                return
            kind = {ast.Add: "add", ast.Sub: "sub", ast.BitXor: "xor"}.get(type(st.op), "other")
            out.append(("op", kind, norm.canon(st.value), cond))
        elif isinstance(st, ast.Assign) and len(st.targets) == 1 and isinstance(st.targets[0], ast.Name):
            v = st.value
            # x = _qunpack(_dpack(x))[0]
            if isinstance(v, ast.Subscript) and isinstance(v.value, ast.Call) and v.value.args and isinstance(v.value.args[0], ast.Call):
                outer = norm.call_name(v.value)
                inner = norm.call_name(v.value.args[0])
                arg = v.value.args[0].args[0] if v.value.args[0].args else None
                if isinstance(arg, ast.Name) and arg.id == cur:
                    out.append(("cast", inner, outer))
                    cur = st.targets[0].id
                    return
            out.append(("other", norm.stmt_text(st)))

    for st in func.node.body:
        if isinstance(st, ast.Expr) and isinstance(st.value, ast.Constant):
            continue
        if isinstance(st, (ast.Assert, ast.Return)):
            if isinstance(st, ast.Return) and st.value is not None and norm.canon(st.value) != cur:
                # `return cast(x)` is `x = cast(x); return x` (the load-time normal form N14 writes it that way)
                before = len(out)
                op_of(ast.copy_location(ast.Assign(targets=[ast.Name(id="<ret>", ctx=ast.Store())], value=st.value), st), None)
                if not (len(out) == before + 1 and out[-1][0] == "cast"):
                    del out[before:]
                    out.append(("bad", "returns %s, not the running value %s" % (norm.canon(st.value), cur)))
            continue
        if isinstance(st, ast.If) and not st.orelse:
            cond = subst(st.test)
            if cur not in norm.names_in(st.test) and not (norm.names_in(st.test) <= {"signed"}):
                out.append(("bad", "condition %s does not test the running value %s" % (norm.canon(st.test), cur)))
            for s2 in st.body:
                op_of(s2, cond)
        else:
            op_of(st, None)
    return out


INV = {"add": "sub", "sub": "add", "xor": "xor"}
CAST_INV = {("_dpack", "_qunpack"): ("_qpack", "_dunpack"), ("_qpack", "_dunpack"): ("_dpack", "_qunpack")}


def _inverse_of(steps):
    out = []
    for s_ in reversed(steps):
        if s_[0] == "op":
            out.append(("op", INV.get(s_[1], "?"), s_[2], s_[3]))
        elif s_[0] == "cast":
            out.append(("cast",) + CAST_INV.get((s_[1], s_[2]), ("?", "?")))
        else:
            out.append(s_)
    return out


@rule("C13", "R1", "K4", "sortable encodings and their decoders are step-by-step inverses",
      min_instances=3,
      clause="float_to_sortable_long / sortable_long_to_float and the integer branches of to_sortable / from_sortable "
             "are the same list of steps, reversed and inverted (same constants, same conditions on the running value); "
             "NUMERIC.to_bytes / from_bytes and to_column_value / from_column_value are mirror pipelines.")
def c13_r1(ctx):
    prog = ctx.prog
    enc = prog.func("util.numeric.float_to_sortable_long")
    dec = prog.func("util.numeric.sortable_long_to_float")
    ctx.saw(enc)
    ctx.saw(dec)
    se = _steps(enc, enc.params[0])
    sd = _steps(dec, dec.params[0])
    bad = [s_ for s_ in se + sd if s_[0] in ("bad", "other")]
    ctx.ob("util.numeric.float_to_sortable_long <-> sortable_long_to_float", not bad and sd == _inverse_of(se) and len(se) >= 3,
           "decoder steps are the encoder's steps reversed and inverted",
           detail="encoder %s ; decoder %s%s" % (se, sd, (" ; problems: %s" % bad) if bad else ""), loc=enc.loc)
    # integer branch
    ts = prog.func("util.numeric.to_sortable")
    fs = prog.func("util.numeric.from_sortable")

    def int_branch(f):
        """(ops applied to the running value on the int side under `signed`, the int-type test, returns of the float side).
        The type test may be written either way round (`if int: ... else: float` / `if not int: return float(...)`)."""
        from ..desugar import terminates
        body = f.node.body
        for i, st in enumerate(body):
            if not isinstance(st, ast.If):
                continue
            test, neg = st.test, False
            while isinstance(test, ast.UnaryOp) and isinstance(test.op, ast.Not):
                test, neg = test.operand, not neg
            t = norm.canon(test)
            import re as _re
            if "numtype" not in t or not _re.search(r"\bint\b", t):
                continue
            rest = body[i + 1:]
            tside = st.body + ([] if terminates(st.body) else rest)
            fside = st.orelse + (rest if terminates(st.body) or not st.orelse else [])
            if not st.orelse and not terminates(st.body):
                fside = rest
            if neg:
                tside, fside = fside, tside
            ops = []
            for s2 in tside:
                for x in ast.walk(s2):
                    if isinstance(x, ast.If) and norm.canon(x.test) == "signed":
                        for s3 in x.body:
                            if isinstance(s3, ast.AugAssign):
                                ops.append((type(s3.op).__name__, norm.canon(s3.value)))
            extra = [x for s2 in tside for x in ast.walk(s2) if isinstance(x, ast.AugAssign)]
            if len(extra) != len(ops):
                ops.append(("unguarded", ""))
            floats = [norm.canon(r.value) for r in ast.walk(ast.Module(body=fside, type_ignores=[])) if isinstance(r, ast.Return) and r.value is not None]
            return ops, t, floats
        return None, None, None
    oe, ce, fe = int_branch(ts)
    od, cd, fd = int_branch(fs)
    ctx.ob("util.numeric.to_sortable <-> from_sortable",
           oe is not None and od is not None and len(oe) == 1 and len(od) == 1 and oe[0][1] == od[0][1]
           and {oe[0][0], od[0][0]} == {"Add", "Sub"} and oe[0][0] == "Add" and ce == cd,
           "signed integers are shifted by the same 1 << intsize-1, added on encode and subtracted on decode, under the same type test",
           detail="encode %s under %s; decode %s under %s" % (oe, ce, od, cd), loc=ts.loc)
    ctx.ob("util.numeric.to_sortable <-> from_sortable", fe == ["float_to_sortable_long(x, signed)"] and fd == ["sortable_long_to_float(x, signed)"],
           "floats go through the float pair on both sides", detail="%s / %s" % (fe, fd), loc=ts.loc)
    # NUMERIC pipelines
    num = prog.cls("fields.NUMERIC")
    tb = num.methods["to_bytes"]
    fb = num.methods["from_bytes"]
    ctx.saw(tb)
    ctx.saw(fb)
    pe = [norm.call_name(c) for c in norm.calls_in(tb.node) if norm.call_name(c) in ("prepare_number", "to_sortable", "sortable_to_bytes")]
    pd = [norm.call_name(c) for c in norm.calls_in(fb.node) if norm.call_name(c) in ("unpack", "from_sortable", "unprepare_number")]
    ctx.ob(num, pe[-3:] == ["prepare_number", "to_sortable", "sortable_to_bytes"] and pd == ["unpack", "from_sortable", "unprepare_number"],
           "to_bytes = prepare -> to_sortable -> pack; from_bytes = unpack -> from_sortable -> unprepare", detail="%s / %s" % (pe, pd), loc=tb.loc)
    sb = num.methods["sortable_to_bytes"]
    rets = [norm.canon(r.value) for r in returns_of(sb)]
    ctx.ob(sb, rets == ["(pack_byte(shift) + self._struct.pack(x))"], "sortable_to_bytes = shift byte + big-endian struct of the shifted value", detail=str(rets))
    ok = any(norm.canon(n) == "bs[1:]" for n in ast.walk(fb.node) if isinstance(n, ast.Subscript))
    ctx.ob(fb, ok, "from_bytes skips exactly the one shift byte")
    args_ok = True
    for f in (tb, num.methods["to_column_value"], num.methods["from_column_value"], fb):
        for c in norm.calls_in(f.node):
            if norm.call_name(c) in ("to_sortable", "from_sortable"):
                a = [norm.canon(x) for x in c.args[:3]]
                args_ok = args_ok and a == ["self.numtype", "self.bits", "self.signed"]
    ctx.ob(num, args_ok, "every to_sortable/from_sortable call passes (self.numtype, self.bits, self.signed)", loc=num.loc)
    st = [v for (f_, v, s_) in __import__("wv.model", fromlist=["x"]).self_attr_assignments(prog, num, inherited=False).get("_struct", [])]
    ctx.ob(num, bool(st) and all(norm.canon(v) == "struct.Struct(('>' + str(self.sortable_typecode)))" for v in st),
           "the term struct is big-endian (byte order == numeric order) of the sortable typecode", detail=str([norm.canon(v) for v in st]), loc=num.loc)


@rule("C13", "R2", "K1", "values are range-checked before they are encoded",
      min_instances=3,
      clause="Every to_sortable(...) in fields.py encodes a value that went through prepare_number on the same "
             "variable; prepare_number compares against both min_value and max_value and raises ValueError; the limits "
             "are derived from from_sortable(0) and from_sortable(2**bits - 1).")
def c13_r2(ctx):
    prog = ctx.prog
    num = prog.cls("fields.NUMERIC")
    n = 0
    for f in prog.functions.values():
        if f.module.name != "whoosh.fields":
            continue
        for c in norm.calls_in(f.node):
            if norm.call_name(c) != "to_sortable" or len(c.args) < 4:
                continue
            n += 1
            ctx.saw(f)
            v = c.args[3]
            ok = False
            if isinstance(v, ast.Call) and norm.canon(v.func) == "self.prepare_number" and len(v.args) == 1:
                ok = True       # handed over directly
            if isinstance(v, ast.Name):
                # the last assignment to that name before the call is  v = self.prepare_number(v)
                last = None
                fpos = norm.source_pos(f.node)
                for st in ast.walk(f.node):
                    if isinstance(st, ast.Assign) and any(isinstance(t, ast.Name) and t.id == v.id for t in st.targets) \
                            and fpos(st) < fpos(c) and not any(x is c for x in ast.walk(st)):
                        if last is None or fpos(st) > fpos(last):
                            last = st
                ok = last is not None and isinstance(last.value, ast.Call) and norm.canon(last.value.func) == "self.prepare_number" \
                    and len(last.value.args) == 1
            ctx.ob(f, ok, "to_sortable(..., %s) encodes a value returned by prepare_number" % norm.canon(v), loc=ctx.nodeloc(f, c))
    if n < 2:
        raise AnalysisError("only %d to_sortable call sites in fields.py" % n)
    pn = num.methods["prepare_number"]
    ctx.saw(pn)
    tests = [norm.canon(n_.test) for n_ in ast.walk(pn.node) if isinstance(n_, ast.If)]
    rng = [t for t in tests if "self.min_value" in t and "self.max_value" in t]
    ok = len(rng) == 1 and rng[0] in ("((self.max_value < x) or (x < self.min_value))",)
    raises = False
    for n_ in ast.walk(pn.node):
        if isinstance(n_, ast.If) and "self.min_value" in norm.canon(n_.test):
            raises = any(isinstance(x, ast.Raise) and "ValueError" in norm.canon(x.exc) for x in n_.body)
    ctx.ob(pn, ok and raises, "prepare_number rejects x < min_value or x > max_value with ValueError", detail=str(rng))
    mm = num.methods["_min_max"]
    rets = [norm.deep_canon(r.value, mm.node) for r in returns_of(mm) if r.value is not None]
    ctx.ob(mm, rets == ["(from_sortable(self.numtype, self.bits, self.signed, 0), "
                        "from_sortable(self.numtype, self.bits, self.signed, ((2 ** self.bits) - 1)))"],
           "limits are the decodings of the smallest and largest sortable value", detail=str(rets))


@rule("C13", "R3", "K9", "index-time and query-time use the same tiers and the same encoding",
      min_instances=3,
      clause="NUMERIC.index emits one term per shift in range(0, bits, shift_step); NumericRange._compile_query passes "
             "numtype, bits, signed, start, end, shift_step, startexcl, endexcl to tiered_ranges in its parameter order "
             "and encodes bounds with the field's sortable_to_bytes(n, shift); exclusivity moves the *sortable* bound by one.")
def c13_r3(ctx):
    prog = ctx.prog
    num = prog.cls("fields.NUMERIC")
    ix = num.methods["index"]
    ctx.saw(ix)
    IA = pm.Alpha(ix)
    loops = [norm.canon(n.iter) for n in ast.walk(ix.node) if isinstance(n, ast.For) and isinstance(n.target, ast.Name) and
             any(isinstance(y, ast.Yield) and isinstance(y.value, ast.Tuple) and y.value.elts and
                 IA.eq(y.value.elts[0], "self.to_bytes(num, %s)" % n.target.id, al=True) for y in ast.walk(n))]
    ctx.ob(ix, loops in (["xrange(0, self.bits, self.shift_step)"], ["range(0, self.bits, self.shift_step)"]),
           "one term per shift in range(0, bits, shift_step)", detail=str(loops))
    cq = prog.method("query.ranges.NumericRange", "_compile_query", inherited=False)
    ctx.saw(cq)
    tr = prog.func("util.numeric.tiered_ranges")
    calls = [c for c in norm.calls_in(cq.node) if norm.call_name(c) == "tiered_ranges"]
    ok = False
    detail = ""
    if len(calls) == 1:
        m, probs = bind_args(calls[0], tr, skip_self=False)
        want = {"numtype": "field.numtype", "intsize": "field.bits", "signed": "field.signed", "start": "start", "end": "end",
                "shift_step": "field.shift_step", "startexcl": "self.startexcl", "endexcl": "self.endexcl"}
        QA = pm.Alpha(cq)
        QA.find(pm.stmts_of(cq.node), "field = ixreader.schema[self.fieldname]")
        QA.find(pm.stmts_of(cq.node), "start = self.start")
        QA.find(pm.stmts_of(cq.node), "end = self.end")
        got = {k: QA.text(v) for k, v in (m or {}).items()}
        ok = set(got) == set(want) and all(QA.eq(m[k], want[k]) for k in want) and not probs
        detail = str(got)
    else:
        QA = pm.Alpha(cq)
    ctx.ob(cq, ok, "tiered_ranges receives every argument at its own parameter", detail=detail)
    cal = norm.aliases(cq.node)
    stb = [QA.text(norm.substitute(c.func, cal)) for c in norm.calls_in(cq.node)
           if (isinstance(c.func, ast.Name) and c.func.id in cal and norm.canon(cal[c.func.id]).endswith(".sortable_to_bytes"))
           or (isinstance(c.func, ast.Attribute) and c.func.attr == "sortable_to_bytes")]
    bounds = [a_ for c in norm.calls_in(cq.node) if norm.call_name(c) in ("Term", "TermRange") for a_ in c.args[1:3]]
    enc_all = all(any(norm.call_name(x) == "sortable_to_bytes" or (isinstance(x.func, ast.Name) and x.func.id in cal)
                      for x in norm.calls_in(norm.inline_defs(b_, cq.node))) for b_ in bounds)
    ctx.ob(cq, len(stb) >= 1 and len(bounds) >= 3 and enc_all and all(s_ == "field.sortable_to_bytes" for s_ in stb),
           "bounds are encoded with the field's sortable_to_bytes", detail=str(stb))
    # prepare_number on both bounds
    pn = [c for c in norm.calls_in(cq.node) if norm.call_name(c) == "prepare_number"]
    ctx.ob(cq, len(pn) == 2 and QA.eq(pn[0], "field.prepare_number(start)") and QA.eq(pn[1], "field.prepare_number(end)"),
           "both bounds are range-checked by the field", detail=str([QA.text(c) for c in pn]))
    ctx.saw(tr)
    fa = guards.Facts(tr)
    adj = {}
    # the two working variables, by role: the names that receive to_sortable(..., start) / to_sortable(..., end)  (the parameters
    # themselves in the reference spelling, `sortstart` / `sortend` when the conversion is given its own name)
    role_var = {"start": "start", "end": "end"}
    for st in ast.walk(tr.node):
        if isinstance(st, ast.Assign) and len(st.targets) == 1 and isinstance(st.targets[0], ast.Name) and "to_sortable" in norm.canon(st.value):
            for c_ in norm.calls_in(st.value):
                if norm.call_name(c_) == "to_sortable" and c_.args and norm.canon(c_.args[-1]) in ("start", "end"):
                    role_var[norm.canon(c_.args[-1])] = st.targets[0].id
    back = dict((v_, k_) for k_, v_ in role_var.items())
    for n in fa.g.nodes:
        a = n.ast
        if n.kind == "stmt" and isinstance(a, ast.AugAssign) and norm.canon(a.target) in back and norm.canon(a.value) == "1":
            adj[back[norm.canon(a.target)]] = (type(a.op).__name__, sorted(t for (p, t) in (fa.at(n) or []) if p == "T"))
    ok = adj.get("start", ("", []))[0] == "Add" and "startexcl" in adj.get("start", ("", []))[1] and \
        adj.get("end", ("", []))[0] == "Sub" and "endexcl" in adj.get("end", ("", []))[1]
    ctx.ob(tr, ok, "an exclusive start adds 1 and an exclusive end subtracts 1, after conversion to the sortable value", detail=str(adj))
    order_ok = True
    for nm in (role_var["start"], role_var["end"]):
        tpos = norm.source_pos(tr.node)
        conv = [tpos(st) for st in ast.walk(tr.node) if isinstance(st, ast.Assign) and norm.canon(st.targets[0]) == nm and "to_sortable" in norm.canon(st.value)]
        aug = [tpos(st) for st in ast.walk(tr.node) if isinstance(st, ast.AugAssign) and norm.canon(st.target) == nm]
        order_ok = order_ok and bool(conv) and bool(aug) and max(conv) < min(aug)
    ctx.ob(tr, order_ok, "the +-1 adjustment happens on the converted (sortable) value")
    dflt = [norm.canon(st.value) for st in ast.walk(tr.node) if isinstance(st, ast.Assign) and norm.canon(st.targets[0]) == role_var["end"] and "to_sortable" not in norm.canon(st.value)]
    ctx.ob(tr, dflt == ["((2 ** intsize) - 1)"], "an open end is the largest sortable value 2**intsize - 1", detail=str(dflt))


@rule("C13", "R4", "K11", "parse_range forwards exclusivity and boost into the range query it builds",
      min_instances=2,
      clause="Every FieldType.parse_range implementation passes its startexcl, endexcl and boost parameters to the "
             "query it returns (NUMERIC and DATETIME are compared as siblings).")
def c13_r4(ctx):
    prog = ctx.prog
    fbase = prog.cls("fields.FieldType")
    nr_init = prog.method("query.ranges.NumericRange", "__init__")
    n = 0
    for cls in prog.subclasses(fbase):
        f = cls.methods.get("parse_range")
        if f is None or is_abstract_body(f):
            continue
        n += 1
        ctx.saw(f)
        for r in returns_of(f):
            v = r.value
            if not isinstance(v, ast.Call) or norm.call_name(v) not in ("NumericRange", "TermRange", "DateRange"):
                continue
            target = nr_init if norm.call_name(v) != "TermRange" else prog.method("query.ranges.TermRange", "__init__")
            m, probs = bind_args(v, target)
            got = {k: norm.canon(x) for k, x in (m or {}).items()}
            ok = got.get("startexcl") == "startexcl" and got.get("endexcl") == "endexcl" and got.get("boost") == "boost" and not probs
            ctx.ob(f, ok, "returns %s(...) with startexcl, endexcl and boost forwarded" % norm.call_name(v),
                   detail="bound arguments: %s" % got, loc=ctx.nodeloc(f, v))
    if n < 2:
        raise AnalysisError("only %d parse_range implementations" % n)


@rule("C13", "R5", "K2", "a date string is cut into fields exactly as far as it is long",
      min_instances=1, also=("C16",),
      clause="In DATETIME._parse_datestring every fixed slice qstring[a:b] is read exactly under `len(qstring) >= b` "
             "(a stricter test drops the last given component and widens the date to the next coarser unit; a laxer one "
             "reads a short field); the slices tile the string without gap (each starts where the previous one ended).")
def c13_r5(ctx):
    prog = ctx.prog
    f = prog.method("fields.DATETIME", "_parse_datestring", inherited=False)
    ctx.saw(f)
    fa = guards.Facts(f)
    src = f.params[1]
    # the string may be re-bound once (normalisation of separators); the facts are about the final name
    seen = []
    # the length may be held in a local (`qlen = len(qstring)`, bound once, after the last re-binding of the string)
    lens = ["len(%s)" % src]
    an = norm.assigned_names(f.node)
    fpos = norm.source_pos(f.node)
    src_stores = [x for x in ast.walk(f.node) if isinstance(x, ast.Name) and x.id == src and isinstance(x.ctx, ast.Store)]
    for st in ast.walk(f.node):
        if isinstance(st, ast.Assign) and len(st.targets) == 1 and isinstance(st.targets[0], ast.Name) and norm.canon(st.value) == "len(%s)" % src \
                and len(an.get(st.targets[0].id, [])) == 1 and all(fpos(x) < fpos(st) for x in src_stores):
            lens.append(st.targets[0].id)
    for n in fa.g.nodes:
        for frag in cfgmod.node_exprs(n):
            for x in ast.walk(frag):
                if isinstance(x, ast.Subscript) and isinstance(x.value, ast.Name) and x.value.id == src and isinstance(x.slice, ast.Slice) \
                        and isinstance(x.slice.upper, ast.Constant) and isinstance(x.slice.upper.value, int):
                    lo = x.slice.lower.value if isinstance(x.slice.lower, ast.Constant) else 0
                    hi = x.slice.upper.value
                    facts = fa.at(n) or frozenset()
                    ok = any(("F", "(%s < %d)" % (L, hi)) in facts or ("T", "(%d == %s)" % (hi, L)) in facts or
                             ("T", "(%s == %d)" % (L, hi)) in facts for L in lens)
                    seen.append((lo, hi))
                    ctx.ob(f, ok, "%s[%d:%d] is read exactly when len(%s) >= %d" % (src, lo, hi, src, hi),
                           detail="guards here: %s" % sorted(t for t in facts if any(L in t[1] for L in lens)), loc=ctx.nodeloc(f, x))
    seen.sort()
    tiles = all(seen[i][1] == seen[i + 1][0] for i in range(len(seen) - 1)) and bool(seen) and seen[0][0] == 0
    ctx.ob(f, len(seen) >= 5 and tiles, "the fixed-width fields tile the string from position 0", detail=str(seen))


@rule("C13", "R6", "K2", "the trie split of a numeric range stops when the next tier's bounds have crossed or wrapped",
      min_instances=1,
      clause="split_ranges() narrows [start, end] tier by tier: next start = (start + diff) & ~mask, next end = (end - diff) & ~mask. "
             "end - diff is negative when end lies in the lowest block of the tier, and the mask turns it into a large positive "
             "number. The test that ends the descent must therefore compare (a) the two next bounds with each other and (b) the next "
             "end with the current end (or with zero, before masking): without (b) NumericRange('n', 0, 1) on an unsigned field "
             "emits the whole top tier and matches every document. Decides the presence of the two comparisons on the exit test, "
             "not the arithmetic.")
def c13_r6(ctx):
    prog = ctx.prog
    f = prog.func("util.numeric.split_ranges")
    ctx.saw(f)
    params = f.params
    if len(params) < 4:
        raise AnalysisError("split_ranges signature changed")
    p_start, p_end = params[2], params[3]
    # the two next-bound variables, by role
    nxt = {}
    for st in ast.walk(f.node):
        if isinstance(st, ast.Assign) and len(st.targets) == 1 and isinstance(st.targets[0], ast.Name):
            v = st.value
            names = norm.names_in(v)
            has_add = any(isinstance(x, ast.BinOp) and isinstance(x.op, ast.Add) and p_start in norm.names_in(x) for x in ast.walk(v))
            has_sub = any(isinstance(x, ast.BinOp) and isinstance(x.op, ast.Sub) and p_end in norm.names_in(x) for x in ast.walk(v))
            if has_add and p_start in names and st.targets[0].id not in (p_start, p_end):
                nxt["start"] = st.targets[0].id
            if has_sub and p_end in names and st.targets[0].id not in (p_start, p_end):
                nxt["end"] = st.targets[0].id
    # by role, second spelling: the names the two parameters are re-bound to for the next round (start = nextstart;
    # start, end = nextstart, nextend), whatever statements computed them
    for st in ast.walk(f.node):
        if isinstance(st, ast.Assign) and len(st.targets) == 1:
            t, v = st.targets[0], st.value
            pairs = []
            if isinstance(t, ast.Name):
                pairs = [(t, v)]
            elif isinstance(t, ast.Tuple) and isinstance(v, ast.Tuple) and len(t.elts) == len(v.elts):
                pairs = list(zip(t.elts, v.elts))
            for tt, vv in pairs:
                if isinstance(tt, ast.Name) and isinstance(vv, ast.Name) and vv.id not in (p_start, p_end):
                    if tt.id == p_start:
                        nxt.setdefault("start", vv.id)
                    elif tt.id == p_end:
                        nxt.setdefault("end", vv.id)
    if set(nxt) != {"start", "end"}:
        raise AnalysisError("split_ranges: cannot find the next-tier bounds (%s)" % nxt)
    # the exit test: the `if` whose body leaves the loop (break/return)
    exits = [x for x in ast.walk(f.node) if isinstance(x, ast.If) and
             any(isinstance(y, (ast.Break, ast.Return)) for b in x.body for y in ast.walk(b))]
    # ... or its mirror image: the `if` whose body goes round again (ends in `continue`) while what follows it leaves the loop
    if not exits:
        for lp in ast.walk(f.node):
            if not isinstance(lp, ast.While):
                continue
            for i_, x in enumerate(lp.body):
                if isinstance(x, ast.If) and not x.orelse and x.body and isinstance(x.body[-1], ast.Continue) and \
                        any(isinstance(y, (ast.Break, ast.Return)) for b in lp.body[i_ + 1:] for y in ast.walk(b)):
                    exits.append(x)
    if not exits:
        raise AnalysisError("split_ranges: no exit test found")
    crossed = wrapped = False
    for x in exits:
        t = norm.inline_defs(x.test, f.node) if not isinstance(x.test, (ast.BoolOp, ast.Compare)) else x.test
        for c in ast.walk(t):
            if not isinstance(c, ast.Compare):
                continue
            # a chain a <= b <= c compares its neighbours pairwise
            terms = [c.left] + list(c.comparators)
            for l_, r_ in zip(terms, terms[1:]):
                ns = norm.names_in(l_) | norm.names_in(r_)
                if nxt["start"] in ns and nxt["end"] in ns:
                    crossed = True
                side = [norm.canon(l_), norm.canon(r_)]
                if nxt["end"] in side and (p_end in side or "0" in side):
                    wrapped = True
    # or: the sign is tested before the mask is applied
    for c in ast.walk(f.node):
        if isinstance(c, ast.Compare) and len(c.ops) == 1 and isinstance(c.left, ast.BinOp) and isinstance(c.left.op, ast.Sub) \
                and p_end in norm.names_in(c.left) and norm.canon(c.comparators[0]) == "0":
            wrapped = True
    ctx.ob(f, crossed, "the descent ends when the next bounds have crossed", loc=ctx.nodeloc(f, exits[0]))
    ctx.ob(f, wrapped, "the descent ends when the next end has wrapped past the current end",
           detail="" if wrapped else "`%s` is (%s - diff) & ~mask: negative for an end in the lowest block, huge after masking; nothing "
                                     "compares it with `%s` (or tests the sign), so the whole top tier is emitted" %
                                     (nxt["end"], p_end, p_end), loc=ctx.nodeloc(f, exits[0]))


@rule("C13", "R7", "K2", "a range emptied by its exclusive bounds yields no tier at all",
      min_instances=1,
      clause="tiered_ranges() moves an exclusive start up by one and an exclusive end down by one in sortable space. At the edge of the "
             "domain that leaves start > end (start = 2**bits, or end = -1), values no encoder can pack. Every path on which a bound "
             "was stepped and that then returns the pair or hands it to split_ranges() has first tested start against end.")
def c13_r7(ctx):
    prog = ctx.prog
    f = prog.func("util.numeric.tiered_ranges")
    ctx.saw(f)
    g = cfgmod.cfg_of(f, exc_edges=False)

    def is_step(n):
        a = n.ast
        return n.kind == "stmt" and isinstance(a, ast.AugAssign) and isinstance(a.target, ast.Name) and a.target.id in ("start", "end") \
            and isinstance(a.op, (ast.Add, ast.Sub))

    def is_use(n):
        a = n.ast
        if not isinstance(a, ast.Return) or a.value is None:
            return False
        names = norm.names_in(a.value)
        return "start" in names and "end" in names

    def is_test(n):
        for e in cfgmod.node_exprs(n):
            for c in ast.walk(e):
                if isinstance(c, ast.Compare) and len(c.ops) == 1 and isinstance(c.ops[0], (ast.Gt, ast.GtE, ast.Lt, ast.LtE)):
                    side = set([norm.canon(c.left), norm.canon(c.comparators[0])])
                    if side == {"start", "end"}:
                        return True
        return False
    steps = [n for n in g.nodes if is_step(n)]
    uses = [n for n in g.nodes if is_use(n)]
    if not steps or not uses:
        ctx.note("tiered_ranges no longer steps exclusive bounds in place; shape not recognised")
        ctx.ob(f, True, "no in-place stepping of exclusive bounds")
        return
    bad = None
    for s in steps:
        p = cfgmod.find_path(g, s, lambda y: y in uses, avoid_pred=is_test)
        if p:
            bad = [s] + p
    ctx.ob(f, bad is None, "no path steps a bound and uses the pair without comparing start with end",
           detail="" if bad is None else "an exclusive bound at the edge of the domain leaves start > end; the pair reaches the encoder",
           path=cfgmod.path_text(bad) if bad else None)


def _is_pow10(e, exp_ok):
    return isinstance(e, ast.BinOp) and isinstance(e.op, ast.Pow) and isinstance(e.left, ast.Constant) and e.left.value == 10 \
        and exp_ok(e.right)


@rule("C13", "R8", "K4", "the decimal scaling is undone arithmetically",
      min_instances=1, also=("C08",),
      clause="prepare_number() turns a Decimal into an integer by multiplying with 10 ** decimal_places; unprepare_number() -- what "
             "from_bytes() and from_column_value() return -- is its inverse only if it divides by the same power (x / 10 ** dc, "
             "x * 10 ** -dc, Decimal(x).scaleb(-dc)).  Cutting the digit string of the integer at -dc is not: it has fewer than dc "
             "digits for |value| < 1 (5 -> '.5' = 0.5 for 0.05) and a sign in front (-5 -> '-.5' is no number).")
def c13_r8(ctx):
    prog = ctx.prog
    n = 0
    for cls in prog.subclasses(prog.cls("fields.NUMERIC"), strict=False):
        prep = cls.methods.get("prepare_number")
        unprep = cls.methods.get("unprepare_number")
        if prep is None and unprep is None:
            continue
        prep = prep or prog.lookup(cls, "prepare_number")
        unprep = unprep or prog.lookup(cls, "unprepare_number")
        if prep is None or unprep is None:
            raise AnalysisError("%s has prepare_number without unprepare_number (or the reverse)" % cls.qualname)
        ctx.saw(prep)
        ctx.saw(unprep)

        def dcs(func):
            al = set(["self.decimal_places"])
            for st in ast.walk(func.node):
                if isinstance(st, ast.Assign) and norm.canon(st.value) == "self.decimal_places":
                    for t in st.targets:
                        if isinstance(t, ast.Name):
                            al.add(t.id)
            return al
        pa, ua = dcs(prep), dcs(unprep)
        # the scaling may sit in a private method prepare_number() calls on self
        pnodes = [prep]
        for c in norm.calls_in(prep.node):
            if isinstance(c.func, ast.Attribute) and norm.canon(c.func.value) == "self" and c.func.attr.startswith("_"):
                h = prog.lookup(cls, c.func.attr)
                if h is not None and h not in pnodes:
                    pnodes.append(h)
                    pa |= dcs(h)
        scaled = [b for pn in pnodes for b in ast.walk(pn.node) if isinstance(b, ast.BinOp) and isinstance(b.op, ast.Mult) and
                  (_is_pow10(b.right, lambda e: norm.canon(e) in pa) or _is_pow10(b.left, lambda e: norm.canon(e) in pa))]
        if not scaled:
            continue  # nothing to undo
        n += 1
        x = unprep.params[1] if len(unprep.params) > 1 else None
        is_dc = lambda e: norm.canon(e) in ua
        is_negdc = lambda e: isinstance(e, ast.UnaryOp) and isinstance(e.op, ast.USub) and is_dc(e.operand)
        inverse = False
        for b in ast.walk(unprep.node):
            if isinstance(b, ast.BinOp) and isinstance(b.op, ast.Div) and _is_pow10(b.right, is_dc):
                inverse = True
            if isinstance(b, ast.BinOp) and isinstance(b.op, ast.Mult) and (_is_pow10(b.right, is_negdc) or _is_pow10(b.left, is_negdc)):
                inverse = True
            if isinstance(b, ast.Call) and norm.call_name(b) == "scaleb" and len(b.args) == 1 and is_negdc(b.args[0]):
                inverse = True
        # digit surgery: a slice whose bound mentions dc, taken from str(<number>)
        strs = set()
        for st in ast.walk(unprep.node):
            if isinstance(st, ast.Assign) and isinstance(st.value, ast.Call) and norm.call_name(st.value) in ("str", "text_type", "repr"):
                for t in st.targets:
                    if isinstance(t, ast.Name):
                        strs.add(t.id)
        cut = []
        for s in ast.walk(unprep.node):
            if isinstance(s, ast.Subscript) and isinstance(s.slice, ast.Slice):
                base_is_str = (isinstance(s.value, ast.Name) and s.value.id in strs) or (
                    isinstance(s.value, ast.Call) and norm.call_name(s.value) in ("str", "text_type", "repr"))
                bounds = [b for b in (s.slice.lower, s.slice.upper) if b is not None]
                if base_is_str and any(any(is_dc(z) for z in ast.walk(b)) for b in bounds):
                    cut.append(s)
        ctx.ob(unprep, inverse and not cut, "unprepare_number() divides by the power of ten prepare_number() multiplied with",
               detail=("the digit string is cut at the number of decimal places (%s): wrong for |value| < 1, no number for negative ones"
                       % norm.canon(cut[0])) if cut else ("" if inverse else "no division by 10 ** decimal_places / scaleb(-decimal_places) found"),
               loc=ctx.nodeloc(unprep, cut[0]) if cut else unprep.loc)
    if n < 1:
        raise AnalysisError("prepare_number no longer scales by 10 ** decimal_places")
