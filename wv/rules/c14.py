"""C14 -- sorting, grouping, collapsing, filtering, paging are exact views of the results.

C14 also runs C05-R3 (heap/result order keys) and C10-R5 (resolved calls on
typed receivers, which covers every self.child.<m>() of a wrapping collector).
"""

import ast

from ..report import rule
from .. import pm, norm, cfg as cfgmod, guards, paths, cases
from ..model import AnalysisError
from .common import calls_of, find_calls, returns_of, is_abstract_body, bind_args


def _discard_tests(func):
    """Tests of `if <test>: ... continue` statements, with `x is not None` kept as written."""
    out = []
    for st in ast.walk(func.node):
        if isinstance(st, ast.If) and any(isinstance(x, ast.Continue) for x in st.body):
            out.append(st.test)
    return out


@rule("C14", "R1", "K4", "a filtering collector applies one and the same predicate on every path",
      min_instances=1,
      clause="FilterCollector.all_ids() (used for len(results) after a limited search) and collect_matches() "
             "(used while collecting) discard a document under the same normalised predicate; allow/restrict sets "
             "are tested with `is not None`, never by truthiness (an empty allow set allows nothing).")
def c14_r1(ctx):
    prog = ctx.prog
    cls = prog.cls("collectors.FilterCollector")
    ai = cls.methods["all_ids"]
    cm = cls.methods["collect_matches"]
    ctx.saw(ai)
    ctx.saw(cm)
    # both predicates as functions of "the global document number" D:
    #   all_ids: D is the loop variable over child.all_ids(), a document is kept where it is yielded;
    #   collect_matches: D is self.offset + <loop variable over child.matches()>, kept where child.collect(<that variable>) runs.
    # The keep condition is read off the if-structure around the keep site (whatever its shape: `if bad: continue`, `if ok: keep`,
    # if/else), and the two are compared as boolean functions of their atoms.
    import copy as _copy
    D = ast.Name(id="D", ctx=ast.Load())
    lp1 = [lp for lp in ast.walk(ai.node) if isinstance(lp, ast.For) and isinstance(lp.target, ast.Name)
           and any(norm.call_name(c) == "all_ids" for c in norm.calls_in(lp.iter))]
    lp2 = [lp for lp in ast.walk(cm.node) if isinstance(lp, ast.For) and isinstance(lp.target, ast.Name)
           and any(norm.call_name(c) == "matches" for c in norm.calls_in(lp.iter))]
    ok = len(lp1) == 1 and len(lp2) == 1
    a = b = ""
    same = False
    keeps = []
    if ok:
        v1, v2 = lp1[0].target.id, lp2[0].target.id
        k1 = paths.reach_condition(lp1[0].body, lambda st: isinstance(st, ast.Expr) and isinstance(st.value, ast.Yield)
                                   and isinstance(st.value.value, ast.Name) and st.value.value.id == v1)
        k2 = paths.reach_condition(lp2[0].body, lambda st: isinstance(st, ast.Expr) and isinstance(st.value, ast.Call)
                                   and norm.call_name(st.value) == "collect" and len(st.value.args) == 1
                                   and isinstance(st.value.args[0], ast.Name) and st.value.args[0].id == v2)
        ok = k1 is not None and k2 is not None
    if ok:
        e1 = norm.substitute(norm.inline_defs(k1, ai.node), {v1: D})
        e2 = norm.inline_defs(k2, cm.node)

        class _G(ast.NodeTransformer):
            def visit_BinOp(self, n):
                self.generic_visit(n)
                if isinstance(n.op, ast.Add) and norm.canon(n) in ("(%s + self.offset)" % v2, "(self.offset + %s)" % v2):
                    return D
                return n
        e2 = _G().visit(_copy.deepcopy(e2))
        al1, al2 = norm.aliases(ai.node), norm.aliases(cm.node)
        e1, e2 = norm.substitute(e1, al1), norm.substitute(e2, al2)
        a, b = norm.canon(e1), norm.canon(e2)
        eqv, atoms = paths.equivalent(e1, e2, norm.canon)
        same = eqv is True and any("D" in norm.names_in(norm.parse_expr(t)) for t in atoms) and v2 not in norm.names_in(e2)
        keeps = [(ai, e1), (cm, e2)]
    ctx.ob(cls, ok and same, "all_ids() and collect_matches() use the same discard predicate",
           detail="kept in all_ids iff %s ; kept in collect_matches iff %s" % (a, b), loc=ai.loc)
    for f, e in keeps:
        bad = [t.split(".")[-1] for t in paths.bool_atoms(e, norm.canon) if t in ("self._allow", "self._restrict", "self.allow", "self.restrict")]
        ctx.ob(f, not bad, "presence of the allow/restrict set is tested with `is not None`",
               detail="truthiness test on %s: an empty set (a filter matching no document) disables the filter" % bad if bad else "")
    # prepare builds the sets under the same notion... a filter that is an empty *query* still yields a (possibly empty) set
    pr = cls.methods["prepare"]
    fpr = guards.Facts(pr)
    sets = {}
    for n_ in fpr.g.nodes:
        a_ = n_.ast
        if n_.kind == "stmt" and isinstance(a_, ast.Assign) and norm.canon(a_.targets[0]) in ("self._allow", "self._restrict"):
            facts = sorted(t for t in (fpr.at(n_) or []) if t[1] in ("self.allow", "self.restrict"))
            sets.setdefault(norm.canon(a_.targets[0]), set()).add((norm.deep_canon(a_.value, pr.node), tuple(facts)))
    want = {"self._allow": {("top_searcher._filter_to_comb(self.allow)", (("T", "self.allow"),)), ("None", (("F", "self.allow"),))},
            "self._restrict": {("top_searcher._filter_to_comb(self.restrict)", (("T", "self.restrict"),)), ("None", (("F", "self.restrict"),))}}
    # the conditional-expression form was normalised into the same two guarded assignments at load time
    ctx.ob(pr, sets == want,
           "prepare() converts the user's filter/mask objects into docnum sets (None when not given)")


@rule("C14", "R2", "K4", "len(results) reaches the outermost collector that changes the match set",
      min_instances=3,
      clause="Results.__len__ asks results.collector.count(); every wrapping collector that overrides count()/"
             "all_ids() (i.e. changes which documents match) re-points results.collector to itself in results(), as "
             "FilterCollector does; count() uses the child's count only under child.computes_count().")
def c14_r2(ctx):
    prog = ctx.prog
    wbase = prog.cls("collectors.WrappingCollector")
    rl = prog.method("searching.Results", "__len__", inherited=False)
    ctx.saw(rl)
    uses = [norm.canon(c) for c in norm.calls_in(rl.node)]
    ctx.ob(rl, "self.collector.count()" in uses, "Results.__len__ asks self.collector.count()", detail=str(uses))
    n = 0
    for cls in prog.subclasses(wbase, strict=True):
        if "count" not in cls.methods and "all_ids" not in cls.methods:
            continue
        n += 1
        res = prog.lookup(cls, "results")
        ctx.saw(res)
        repoint = any(isinstance(st, ast.Assign) and norm.canon(st.targets[0]).endswith(".collector") and norm.canon(st.value) == "self"
                      for st in ast.walk(res.node)) and res.cls is cls
        ctx.ob(cls, repoint, "%s.results() sets results.collector = self" % cls.name,
               detail="len(results) is answered by the child collector and ignores what %s removed" % cls.name if not repoint else "",
               loc=res.loc)
        cnt = cls.methods.get("count")
        if cnt is not None:
            fa = guards.Facts(cnt)
            for nd in fa.g.nodes:
                for frag in cfgmod.node_exprs(nd):
                    for c in norm.calls_in(frag):
                        if norm.canon(c, fa.al) == "self.child.count()":
                            facts = fa.at(nd) or frozenset()
                            ctx.ob(cnt, ("T", "self.child.computes_count()") in facts,
                                   "child.count() is used only when child.computes_count()", loc=ctx.nodeloc(cnt, c))
    if n < 2:
        raise AnalysisError("only %d match-set-changing wrapping collectors found" % n)
    # TopCollector: count() falls back to all_ids() when it skipped blocks
    tc = prog.method("collectors.TopCollector", "computes_count", inherited=False)
    rets = [norm.canon(r.value) for r in returns_of(tc)]
    ctx.ob(tc, rets == ["(not self._use_block_quality())"], "TopCollector computes the count itself only when it does not skip blocks",
           detail=str(rets))


@rule("C14", "R3", "K4", "sorted results are ordered by (sort key, document number) and sliced after sorting",
      min_instances=2,
      clause="SortingCollector records (sortkey, global_docnum) pairs, sorts the pairs (document order breaks ties), "
             "applies `reverse` to the sort and truncates to the limit only after sorting.")
def c14_r3(ctx):
    prog = ctx.prog
    cls = prog.cls("collectors.SortingCollector")
    co = cls.methods["collect"]
    ctx.saw(co)
    app = [norm.deep_canon(c.args[0], co.node) for c in norm.calls_in(co.node) if norm.call_name(c) == "append" and c.args]
    ctx.ob(co, len(app) == 1 and app[0].startswith("(") and app[0].endswith(", (self.offset + sub_docnum))"), "collect() appends (sortkey, global_docnum)", detail=str(app))
    ctx.ob(co, app == ["(self.sort_key(sub_docnum), (self.offset + sub_docnum))"], "the key comes from sort_key(sub_docnum) of the same document", detail=str(app))
    rs = cls.methods["results"]
    ctx.saw(rs)

    def classify(func, call, res, concrete):
        if norm.call_name(call) == "sort":
            return "sort"
        return None

    def stmt_event(func, node):
        a = node.ast
        if node.kind == "stmt" and isinstance(a, ast.Assign) and isinstance(a.value, ast.Subscript) and isinstance(a.value.slice, ast.Slice):
            return "slice"
        return None
    from ..traces import Tracer
    tr = Tracer(prog, calls_of(prog), classify, follow=lambda *a: [], stmt_event=stmt_event, max_depth=0)
    res = tr.traces(rs, None)
    bad = [t for t in res["normal"] if "sort" not in t or ("slice" in t and t.index("slice") < t.index("sort"))]
    ctx.ob(rs, bool(res["normal"]) and not bad, "results(): sort first, slice to the limit afterwards", detail=str(bad[:1]))
    sorts = [c for c in norm.calls_in(rs.node) if norm.call_name(c) == "sort"]
    rev = sorts and any(k.arg == "reverse" and norm.canon(k.value) == "self.reverse" for k in sorts[0].keywords) and \
        not any(k.arg == "key" for k in sorts[0].keywords)
    ctx.ob(rs, bool(rev), "items.sort(reverse=self.reverse) on the (key, docnum) pairs themselves")
    sk = cls.methods["sort_key"]
    rets = [norm.canon(r.value) for r in returns_of(sk)]
    ctx.ob(sk, rets == ["self.categorizer.key_for(self.matcher, sub_docnum)"], "sort_key asks the categorizer for this document's key", detail=str(rets))


@rule("C14", "R5", "K4", "collector stack: filtering wraps outermost; a page asks for pagenum * pagelen hits",
      min_instances=2,
      clause="Searcher.collector builds base collector, then facets, terms, collapse, and the filter collector last "
             "(so filtered documents never reach grouping/collapsing); search_page requests limit = pagenum * pagelen.")
def c14_r5(ctx):
    prog = ctx.prog
    f = prog.method("searching.Searcher", "collector", inherited=False)
    ctx.saw(f)
    order = []
    for st in f.node.body:
        for c in norm.calls_in(st):
            nm = norm.call_name(c)
            if nm and nm.endswith("Collector") and isinstance(st, ast.If):
                order.append(nm)
    wrap = [o for o in order if o in ("FacetCollector", "TermsCollector", "CollapseCollector", "FilterCollector")]
    ctx.ob(f, wrap == ["FacetCollector", "TermsCollector", "CollapseCollector", "FilterCollector"],
           "wrapping order is facets, terms, collapse, filter (outermost)", detail=str(wrap))
    fc = [c for c in norm.calls_in(f.node) if norm.call_name(c) == "FilterCollector"]
    ok = len(fc) == 1 and len(fc[0].args) == 3 and [norm.canon(a) for a in fc[0].args[1:]] == ["filter", "mask"] and \
        isinstance(fc[0].args[0], ast.Name) and fc[0].args[0].id not in f.params
    ctx.ob(f, ok, "FilterCollector(c, filter, mask): filter -> allow, mask -> restrict")
    init = prog.method("collectors.FilterCollector", "__init__", inherited=False)
    ctx.ob(init, init.params[1:4] == ["child", "allow", "restrict"], "FilterCollector(child, allow, restrict)")
    sp = prog.method("searching.Searcher", "search_page", inherited=False)
    ctx.saw(sp)
    lim = [norm.canon(st.value) for st in ast.walk(sp.node) if isinstance(st, ast.Assign) and
           (norm.canon(st.targets[0]) in ("kwargs['limit']", "limit"))]
    for c in norm.calls_in(sp.node):
        if norm.call_name(c) == "search":
            lim += [norm.canon(k.value) for k in c.keywords if k.arg == "limit"]
    ctx.ob(sp, any(l in ("(pagelen * pagenum)", "(pagenum * pagelen)") for l in lim), "search_page searches with limit = pagenum * pagelen",
           detail=str(lim))


@rule("C14", "R6", "K11", "what is cached per field does not depend on per-search parameters",
      min_instances=1,
      clause="Objects stored in searcher._field_caches[fieldname] are computed only from the field and the index: "
             "no constructor parameter other than the searcher and the cache key (e.g. `reverse`) flows into the block "
             "that builds the cached value.")
def c14_r6(ctx):
    prog = ctx.prog
    n = 0
    for f in prog.functions.values():
        if f.module.name not in ("whoosh.sorting", "whoosh.searching", "whoosh.reading"):
            continue
        fal = norm.aliases(f.node)
        for st in ast.walk(f.node):
            if not (isinstance(st, ast.Assign) and isinstance(st.targets[0], ast.Subscript)
                    and norm.canon(st.targets[0].value, fal).endswith("._field_caches")):
                continue
            n += 1
            ctx.saw(f)
            keynames = norm.names_in(st.targets[0].slice)
            owner = norm.canon(st.targets[0].value, fal).split(".")[0]
            params = set(f.params[1:]) - keynames - {owner}
            # self attributes assigned from those parameters
            tainted_attrs = set()
            for a in ast.walk(f.node):
                if isinstance(a, ast.Assign) and isinstance(a.value, ast.Name) and a.value.id in params:
                    for t in a.targets:
                        if isinstance(t, ast.Attribute) and norm.canon(t.value) == "self":
                            tainted_attrs.add(t.attr)
            # the block that builds the cached value: the statement list containing the store
            block = None
            for parent in ast.walk(f.node):
                for fld in ("body", "orelse"):
                    b = getattr(parent, fld, None)
                    if isinstance(b, list) and st in b:
                        block = b
            used = set()
            for s2 in block or []:
                for x in ast.walk(s2):
                    if isinstance(x, ast.Name) and isinstance(x.ctx, ast.Load) and x.id in params:
                        used.add(x.id)
                    if isinstance(x, ast.Attribute) and isinstance(x.ctx, ast.Load) and norm.canon(x.value) == "self" and x.attr in tainted_attrs:
                        used.add("self." + x.attr)
            ctx.ob(f, not used, "the cached value is built without per-search parameters",
                   detail="%s flows into the value cached under %s" % (sorted(used), norm.canon(st.targets[0])) if used else "",
                   loc=ctx.nodeloc(f, st))
    if n < 1:
        raise AnalysisError("no _field_caches store found")


@rule("C14", "R7", "K2", "a list read through its end as 'the worst kept entry' is only ever filled in sorted order",
      min_instances=1,
      clause="In CollapseCollector.collect_matches the per-key list whose last element is compared/popped as the "
             "least-good kept document receives new entries only through insort().")
def c14_r7(ctx):
    prog = ctx.prog
    f = prog.method("collectors.CollapseCollector", "collect_matches", inherited=False)
    ctx.saw(f)
    extremes = set()
    for n in ast.walk(f.node):
        if isinstance(n, ast.Subscript) and isinstance(n.value, ast.Name) and norm.canon(n.slice) in ("(-1)", "-1", "0"):
            extremes.add(n.value.id)
        if isinstance(n, ast.Call) and norm.call_name(n) == "pop" and isinstance(norm.receiver(n), ast.Name) and not n.args:
            extremes.add(norm.receiver(n).id)
    ctx.ob(f, bool(extremes), "a per-key list is read through its end", detail=str(sorted(extremes)))
    for name in sorted(extremes):
        adds = []
        for c in norm.calls_in(f.node):
            nm = norm.call_name(c)
            if nm in ("append", "insert", "extend") and isinstance(norm.receiver(c), ast.Name) and norm.receiver(c).id == name:
                adds.append(norm.canon(c))
            if nm in ("insort", "insort_right", "insort_left") and c.args and norm.canon(c.args[0]) == name:
                adds.append("insort")
        ctx.ob(f, bool(adds) and all(a == "insort" for a in adds), "`%s` is filled only with insort()" % name,
               detail="additions: %s" % adds)
    # the comparison that evicts: new key strictly better than the worst kept.  Whatever the shape of the branches (a flag,
    # nested ifs, early continue): the eviction runs only where `sortkey < best[-1][0]` is known, and the new entry is
    # inserted only where the list had room or that comparison held.
    A = pm.Alpha(f)
    ins = [c for c in norm.calls_in(f.node) if norm.call_name(c) == "insort"]
    ok = len(ins) == 1 and A.eq(ins[0], "insort(best, (sortkey, ANY))")
    detail = ""
    if ok:
        fa = guards.Facts(f)
        def fact_text(pattern):
            # the text under which the facts engine records a comparison matching `pattern` (any spelling of it)
            for x in ast.walk(f.node):
                if isinstance(x, ast.Compare):
                    _, e = guards.positive("T", x)
                    if A.eq(e, pattern, al=True):
                        return fa.textfn(e)
            return "<no test of %s>" % pattern
        better = fact_text("sortkey < best[-1][0]")
        room = fact_text("len(best) < ANY")
        pops = [c for c in norm.calls_in(f.node) if norm.call_name(c) == "pop" and A.eq(norm.receiver(c), "best")]
        ok = len(pops) == 1
        for c in pops:
            n = fa.node_of(c)
            alts = fa.alternatives(n) if n is not None else None
            if not alts or not all(("T", better) in alt for alt in alts):
                ok = False
                detail = "the worst kept entry is popped without knowing %s: %s" % (better, [sorted(a_) for a_ in alts or []][:3])
        n = fa.node_of(ins[0])
        alts = fa.alternatives(n) if n is not None else None
        if not alts or not all(("T", better) in alt or ("T", room) in alt for alt in alts):
            ok = False
            detail = detail or "an entry is inserted on a path with neither room (%s) nor a better key (%s): %s" % (
                room, better, [sorted(a_) for a_ in alts or [] if not (("T", better) in a_ or ("T", room) in a_)][:3])
    ctx.ob(f, ok, "a kept document is evicted only for a strictly smaller sort key", detail=detail)


MUST_CONSULT = {
    # (function, parameter): why every result-producing path has to look at it
    ("reading.SegmentReader.column_reader", "reverse"): "the sort keys (and the default key of a segment without the column) flip with it",
    ("reading.SegmentReader.column_reader", "translate"): "a segment without the column file must hand out the field-level default (from_column_value of the column "
                                                          "default), like every other document that supplies no value",
}


@rule("C14", "R8", "K9", "ordering flags reach every path; a clamped page number replaces the raw one",
      min_instances=3, also=("C08",),
      clause="On every path of SegmentReader.column_reader / MultiReader.column_reader that returns a reader, the `reverse` "
             "parameter is read (tested or passed on) -- also on the path for a segment that lacks the column file; in "
             "ResultsPage.__init__ the requested page number is not read again after it was clamped into self.pagenum "
             "(offset and length derive from the clamped value).")
def c14_r8(ctx):
    prog = ctx.prog
    for (fn, param), why in MUST_CONSULT.items():
        f = prog.func(fn)
        ctx.saw(f)
        if param not in f.params:
            raise AnalysisError("%s lost its %s parameter" % (fn, param))
        g = cfgmod.cfg_of(f)

        def reads(n_, _p=param):
            return any(isinstance(x, ast.Name) and x.id == _p and isinstance(x.ctx, ast.Load)
                       for frag in cfgmod.node_exprs(n_) for x in ast.walk(frag))
        bad = None
        if not reads(g.entry):
            pth = cfgmod.find_path(g, g.entry, lambda n_: n_.kind == "return" and n_.ast.value is not None and not reads(n_), avoid_pred=reads)
            if pth is not None:
                bad = pth
        ctx.ob(f, bad is None, "`%s` is consulted on every path that returns a reader" % param,
               detail="%s; a path ignores it" % why if bad else "", path=cfgmod.path_text(bad) if bad else None)
    mr = prog.method("reading.MultiReader", "column_reader", inherited=False)
    ctx.saw(mr)
    subs = [c for c in norm.calls_in(mr.node) if norm.call_name(c) == "column_reader"]
    okf = bool(subs)
    for c in subs:
        m_, probs = bind_args(c, mr)
        okf = okf and bool(m_) and all(norm.canon(m_.get(p_)) == p_ for p_ in ("fieldname", "column", "reverse", "translate") if p_ in mr.params)
    ctx.ob(mr, okf, "MultiReader.column_reader hands fieldname, column, reverse and translate to every sub-reader unchanged")
    rp = prog.method("searching.ResultsPage", "__init__", inherited=False)
    ctx.saw(rp)
    pn = rp.params[2] if len(rp.params) > 2 else None
    # forward substitution: what self.pagenum and self.offset hold at the end, in terms of the parameters
    env, _ = cases.symbolic(rp.node)
    env = env or {}
    clamped = env.get("self.pagenum", cases.UNKNOWN)
    off = env.get("self.offset", cases.UNKNOWN)
    ok = False
    detail = "self.pagenum = %s; self.offset = %s" % (clamped[-1], off[-1])
    if pn and clamped[0] == "sym" and off[0] == "sym" and clamped[1].startswith("min(") and pn in norm.names_in(norm.parse_expr(clamped[1])):
        rest = off[1].replace(clamped[1], "CLAMPED")
        ok = "CLAMPED" in rest and pn not in norm.names_in(norm.parse_expr(rest))
        if not ok:
            detail = "the offset is computed from the raw `%s`, not from the clamped value: %s" % (pn, detail)
    ctx.ob(rp, ok, "offset and length are computed from the clamped self.pagenum", detail=detail)


PER_SEGMENT_HOOKS = ("set_searcher", "set_subsearcher")


@rule("C14", "R9", "K1", "per-segment state is rebuilt for every segment, never kept because it looks big enough",
      min_instances=8, also=("C06",),
      clause="In every set_searcher()/set_subsearcher() (called once per segment by the collector) no assignment to self.X sits under a "
             "test that reads self.X: whether the state of the previous segment is replaced must not depend on that state "
             "(a buffer re-allocated only when too small keeps the previous segment's entries).")
def c14_r9(ctx):
    prog = ctx.prog
    n = 0
    for f in prog.functions.values():
        if f.name not in PER_SEGMENT_HOOKS or f.cls is None or is_abstract_body(f):
            continue
        n += 1
        ctx.saw(f)
        bad = []

        def walk(stmts, conds):
            for st in stmts:
                if isinstance(st, ast.Assign):
                    for t in st.targets:
                        if isinstance(t, ast.Attribute) and isinstance(t.value, ast.Name) and t.value.id == "self":
                            me = "self." + t.attr
                            for c in conds:
                                if any(isinstance(x, ast.Attribute) and norm.canon(x) == me for x in ast.walk(c)):
                                    bad.append((me, st.lineno, norm.canon(c)))
                if isinstance(st, (ast.If, ast.While)):
                    walk(st.body, conds + [st.test])
                    walk(st.orelse, conds + [st.test])
                elif isinstance(st, (ast.For, ast.With, ast.Try)):
                    for fld in ("body", "orelse", "finalbody"):
                        walk(getattr(st, fld, []) or [], conds)
                    for h in getattr(st, "handlers", []):
                        walk(h.body, conds)
        walk(f.node.body, [])
        ctx.ob(f, not bad, "no per-segment attribute is re-initialised only under a test of its own old value",
               detail="; ".join("%s (line %d) under `%s`" % b for b in bad[:3]))
    if n < 8:
        raise AnalysisError("only %d per-segment hooks found" % n)


@rule("C14", "R10", "K1", "a per-search counter survives the segment boundaries",
      min_instances=1,
      clause="For every collector class: an attribute that prepare() (run once per search) sets to 0 and a per-segment method "
             "(collect_matches, collect, set_subsearcher, finish is excluded) stores again must be stored as an accumulation -- "
             "`self.a += n`, an expression that reads self.a, or a local whose only plain binding in the method is `v = self.a` (every "
             "other change being an augmented assignment). Re-starting it from a constant reports the last segment's count for the whole "
             "search (Results.filtered_count, collapsed counts).")
def c14_r10(ctx):
    prog = ctx.prog
    base = prog.cls("collectors.Collector")
    n = 0
    for K in [base] + prog.subclasses(base, strict=True):
        prep = K.methods.get("prepare")
        if prep is None:
            continue
        counters = set()
        for st in ast.walk(prep.node):
            if isinstance(st, ast.Assign) and isinstance(st.value, ast.Constant) and st.value.value == 0 and not isinstance(st.value.value, bool):
                for t in st.targets:
                    if norm.canon(t).startswith("self.") and isinstance(t, ast.Attribute):
                        counters.add(t.attr)
        for m in ("collect_matches", "collect", "set_subsearcher"):
            f = K.methods.get(m)
            if f is None:
                continue
            an = norm.assigned_names(f.node)
            for st in ast.walk(f.node):
                if isinstance(st, ast.AugAssign) and isinstance(st.target, ast.Attribute) and norm.canon(st.target.value) == "self" \
                        and st.target.attr in counters:
                    n += 1
                    ctx.saw(f)
                    ctx.ob(f, True, "self.%s is accumulated in place" % st.target.attr, loc=ctx.nodeloc(f, st))
                if not isinstance(st, ast.Assign):
                    continue
                for t in st.targets:
                    if not (isinstance(t, ast.Attribute) and norm.canon(t.value) == "self" and t.attr in counters):
                        continue
                    n += 1
                    ctx.saw(f)
                    me = "self." + t.attr
                    reads_self = any(norm.canon(x) == me for x in ast.walk(st.value) if isinstance(x, ast.Attribute))
                    ok = reads_self
                    if not ok:
                        locs = [x.id for x in ast.walk(st.value) if isinstance(x, ast.Name)]
                        for v in locs:
                            defs = [d for d in an.get(v, [])]
                            plain = [d for d in defs if d is not None]
                            if plain and all(isinstance(d, ast.Attribute) and norm.canon(d) == me for d in plain):
                                ok = True
                    ctx.ob(f, ok, "self.%s is stored as an accumulation of its previous value" % t.attr,
                           detail="stored value `%s` does not start from self.%s: the count of the last segment replaces the total"
                                  % (norm.canon(st.value), t.attr) if not ok else "", loc=ctx.nodeloc(f, st))
    if n < 1:
        raise AnalysisError("no per-search counter stored by a per-segment collector method")


@rule("C14", "R11", "K9", "the collector chain a search builds has at most one layer that drives the documents itself",
      min_instances=1,
      clause="A wrapping collector composes with the layers below it through collect(): WrappingCollector.collect_matches() walks "
             "matches() and calls self.collect(). A wrapper that overrides collect_matches() and feeds child.collect() itself (filtering, "
             "collapsing) takes the documents past every collect_matches() below it. So among the wrappers Searcher.collector() can "
             "stack in one chain, at most one is such a driver -- otherwise the inner driver's logic silently never runs.")
def c14_r11(ctx):
    prog = ctx.prog
    W = prog.cls("collectors.WrappingCollector")
    drivers = set()
    for K in prog.subclasses(W, strict=True):
        f = K.methods.get("collect_matches")
        if f is None:
            continue
        al = norm.aliases(f.node)
        if any(norm.canon(c.func, al) in ("self.child.collect", "child.collect") for c in norm.calls_in(f.node)):
            drivers.add(K.name)
    if len(drivers) < 1:
        raise AnalysisError("no driving wrapper collector found")
    f = prog.method("searching.Searcher", "collector", inherited=False)
    ctx.saw(f)
    stacked = []
    fpos = norm.source_pos(f.node)
    for st in ast.walk(f.node):
        if isinstance(st, ast.Assign) and isinstance(st.value, ast.Call) and norm.call_name(st.value) in drivers and st.value.args \
                and isinstance(st.value.args[0], ast.Name) and any(isinstance(t, ast.Name) and t.id == st.value.args[0].id for t in st.targets):
            stacked.append((fpos(st), norm.call_name(st.value), st))
    stacked.sort()
    if not stacked:
        raise AnalysisError("Searcher.collector() stacks no driving wrapper any more")
    ctx.ob(f, True, "driving wrappers stacked by Searcher.collector(): %s" % [n for _, n, _ in stacked])
    for i, (_, name, st) in enumerate(stacked):
        inner = [n for _, n, _ in stacked[:i]]
        ctx.ob(f, not inner, "%s is the only layer of its chain that feeds child.collect() itself" % name,
               detail="it is stacked on top of %s: that layer's collect_matches() never runs when both options are given" % ", ".join(inner) if inner else "",
               loc=ctx.nodeloc(f, st))
