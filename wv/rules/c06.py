"""C06 -- segment layout is invisible: merge and optimize preserve all logical content.

C06 also runs C08-R5 (per-row copy of lengths, vectors and column values during a merge).
"""

import ast

from ..report import rule
from .. import norm, cfg as cfgmod, guards
from ..model import AnalysisError
from .common import calls_of, find_calls, returns_of, is_abstract_body, bind_args

OFFSET_BUILDERS = [
    ("reading.MultiReader.__init__", "self.readers", "self.doc_offsets", "doc_count_all"),
    ("codec.base.MultiPerDocumentReader.__init__", "readers", "self._doc_offsets", "doc_count_all"),
    ("writing.SegmentWriter._setup_doc_offsets", "self.segments", "self._doc_offsets", "doc_count_all"),
]
LOCATORS = ["reading.MultiReader._document_segment", "codec.base.MultiPerDocumentReader._document_reader",
            "columns.MultiColumnReader._document_reader", "writing.SegmentWriter._document_segment"]


@rule("C06", "R1", "K11", "merging renumbers documents consistently for per-document data and postings",
      min_instances=4, also=("C18",),
      clause="write_per_doc builds a docmap iff the source has deletions and records docmap[old] = new before "
             "advancing; _process_posts maps through docmap when present, else startdoc + docnum; add_reader captures "
             "the base document number before copying per-document data and passes that base and the returned docmap "
             "to the postings copy; the multi-process merge does the same per sub-segment.")
def c06_r1(ctx):
    prog = ctx.prog
    wp = prog.method("writing.SegmentWriter", "write_per_doc", inherited=False)
    ctx.saw(wp)
    fa = guards.Facts(wp)
    dm_defs = {}
    for n in fa.g.nodes:
        a = n.ast
        if n.kind == "stmt" and isinstance(a, ast.Assign) and norm.canon(a.targets[0]) == "docmap":
            dm_defs[norm.canon(a.value)] = sorted(fa.at(n) or [])
    ctx.ob(wp, dm_defs.get("{}") == [("T", "reader.has_deletions()")] and dm_defs.get("None") == [("F", "reader.has_deletions()")],
           "docmap = {} iff reader.has_deletions(), else None", detail=str(dm_defs))
    # docmap[docnum] = self.docnum  before  self.docnum += 1
    order = []
    for st in ast.walk(wp.node):
        if isinstance(st, ast.Assign) and norm.canon(st.targets[0]) == "docmap[docnum]":
            order.append(("map", norm.canon(st.value), st.lineno))
        if isinstance(st, ast.AugAssign) and norm.canon(st.target) == "self.docnum":
            order.append(("inc", norm.canon(st.value), st.lineno))
        if isinstance(st, ast.Call) and norm.call_name(st) == "start_doc":
            order.append(("start", norm.canon(st.args[0]) if st.args else "", st.lineno))
    order.sort(key=lambda x: x[2])
    kinds = [(k, v) for k, v, _ in order]
    ctx.ob(wp, kinds == [("map", "self.docnum"), ("start", "self.docnum"), ("inc", "1")],
           "per document: docmap[old] = self.docnum, start_doc(self.docnum), then self.docnum += 1", detail=str(kinds))
    rets = [norm.canon(r.value) for r in returns_of(wp)]
    ctx.ob(wp, rets == ["docmap"], "write_per_doc returns the docmap", detail=str(rets))
    pp = prog.method("writing.SegmentWriter", "_process_posts", inherited=False)
    ctx.saw(pp)
    fa2 = guards.Facts(pp)
    nd = {}
    for n in fa2.g.nodes:
        a = n.ast
        if n.kind == "stmt" and isinstance(a, ast.Assign) and norm.canon(a.targets[0]) == "newdoc":
            nd[norm.canon(a.value)] = sorted(t for t in (fa2.at(n) or []) if "docmap" in t[1])
    ctx.ob(pp, nd.get("docmap[docnum]") == [("T", "(None is not docmap)")] and nd.get("(docnum + startdoc)") == [("F", "(None is not docmap)")],
           "postings are renumbered through docmap when it exists, else by startdoc + docnum", detail=str(nd))
    ys = [norm.canon(y.value) for y in ast.walk(pp.node) if isinstance(y, ast.Yield)]
    ctx.ob(pp, ys == ["(fieldname, text, newdoc, weight, vbytes)"], "the renumbered posting keeps field, text, weight and value", detail=str(ys))
    ar = prog.method("writing.SegmentWriter", "add_reader", inherited=False)
    ctx.saw(ar)
    seq = []
    for st in ar.node.body:
        t = norm.stmt_text(st)
        if "basedoc = self.docnum" in t:
            seq.append("base")
        if "self.write_per_doc(" in t:
            seq.append("perdoc:" + norm.canon(st.targets[0]) if isinstance(st, ast.Assign) else "perdoc")
        if "self.add_postings_to_pool(" in t:
            c = [x for x in norm.calls_in(st) if norm.call_name(x) == "add_postings_to_pool"][0]
            seq.append("posts:" + ",".join(norm.canon(a) for a in c.args))
    ctx.ob(ar, seq == ["base", "perdoc:docmap", "posts:reader,basedoc,docmap"],
           "add_reader: basedoc captured first, then per-doc copy, then postings with (reader, basedoc, docmap)", detail=str(seq))
    ms = prog.method("multiproc.MpWriter", "_merge_subsegments", inherited=False)
    ctx.saw(ms)
    loop = [n for n in ast.walk(ms.node) if isinstance(n, ast.For) and "results" in norm.canon(n.iter)]
    ok = False
    if loop:
        seq = []
        for st in loop[0].body:
            t = norm.stmt_text(st)
            if t.startswith("basedoc = self.docnum"):
                seq.append("base")
            if "self.write_per_doc(" in t:
                seq.append("perdoc")
            if "_read_and_renumber_run(" in t:
                c = [x for x in norm.calls_in(st) if norm.call_name(x) == "_read_and_renumber_run"][0]
                seq.append("run:" + ",".join(norm.canon(a) for a in c.args))
        ok = seq == ["base", "perdoc", "run:runname,basedoc"]
    ctx.ob(ms, ok, "per sub-segment: basedoc captured before write_per_doc; the run is renumbered by that basedoc")
    # the parent's own documents are numbered first, so its per-document reader must be first in the combined reader
    own = [c for c in norm.calls_in(ms.node) if norm.call_name(c) in ("insert", "append") and
           norm.canon(norm.receiver(c)) == "pdrs" and "self.per_document_reader()" in norm.canon(c)]
    ctx.ob(ms, len(own) == 1 and norm.call_name(own[0]) == "insert" and norm.canon(own[0].args[0]) == "0",
           "the parent writer's per-document reader is placed first (its documents have the lowest numbers)",
           detail=str([norm.canon(c) for c in own]))
    rr = prog.method("multiproc.MpWriter", "_read_and_renumber_run", inherited=False)
    gens = [norm.canon(n.elt) for n in ast.walk(rr.node) if isinstance(n, ast.GeneratorExp)]
    ctx.ob(rr, gens == ["(fname, text, (docnum + offset), weight, value)"], "runs are renumbered by adding the offset to the docnum element only",
           detail=str(gens))


@rule("C06", "R2", "K11", "merge policies partition the segment list: merged away or kept, never both or neither",
      min_instances=3,
      clause="In every shipped merge policy each input segment is either handed to writer.add_reader (and absent from "
             "the returned list) or returned unchanged; commit() appends the new segment to exactly the returned list.")
def c06_r2(ctx):
    prog = ctx.prog
    for name in ("NO_MERGE", "MERGE_SMALL", "OPTIMIZE", "CLEAR"):
        f = prog.func("writing." + name)
        ctx.saw(f)
        rets = [norm.canon(r.value) for r in returns_of(f)]
        merged = [norm.canon(c) for c in norm.calls_in(f.node) if norm.call_name(c) == "add_reader"]
        if name == "NO_MERGE":
            ctx.ob(f, rets == ["segments"] and not merged, "returns the list unchanged and merges nothing")
        elif name == "CLEAR":
            ctx.ob(f, rets == ["[]"] and not merged, "drops every segment (documented: DELETES all existing segments)")
        elif name == "OPTIMIZE":
            loops = [norm.canon(n.iter) for n in ast.walk(f.node) if isinstance(n, ast.For)]
            ctx.ob(f, rets == ["[]"] and loops == ["segments"] and len(merged) == 1, "merges every segment and returns none",
                   detail="loops %s returns %s" % (loops, rets))
        else:
            # MERGE_SMALL: each segment is appended to exactly one of the two lists
            fa = guards.Facts(f)
            apps = {}
            for n in fa.g.nodes:
                for frag in cfgmod.node_exprs(n):
                    for c in norm.calls_in(frag):
                        if norm.call_name(c) == "append" and norm.canon(norm.receiver(c)) in ("unchanged_segments", "segments_to_merge"):
                            apps[norm.canon(norm.receiver(c))] = sorted(t for t in (fa.at(n) or []) if "merge_point_found" in t[1])
            excl = apps.get("unchanged_segments") == [("T", "merge_point_found")] and apps.get("segments_to_merge") == [("F", "merge_point_found")]
            ctx.ob(f, excl, "each segment goes to exactly one of unchanged_segments / segments_to_merge", detail=str(apps))
            # merged ones are the ones passed to add_reader; return unchanged (or everything when nothing is merged)
            fa_ret = {}
            for n in fa.g.nodes:
                if n.kind == "return":
                    fa_ret[norm.canon(n.ast.value)] = sorted(t for t in (fa.at(n) or []) if "merge_point_found" in t[1] or "segments_to_merge" in t[1])
            loops = [norm.canon(n.iter) for n in ast.walk(f.node) if isinstance(n, ast.For) and any(norm.call_name(c) == "add_reader" for c in norm.calls_in(n))]
            ok = loops == ["segments_to_merge"] and set(fa_ret) == {"unchanged_segments", "segments"} and \
                any(p == "T" for (p, t) in fa_ret["unchanged_segments"])
            ctx.ob(f, ok, "exactly segments_to_merge is merged; unchanged_segments is returned then, otherwise the whole input",
                   detail="merge loop over %s; returns %s" % (loops, fa_ret))
            src = [norm.canon(n.iter) for n in ast.walk(f.node) if isinstance(n, ast.For) and "sorted_segment_list" in norm.canon(n.iter)]
            srt = [norm.canon(st.value) for st in ast.walk(f.node) if isinstance(st, ast.Assign) and norm.canon(st.targets[0]) == "sorted_segment_list"]
            ctx.ob(f, bool(src) and bool(srt) and srt[0].startswith("sorted(segments"), "the partition ranges over all input segments", detail=str(srt))
    cm = prog.method("writing.SegmentWriter", "commit", inherited=False)
    txt = norm.stmt_text(cm.node)
    ctx.ob(cm, "finalsegments = self._merge_segments(mergetype, optimize, merge)" in txt and
           "finalsegments.append(self._finalize_segment())" in txt and "self._commit_toc(finalsegments)" in txt,
           "commit publishes the policy's kept segments plus the new segment")
    mg = prog.method("writing.SegmentWriter", "_merge_segments", inherited=False)
    rets = [norm.canon(r.value) for r in returns_of(mg)]
    ctx.ob(mg, rets == ["mergetype(self, self.segments)"], "the policy is applied to this writer and its segment list", detail=str(rets))


@rule("C06", "R3", "K4", "every multi-segment view numbers documents by the same recurrence over ALL documents",
      min_instances=6, also=("C07",),
      clause="MultiReader, MultiPerDocumentReader and the writer's doc offsets append the running base and then add "
             "doc_count_all() (deleted documents included) for every segment unconditionally; a document is located "
             "with bisect_right(offsets, n) - 1.")
def c06_r3(ctx):
    prog = ctx.prog
    for fn, coll, offs, counter in OFFSET_BUILDERS:
        f = prog.func(fn)
        ctx.saw(f)
        loops = [n for n in ast.walk(f.node) if isinstance(n, ast.For) and norm.canon(n.iter) == coll]
        ok = False
        detail = ""
        if len(loops) == 1:
            lp = loops[0]
            body = [norm.stmt_text(s_) for s_ in lp.body]
            v = norm.canon(lp.target)
            apps = [s_ for s_ in lp.body if isinstance(s_, ast.Expr) and isinstance(s_.value, ast.Call) and norm.call_name(s_.value) == "append"
                    and norm.canon(norm.receiver(s_.value)) == offs]
            incs = [s_ for s_ in lp.body if isinstance(s_, ast.AugAssign) and isinstance(s_.op, ast.Add)]
            ok = len(lp.body) == 2 and len(apps) == 1 and len(incs) == 1 and lp.body[0] is apps[0] and \
                norm.canon(apps[0].value.args[0]) == norm.canon(incs[0].target) and \
                norm.canon(incs[0].value) == "%s.%s()" % (v, counter)
            detail = " ; ".join(body)
        ctx.ob(f, ok, "for each element: offsets.append(base); base += element.%s()  (unconditionally)" % counter, detail=detail)
    for fn in LOCATORS:
        f = prog.func(fn)
        ctx.saw(f)
        rets = [norm.canon(r.value) for r in returns_of(f) if r.value is not None]
        ok = any("bisect_right(" in r and "- 1)" in r for r in rets)
        ctx.ob(f, ok, "locates a document with bisect_right(offsets, docnum) - 1", detail=str(rets))
    mcr = prog.method("columns.MultiColumnReader", "__init__", inherited=False)
    txt = norm.stmt_text(mcr.node)
    ctx.ob(mcr, "self._doc_offsets.append(self._doccount)" in txt and "self._doccount += len(r)" in txt and "self._doc_offsets = offsets" in txt,
           "MultiColumnReader uses the caller's offsets or the same recurrence over its readers' lengths")


@rule("C06", "R4", "K2", "a document group is never split across sub-writers",
      min_instances=1, also=("C18",),
      clause="MpWriter.add_document flushes the buffered documents to a job only while no group is open "
             "(_grouping == 0), so a group travels to one sub-writer as one batch.")
def c06_r4(ctx):
    prog = ctx.prog
    f = prog.method("multiproc.MpWriter", "add_document", inherited=False)
    ctx.saw(f)
    fa = guards.Facts(f)
    sites = []
    for n in fa.g.nodes:
        for frag in cfgmod.node_exprs(n):
            for c in norm.calls_in(frag):
                if norm.call_name(c) == "_enqueue":
                    sites.append(sorted(fa.at(n) or []))
    ctx.ob(f, len(sites) == 1 and ("F", "self._grouping") in sites[0], "_enqueue() is called only when no group is open", detail=str(sites))
    sg = prog.method("multiproc.MpWriter", "start_group", inherited=False)
    eg = prog.method("multiproc.MpWriter", "end_group", inherited=False)
    ctx.ob(sg, "self._grouping += 1" in norm.stmt_text(sg.node) and "self._grouping -= 1" in norm.stmt_text(eg.node),
           "start_group/end_group count nesting in _grouping")
