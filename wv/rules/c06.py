"""C06 -- segment layout is invisible: merge and optimize preserve all logical content.

C06 also runs C08-R5 (per-row copy of lengths, vectors and column values during a merge).
"""

import ast

from ..report import rule
from .. import pm, norm, cfg as cfgmod, guards
from ..model import AnalysisError
from .common import calls_of, find_calls, returns_of, is_abstract_body, bind_args

OFFSET_BUILDERS = [
    ("reading.MultiReader.__init__", "self.readers", "self.doc_offsets", "doc_count_all"),
    ("codec.base.MultiPerDocumentReader.__init__", "readers", "self._doc_offsets", "doc_count_all"),
    ("writing.SegmentWriter._setup_doc_offsets", "self.segments", "self._doc_offsets", "doc_count_all"),
]
LOCATOR_CLASSES = ["reading.MultiReader", "codec.base.MultiPerDocumentReader", "columns.MultiColumnReader", "writing.SegmentWriter"]


@rule("C06", "R1", "K11", "merging renumbers documents consistently for per-document data and postings",
      min_instances=4, also=("C18",),
      clause="write_per_doc builds a docmap iff the source has deletions and records docmap[old] = new before "
             "advancing; _process_posts maps through docmap when present, else startdoc + docnum; add_reader captures "
             "the base document number before copying per-document data and passes that base and the returned docmap "
             "to the postings copy; the multi-process merge does the same per sub-segment.")
def c06_r1(ctx):
    prog = ctx.prog
    wp = prog.method("writing.SegmentWriter", "write_per_doc", inherited=False)
    ctx.saw(wp)
    A = pm.Alpha(wp)
    fa = guards.Facts(wp)
    dm_defs = {}
    for n in fa.g.nodes:
        a = n.ast
        if n.kind == "stmt" and isinstance(a, ast.Assign):
            for val in ("{}", "None"):
                if A.eq(a, "docmap = %s" % val):
                    dm_defs[val] = sorted(fa.at(n) or [])
    ctx.ob(wp, dm_defs.get("{}") == [("T", "reader.has_deletions()")] and dm_defs.get("None") == [("F", "reader.has_deletions()")],
           "docmap = {} iff reader.has_deletions(), else None", detail=str(dm_defs))
    # docmap[docnum] = self.docnum  before  self.docnum += 1
    order = []
    loops = [lp for lp in ast.walk(wp.node) if isinstance(lp, ast.For) and A.eq(lp.iter, "reader.iter_docs()")]
    if len(loops) == 1 and isinstance(loops[0].target, ast.Tuple) and isinstance(loops[0].target.elts[0], ast.Name):
        A.eq(loops[0].target.elts[0], "docnum")
    # positions in source order of the (possibly inlined) tree: line numbers of inlined helper bodies are not comparable
    seqno = {}

    def _number(n_):
        seqno[id(n_)] = len(seqno)
        for ch in ast.iter_child_nodes(n_):
            _number(ch)
    _number(wp.node)

    def pos(n_):
        return seqno.get(id(n_), 10 ** 9)
    # a local holding the current number (`newdoc = self.docnum` at the top of the iteration) stands for it until the advance
    cur = {}
    an = norm.assigned_names(wp.node)
    for name, vals in an.items():
        if len(vals) == 1 and vals[0] is not None and norm.canon(vals[0]) == "self.docnum":
            cur[name] = vals[0]

    def cv(e):
        return norm.canon(norm.substitute(e, cur)) if cur else norm.canon(e)
    for st in ast.walk(wp.node):
        if isinstance(st, ast.Assign) and isinstance(st.targets[0], ast.Subscript) and A.eq(st.targets[0], "docmap[docnum]"):
            order.append(("map", cv(st.value), pos(st)))
        if isinstance(st, ast.AugAssign) and norm.canon(st.target) == "self.docnum":
            order.append(("inc", norm.canon(st.value), pos(st)))
        if isinstance(st, ast.Assign) and any(norm.canon(t) == "self.docnum" for t in st.targets):
            v = cv(st.value)
            order.append(("inc", "1", pos(st)) if v in ("(self.docnum + 1)", "(1 + self.docnum)") else ("set", v, pos(st)))
        if isinstance(st, ast.Assign) and len(st.targets) == 1 and isinstance(st.targets[0], ast.Name) and st.targets[0].id in cur:
            order.append(("cur", "", pos(st)))
        if isinstance(st, ast.Call) and norm.call_name(st) == "start_doc":
            order.append(("start", cv(st.args[0]) if st.args else "", pos(st)))
    while order and sorted(order, key=lambda x: x[2])[0][0] == "cur":
        order.remove(sorted(order, key=lambda x: x[2])[0])
    order.sort(key=lambda x: x[2])
    kinds = [(k, v) for k, v, _ in order]
    ctx.ob(wp, kinds == [("map", "self.docnum"), ("start", "self.docnum"), ("inc", "1")],
           "per document: docmap[old] = self.docnum, start_doc(self.docnum), then self.docnum += 1", detail=str(kinds))
    rets = [r.value for r in returns_of(wp)]
    ctx.ob(wp, len(rets) == 1 and A.eq(rets[0], "docmap"), "write_per_doc returns the docmap", detail=str([norm.canon(r) for r in rets]))
    pp = prog.method("writing.SegmentWriter", "_process_posts", inherited=False)
    ctx.saw(pp)
    B = pm.Alpha(pp)
    fa2 = guards.Facts(pp)
    nd = {}
    for n in fa2.g.nodes:
        a = n.ast
        if n.kind == "stmt" and isinstance(a, ast.Assign):
            for val in ("docmap[docnum]", "docnum + startdoc"):
                if B.eq(a, "newdoc = %s" % val):
                    nd[val] = sorted(t for t in (fa2.at(n) or []) if "docmap" in t[1])
    ys = [y.value for y in ast.walk(pp.node) if isinstance(y, ast.Yield)]
    unswitched = None
    if not nd and len(ys) == 1 and isinstance(ys[0], ast.Tuple) and len(ys[0].elts) == 5:
        # second spelling (loop unswitching): the translation is chosen once, before the loop, as a callable --
        #     if docmap is None: def r(d): return startdoc + d      else: r = docmap.__getitem__
        # and the loop yields r(docnum).  Read the two bindings of the callable back into the two guarded expressions.
        e = ys[0].elts[2]
        if isinstance(e, ast.Call) and isinstance(e.func, ast.Name) and len(e.args) == 1 and not e.keywords:
            rname, arg = e.func.id, e.args[0]
            parents = {}
            for p_ in ast.walk(pp.node):
                for ch in ast.iter_child_nodes(p_):
                    parents[id(ch)] = p_

            def guard_of(st):
                par = parents.get(id(st))
                if isinstance(par, ast.If):
                    pol = "T" if st in par.body else "F"
                    return sorted((pl, norm.canon(a_)) for pl, a_ in guards.atoms(par.test, pol) if "docmap" in norm.canon(a_))
                return None
            for st in ast.walk(pp.node):
                val = None
                if isinstance(st, ast.FunctionDef) and st is not pp.node and st.name == rname and len(st.args.args) == 1 \
                        and len(st.body) == 1 and isinstance(st.body[0], ast.Return) and st.body[0].value is not None:
                    val = norm.substitute(st.body[0].value, {st.args.args[0].arg: arg})
                elif isinstance(st, ast.Assign) and len(st.targets) == 1 and isinstance(st.targets[0], ast.Name) \
                        and st.targets[0].id == rname:
                    v = st.value
                    if isinstance(v, ast.Attribute) and v.attr == "__getitem__":
                        val = ast.Subscript(value=v.value, slice=arg, ctx=ast.Load())
                    elif isinstance(v, ast.Lambda) and len(v.args.args) == 1:
                        val = norm.substitute(v.body, {v.args.args[0].arg: arg})
                if val is not None:
                    for form in ("docmap[docnum]", "docnum + startdoc"):
                        if B.eq(val, form):
                            nd[form] = guard_of(st)
            if nd:
                unswitched = e
    ctx.ob(pp, nd.get("docmap[docnum]") == [("F", "(None is docmap)")] and nd.get("docnum + startdoc") == [("T", "(None is docmap)")],
           "postings are renumbered through docmap when it exists, else by startdoc + docnum", detail=str(nd))
    if unswitched is not None:
        ys = [ast.Tuple(elts=ys[0].elts[:2] + [ast.Name(id="newdoc", ctx=ast.Load())] + ys[0].elts[3:], ctx=ast.Load())]
    lps = [lp for lp in ast.walk(pp.node) if isinstance(lp, ast.For) and B.eq(lp, "for fieldname, text, docnum, weight, vbytes in items: ANY")] if False else \
        [lp for lp in ast.walk(pp.node) if isinstance(lp, ast.For) and B.eq(lp.iter, "items") and B.eq(lp.target, "(fieldname, text, docnum, weight, vbytes)")]
    ctx.ob(pp, len(ys) == 1 and len(lps) == 1 and B.eq(ys[0], "(fieldname, text, newdoc, weight, vbytes)"),
           "the renumbered posting keeps field, text, weight and value", detail=str([norm.canon(y) for y in ys]))
    ar = prog.method("writing.SegmentWriter", "add_reader", inherited=False)
    ctx.saw(ar)
    C = pm.Alpha(ar)
    seq = []
    for st in ar.node.body:
        t = norm.stmt_text(st)
        if C.eq(st, "basedoc = self.docnum"):
            seq.append("base")
        if "self.write_per_doc(" in t:
            seq.append("perdoc:docmap" if C.eq(st, "docmap = self.write_per_doc(ANY, reader)") else "perdoc")
        if "self.add_postings_to_pool(" in t:
            seq.append("posts:reader,basedoc,docmap" if C.eq(st, "self.add_postings_to_pool(reader, basedoc, docmap)") else "posts:" + C.text(st))
    ctx.ob(ar, seq == ["base", "perdoc:docmap", "posts:reader,basedoc,docmap"],
           "add_reader: basedoc captured first, then per-doc copy, then postings with (reader, basedoc, docmap)", detail=str(seq))
    ms = prog.method("multiproc.MpWriter", "_merge_subsegments", inherited=False)
    ctx.saw(ms)
    D = pm.Alpha(ms)
    loop = [n for n in ast.walk(ms.node) if isinstance(n, ast.For) and "results" in norm.canon(n.iter)]
    ok = False
    if loop:
        seq = []
        for st in loop[0].body:
            t = norm.stmt_text(st)
            if D.eq(st, "basedoc = self.docnum"):
                seq.append("base")
            if "self.write_per_doc(" in t:
                seq.append("perdoc")
            if "_read_and_renumber_run(" in t:
                c = [x for x in norm.calls_in(st) if norm.call_name(x) == "_read_and_renumber_run"][0]
                seq.append("run:runname,basedoc" if len(c.args) == 2 and D.eq(c.args[1], "basedoc") and
                           isinstance(loop[0].target, ast.Tuple) and isinstance(c.args[0], ast.Name) and
                           c.args[0].id in norm.names_in(loop[0].target) else "run:" + D.text(c))
        ok = seq == ["base", "perdoc", "run:runname,basedoc"]
    ctx.ob(ms, ok, "per sub-segment: basedoc captured before write_per_doc; the run is renumbered by that basedoc")
    # the parent's own documents are numbered first, so its per-document reader must be first in the combined reader
    # (the list is the one the MultiPerDocumentReader is built from)
    lists = [norm.canon(c.args[0]) for c in norm.calls_in(ms.node) if norm.call_name(c) == "MultiPerDocumentReader" and c.args]
    own = [c for c in norm.calls_in(ms.node) if norm.call_name(c) in ("insert", "append") and
           norm.canon(norm.receiver(c)) in lists and "self.per_document_reader()" in norm.canon(c)]
    # second spelling: the list is written out at the call, [self.per_document_reader()] + <the sub-writers' readers>
    head_first = False
    for c in norm.calls_in(ms.node):
        if norm.call_name(c) == "MultiPerDocumentReader" and c.args:
            a0 = norm.inline_defs(c.args[0], ms.node)
            while isinstance(a0, ast.BinOp) and isinstance(a0.op, ast.Add):
                a0 = a0.left
            if isinstance(a0, ast.List) and a0.elts and norm.canon(a0.elts[0]) == "self.per_document_reader()" and not own:
                head_first = True
    ctx.ob(ms, (len(own) == 1 and norm.call_name(own[0]) == "insert" and norm.canon(own[0].args[0]) == "0") or head_first,
           "the parent writer's per-document reader is placed first (its documents have the lowest numbers)",
           detail=str([D.text(c) for c in own]))
    rr = prog.method("multiproc.MpWriter", "_read_and_renumber_run", inherited=False)
    E = pm.Alpha(rr)
    gens = [n for n in ast.walk(rr.node) if isinstance(n, ast.GeneratorExp)]
    ok = len(gens) == 1 and E.eq(gens[0].elt, "(fname, text, (docnum + offset), weight, value)") and \
        E.eq(gens[0].generators[0].target, "(fname, text, docnum, weight, value)")
    if not gens:
        # the same generator written as a generator function of the class that the method returns: for <targets> in <run>: yield <tuple>
        for c in norm.calls_in(rr.node):
            h = prog.lookup(rr.cls, c.func.attr) if isinstance(c.func, ast.Attribute) and norm.canon(c.func.value) in ("self", "cls", rr.cls.name) else None
            if h is None or h is rr:
                continue
            loops = [n for n in h.node.body if isinstance(n, ast.For)]
            if len(loops) == 1 and len(h.node.body) == 1 + (1 if ast.get_docstring(h.node) else 0) and len(loops[0].body) == 1 and \
                    isinstance(loops[0].body[0], ast.Expr) and isinstance(loops[0].body[0].value, ast.Yield):
                hp = [p_ for p_ in h.params if p_ not in ("self", "cls")]
                amap = dict(zip(hp, [norm.canon(a) for a in c.args]))
                H = pm.Alpha(h)
                offname = [k for k, v in amap.items() if v == "offset"]
                ok = len(offname) == 1 and H.eq(loops[0].body[0].value.value, "(fname, text, (docnum + %s), weight, value)" % offname[0]) and \
                    H.eq(loops[0].target, "(fname, text, docnum, weight, value)")
                ctx.saw(h)
    ctx.ob(rr, ok, "runs are renumbered by adding the offset to the docnum element only",
           detail=str([norm.canon(g.elt) for g in gens]))


@rule("C06", "R2", "K11", "merge policies partition the segment list: merged away or kept, never both or neither",
      min_instances=3,
      clause="In every shipped merge policy each input segment is either handed to writer.add_reader (and absent from "
             "the returned list) or returned unchanged; commit() appends the new segment to exactly the returned list.")
def c06_r2(ctx):
    prog = ctx.prog
    for name in ("NO_MERGE", "MERGE_SMALL", "OPTIMIZE", "CLEAR"):
        f = prog.func("writing." + name)
        ctx.saw(f)
        rets = [norm.canon(r.value) for r in returns_of(f)]
        merged = [norm.canon(c) for c in norm.calls_in(f.node) if norm.call_name(c) == "add_reader"]
        if name == "NO_MERGE":
            ctx.ob(f, rets == ["segments"] and not merged, "returns the list unchanged and merges nothing")
        elif name == "CLEAR":
            ctx.ob(f, rets == ["[]"] and not merged, "drops every segment (documented: DELETES all existing segments)")
        elif name == "OPTIMIZE":
            loops = [norm.canon(n.iter) for n in ast.walk(f.node) if isinstance(n, ast.For)]
            ctx.ob(f, rets == ["[]"] and loops == ["segments"] and len(merged) == 1, "merges every segment and returns none",
                   detail="loops %s returns %s" % (loops, rets))
        else:
            # MERGE_SMALL: each segment is appended to exactly one of the two lists
            A = pm.Alpha(f)
            fa = guards.Facts(f)
            # roles: the merged list is what the add_reader loop iterates; the kept list is the returned local;
            # the flag is the local initialised to False
            mloops = [n for n in ast.walk(f.node) if isinstance(n, ast.For) and any(norm.call_name(c) == "add_reader" for c in norm.calls_in(n))]
            roles_ok = len(mloops) == 1 and A.eq(mloops[0].iter, "segments_to_merge")
            for r in returns_of(f):
                if isinstance(r.value, ast.Name) and r.value.id != "segments":
                    roles_ok = A.eq(r.value, "unchanged_segments") and roles_ok
            roles_ok = any(A.eq(st, "merge_point_found = False") for st in f.node.body) and roles_ok
            flag, keep, mrg = A.name("merge_point_found"), A.name("unchanged_segments"), A.name("segments_to_merge")
            apps = {}
            for n in fa.g.nodes:
                for frag in cfgmod.node_exprs(n):
                    for c in norm.calls_in(frag):
                        if norm.call_name(c) == "append" and norm.canon(norm.receiver(c)) in (keep, mrg):
                            role = "unchanged_segments" if norm.canon(norm.receiver(c)) == keep else "segments_to_merge"
                            apps[role] = sorted((p_, t.replace(flag, "merge_point_found")) for (p_, t) in (fa.at(n) or []) if flag in t)
            excl = roles_ok and apps.get("unchanged_segments") == [("T", "merge_point_found")] and apps.get("segments_to_merge") == [("F", "merge_point_found")]
            slice_form = False
            if not excl:
                # accepted second idiom: scan the sorted list S with enumerate, append (seg, i) to the merge list, `break` at the
                # merge point, keep  S[i + 1:]  -- prefix and suffix of the SAME list S split at the SAME index i
                mrg2 = norm.canon(mloops[0].iter) if len(mloops) == 1 else None
                scans = [lp for lp in ast.walk(f.node) if isinstance(lp, ast.For) and lp not in mloops and isinstance(lp.iter, ast.Call)
                         and norm.call_name(lp.iter) == "enumerate" and isinstance(lp.target, ast.Tuple) and len(lp.target.elts) == 2
                         and any(isinstance(x, ast.Break) for x in ast.walk(lp))]
                if mrg2 and len(scans) == 1:
                    lp = scans[0]
                    S = norm.canon(lp.iter.args[0])
                    iv, sv_ = [norm.canon(e) for e in lp.target.elts]
                    top_app = [st for st in lp.body if isinstance(st, ast.Expr) and isinstance(st.value, ast.Call) and norm.call_name(st.value) == "append"
                               and norm.canon(norm.receiver(st.value)) == mrg2 and norm.canon(st.value.args[0]) == "(%s, %s)" % (sv_, iv)]
                    brk_after = bool(top_app) and all(not isinstance(x, ast.Break) for st in lp.body[:lp.body.index(top_app[0])] for x in ast.walk(st))
                    keeps = [st for st in ast.walk(f.node) if isinstance(st, ast.Assign) and isinstance(st.value, ast.Subscript)
                             and norm.canon(st.value.value) == S and isinstance(st.value.slice, ast.Slice) and st.value.slice.upper is None and st.value.slice.step is None
                             and st.value.slice.lower is not None and norm.canon(st.value.slice.lower) == "(1 + %s)" % iv]
                    rets_ = [norm.canon(r.value) for r in returns_of(f)]
                    if len(top_app) == 1 and brk_after and len(keeps) == 1 and norm.canon(keeps[0].targets[0]) in rets_ and \
                            norm.deep_canon(lp.iter.args[0], f.node).startswith("sorted(segments"):
                        slice_form = True
                        A.eq(keeps[0].targets[0], "unchanged_segments")
                        keep = A.name("unchanged_segments")
                        roles_ok = True
            split_form = False
            if not excl and not slice_form and len(mloops) == 1 and isinstance(mloops[0].iter, ast.Name):
                # third idiom: the merged list is the prefix S[:E] and the kept list the suffix S[E:] of ONE list S at ONE index
                # expression E -- a partition whatever E is; S is the sorted copy of the input
                defs = norm.assigned_names(f.node)
                mname = mloops[0].iter.id
                mdef = [v for v in defs.get(mname, []) if v is not None]
                rets_names = [r.value.id for r in returns_of(f) if isinstance(r.value, ast.Name) and r.value.id != "segments"]
                if len(mdef) == 1 and isinstance(mdef[0], ast.Subscript) and isinstance(mdef[0].slice, ast.Slice) \
                        and mdef[0].slice.lower is None and mdef[0].slice.step is None and mdef[0].slice.upper is not None and len(set(rets_names)) == 1:
                    kdef = [v for v in defs.get(rets_names[0], []) if v is not None]
                    if len(kdef) == 1 and isinstance(kdef[0], ast.Subscript) and isinstance(kdef[0].slice, ast.Slice) \
                            and kdef[0].slice.upper is None and kdef[0].slice.step is None and kdef[0].slice.lower is not None \
                            and norm.canon(kdef[0].value) == norm.canon(mdef[0].value) \
                            and norm.deep_canon(kdef[0].slice.lower, f.node) == norm.deep_canon(mdef[0].slice.upper, f.node) \
                            and norm.deep_canon(mdef[0].value, f.node).startswith("sorted(segments"):
                        split_form = True
                        slice_form = True
                        roles_ok = True
                        keep, mrg = rets_names[0], mname
                        A.eq(ast.Name(id=keep, ctx=ast.Load()), "unchanged_segments")
                        A.eq(ast.Name(id=mrg, ctx=ast.Load()), "segments_to_merge")
            ctx.ob(f, excl or slice_form, "each segment goes to exactly one of unchanged_segments / segments_to_merge", detail=str(apps))
            # merged ones are the ones passed to add_reader; return unchanged (or everything when nothing is merged)
            fa_ret = {}
            for n in fa.g.nodes:
                if n.kind == "return":
                    fa_ret[A.text(n.ast.value)] = sorted((p_, t) for (p_, t) in (fa.at(n) or []) if flag in t or mrg in t)
            ok = roles_ok and set(fa_ret) == {"unchanged_segments", "segments"} and \
                (any(p_ == "T" for (p_, t) in fa_ret["unchanged_segments"]) or slice_form)
            ctx.ob(f, ok, "exactly segments_to_merge is merged; unchanged_segments is returned then, otherwise the whole input",
                   detail="returns %s" % (fa_ret,))
            # the partition loop ranges over a sorted copy of all input segments
            ploops = [n for n in ast.walk(f.node) if isinstance(n, ast.For) and n not in mloops and
                      any(norm.call_name(c) == "append" for c in norm.calls_in(n))]
            ok = False
            srt = []
            for lp in ploops:
                e = norm.inline_defs(lp.iter, f.node)
                srt.append(norm.canon(e))
                inner = [c for c in norm.calls_in(e) if norm.call_name(c) == "sorted" and c.args and norm.canon(c.args[0]) == "segments"]
                ok = ok or bool(inner)
            ctx.ob(f, (len(ploops) == 1 and ok) or split_form, "the partition ranges over all input segments", detail=str(srt))
    cm = prog.method("writing.SegmentWriter", "commit", inherited=False)
    F = pm.Alpha(cm)
    sts = pm.stmts_of(cm.node)
    appended = any(isinstance(st, ast.Expr) and isinstance(st.value, ast.Call) and F.eq(st.value, "finalsegments.append(ANY)") and
                   norm.deep_canon(st.value.args[0], cm.node) == "self._finalize_segment()" for st in sts)
    ctx.ob(cm, F.has(sts, "finalsegments = self._merge_segments(mergetype, optimize, merge)") and
           appended and F.has(sts, "self._commit_toc(finalsegments)"),
           "commit publishes the policy's kept segments plus the new segment")
    mg = prog.method("writing.SegmentWriter", "_merge_segments", inherited=False)
    rets = [norm.canon(r.value) for r in returns_of(mg)]
    # whichever way the policy was chosen (a re-bound parameter, a local, a helper's result): what matters is what it is applied to
    applied = [r.value for r in returns_of(mg)]
    ctx.ob(mg, bool(applied) and all(isinstance(v, ast.Call) and not v.keywords and [norm.canon(a) for a in v.args] == ["self", "self.segments"]
                                     and isinstance(v.func, ast.Name) for v in applied),
           "the policy is applied to this writer and its segment list", detail=str(rets))


@rule("C06", "R3", "K4", "every multi-segment view numbers documents by the same recurrence over ALL documents",
      min_instances=6, also=("C07",),
      clause="MultiReader, MultiPerDocumentReader and the writer's doc offsets append the running base and then add "
             "doc_count_all() (deleted documents included) for every segment unconditionally; a document is located "
             "with bisect_right(offsets, n) - 1.")
def c06_r3(ctx):
    prog = ctx.prog
    for fn, coll, offs, counter in OFFSET_BUILDERS:
        f = prog.func(fn)
        ctx.saw(f)
        # the collection / the offsets list may be held in a local that is stored into (or taken from) the attribute
        def same_obj(text, attr):
            if text == attr:
                return True
            for st in ast.walk(f.node):
                if isinstance(st, ast.Assign) and len(st.targets) == 1:
                    t_, v_ = norm.canon(st.targets[0]), norm.canon(st.value)
                    if (t_ == attr and v_ == text) or (t_ == text and v_ == attr):
                        return True
            return False
        loops = [n for n in ast.walk(f.node) if isinstance(n, ast.For) and same_obj(norm.canon(n.iter), coll)]
        ok = False
        detail = ""
        if len(loops) == 1:
            lp = loops[0]
            body = [norm.stmt_text(s_) for s_ in lp.body]
            v = norm.canon(lp.target)
            apps = [s_ for s_ in lp.body if isinstance(s_, ast.Expr) and isinstance(s_.value, ast.Call) and norm.call_name(s_.value) == "append"
                    and same_obj(norm.canon(norm.receiver(s_.value)), offs)]
            incs = [s_ for s_ in lp.body if isinstance(s_, ast.AugAssign) and isinstance(s_.op, ast.Add)]
            # both statements sit directly in the loop body (unconditional), append first; nothing else touches the base
            base_t = norm.canon(incs[0].target) if len(incs) == 1 else None
            others = [s_ for s_ in lp.body if s_ not in apps and s_ not in incs and
                      any(isinstance(x, (ast.Name, ast.Attribute)) and isinstance(x.ctx, ast.Store) and (norm.canon(x) == base_t or same_obj(norm.canon(x), offs)) for x in ast.walk(s_))]
            ok = len(apps) == 1 and len(incs) == 1 and lp.body.index(apps[0]) < lp.body.index(incs[0]) and not others and \
                not any(isinstance(s_, (ast.Continue, ast.Break, ast.Return)) for s_ in ast.walk(lp) if s_ is not lp) and \
                norm.canon(apps[0].value.args[0]) == norm.canon(incs[0].target) and \
                norm.canon(incs[0].value) == "%s.%s()" % (v, counter)
            detail = " ; ".join(body)
        if not ok and not loops:
            # accepted equivalent idiom: prefix sums over the list of ALL counts
            #   counts = [x.<counter>() for x in <coll>]        (no filter)
            #   <offs> = [sum(counts[:i]) for i in range(len(counts))]     or   list(accumulate(...)) shifted by one
            for st in ast.walk(f.node):
                if isinstance(st, ast.Assign) and norm.canon(st.targets[0]) == offs and isinstance(st.value, ast.ListComp):
                    lc = st.value
                    g0 = lc.generators[0]
                    if len(lc.generators) == 1 and not g0.ifs and isinstance(g0.target, ast.Name) and isinstance(lc.elt, ast.Call) \
                            and norm.call_name(lc.elt) == "sum" and len(lc.elt.args) == 1 and isinstance(lc.elt.args[0], ast.Subscript):
                        sub = lc.elt.args[0]
                        cnts = norm.canon(sub.value)
                        cdef = norm.definitions(f.node).get(cnts)
                        ok = norm.canon(sub.slice) == ":%s" % g0.target.id and norm.canon(g0.iter) in ("range(len(%s))" % cnts, "xrange(len(%s))" % cnts) \
                            and isinstance(cdef, ast.ListComp) and len(cdef.generators) == 1 and not cdef.generators[0].ifs \
                            and norm.canon(cdef.generators[0].iter) == coll and isinstance(cdef.generators[0].target, ast.Name) \
                            and norm.canon(cdef.elt) == "%s.%s()" % (cdef.generators[0].target.id, counter)
                        detail = norm.stmt_text(st)
        ctx.ob(f, ok, "for each element: offsets.append(base); base += element.%s()  (unconditionally)" % counter, detail=detail)
    for cn in LOCATOR_CLASSES:
        cls = prog.cls(cn)
        found = []
        for f in cls.methods.values():
            for c in norm.calls_in(f.node):
                if norm.call_name(c) in ("bisect_right", "bisect_left", "bisect"):
                    # the call must be the left operand of `... - 1`
                    par = [n for n in ast.walk(f.node) if isinstance(n, ast.BinOp) and isinstance(n.op, ast.Sub) and n.left is c
                           and isinstance(n.right, ast.Constant) and n.right.value == 1]
                    offs_arg = norm.canon(c.args[0], norm.aliases(f.node)) if c.args else ""
                    found.append((f, norm.call_name(c) == "bisect_right" and bool(par) and "offset" in offs_arg, norm.canon(c)))
                    ctx.saw(f)
        ctx.ob(cls, bool(found) and all(ok_ for _, ok_, _ in found), "locates a document with bisect_right(offsets, docnum) - 1",
               detail=str([(f_.name, t_) for f_, _, t_ in found]), loc=cls.loc)
    mcr = prog.method("columns.MultiColumnReader", "__init__", inherited=False)
    G = pm.Alpha(mcr)
    sts = pm.stmts_of(mcr.node)
    lps = [lp for lp in sts if isinstance(lp, ast.For) and G.eq(lp.iter, "readers") and G.eq(lp.target, "r")]
    ctx.ob(mcr, len(lps) == 1 and G.has(lps[0].body, "self._doc_offsets.append(self._doccount)") and G.has(lps[0].body, "self._doccount += len(r)")
           and G.has(sts, "self._doc_offsets = offsets"),
           "MultiColumnReader uses the caller's offsets or the same recurrence over its readers' lengths")


@rule("C06", "R4", "K2", "a document group is never split across sub-writers",
      min_instances=1, also=("C18",),
      clause="MpWriter.add_document flushes the buffered documents to a job only while no group is open "
             "(_grouping == 0), so a group travels to one sub-writer as one batch.")
def c06_r4(ctx):
    prog = ctx.prog
    f = prog.method("multiproc.MpWriter", "add_document", inherited=False)
    ctx.saw(f)
    fa = guards.Facts(f)
    sites = []
    for n in fa.g.nodes:
        for frag in cfgmod.node_exprs(n):
            for c in norm.calls_in(frag):
                if norm.call_name(c) == "_enqueue":
                    sites.append(sorted(fa.at(n) or []))
    ctx.ob(f, len(sites) == 1 and ("F", "self._grouping") in sites[0], "_enqueue() is called only when no group is open", detail=str(sites))
    sg = prog.method("multiproc.MpWriter", "start_group", inherited=False)
    eg = prog.method("multiproc.MpWriter", "end_group", inherited=False)
    ctx.ob(sg, "self._grouping += 1" in norm.stmt_text(sg.node) and "self._grouping -= 1" in norm.stmt_text(eg.node),
           "start_group/end_group count nesting in _grouping")


@rule("C06", "R5", "K1", "the writer's own (merged-in or newly added) documents are part of the segment list it publishes",
      min_instances=3, also=("C18", "C02"),
      clause="On every path of SegmentWriter.commit / MpWriter._commit / SerialMpWriter._commit that reaches "
             "_commit_toc(...), the writer's current segment was finalized (_finalize_segment) or assembled "
             "(_assemble_segment) -- or the path established that nothing was added (self._added is false); merge "
             "policies pull old segments into the writer's pool, so closing without finalizing drops them.")
def c06_r5(ctx):
    prog = ctx.prog
    from ..typestate import TypeState
    for qn in ("writing.SegmentWriter.commit", "multiproc.MpWriter._commit", "multiproc.SerialMpWriter._commit"):
        f = prog.func(qn)
        ctx.saw(f)

        def classify(func, call, res, concrete):
            nm = norm.call_name(call)
            if nm in ("_finalize_segment", "_assemble_segment"):
                return "kept"
            if nm == "_commit_toc":
                return "publish"
            return None

        def edge_event(func, node, label):
            if node.kind == "test" and norm.canon(node.ast) == "self._added" and label[0] == "F":
                return "nothing_added"
            return None

        def delta(state, ev):
            if state == "BAD":
                return state
            if ev in ("kept", "nothing_added"):
                return "OK"
            if ev == "publish" and state == "U":
                return "BAD"
            return state
        ts = TypeState(prog, calls_of(prog), delta, classify, edge_event=edge_event, max_depth=0)
        ts.all_states = ("U", "OK")
        exits = ts.run(f, f.cls, "U")
        bad = exits.get("BAD")
        pubs = [c for c in norm.calls_in(f.node) if norm.call_name(c) == "_commit_toc"]
        ctx.ob(f, bool(pubs) and bad is None, "every path to _commit_toc finalized/assembled the current segment or knows nothing was added",
               path=cfgmod.path_text(bad) if bad else None)


@rule("C06", "R7", "K2", "the single-segment shortcut of the term merge yields the head it already pulled",
      min_instances=1, also=("C01",),
      clause="MultiReader._merge_terms pulls one head term from every sub-iterator before it looks at how many are active. Wherever it "
             "then drains one sub-iterator directly (a `for t in <iterator>` whose body yields t, instead of going through the heap), a "
             "yield of the pulled head -- an expression that reads the head list -- comes first on that path; else the first term of the "
             "only segment that has terms at or after the start is lost (lexicon, expand_prefix, terms_from all go through here).")
def c06_r7(ctx):
    prog = ctx.prog
    f = prog.method("reading.MultiReader", "_merge_terms", inherited=False)
    ctx.saw(f)
    fpos = norm.source_pos(f.node)
    # the list that receives the heads:  <list>.append((term, ...)) with term = next(it)
    heads = set()
    for c in norm.calls_in(f.node):
        if norm.call_name(c) == "append" and c.args and isinstance(c.args[0], ast.Tuple) and isinstance(c.func.value, ast.Name):
            heads.add(c.func.value.id)
    if not heads:
        raise AnalysisError("_merge_terms: the list of head terms was not found")
    n = 0
    for br in ast.walk(f.node):
        if not isinstance(br, ast.If):
            continue
        drains = []
        for x in br.body:
            if isinstance(x, ast.For):
                ys = [y for y in ast.walk(x) if isinstance(y, ast.Yield)]
                if ys and isinstance(x.target, ast.Name) and all(isinstance(y.value, ast.Name) and y.value.id == x.target.id for y in ys):
                    drains.append((x, x.iter))
            elif isinstance(x, ast.Expr) and isinstance(x.value, ast.YieldFrom):
                drains.append((x, x.value.value))
        for lp, it in drains:
            n += 1
            before = [st for st in br.body if fpos(st) < fpos(lp)]
            ok = False
            for st in before:
                for y in ast.walk(st):
                    if isinstance(y, ast.Yield) and y.value is not None:
                        t = norm.deep_canon(y.value, f.node)
                        if any(h in norm.names_in(norm.parse_expr(t)) for h in heads) or \
                                any(isinstance(d, ast.Assign) and any(h in norm.names_in(d.value) for h in heads) and
                                    any(isinstance(z, ast.Name) and z.id in norm.names_in(y.value) for t_ in d.targets for z in ast.walk(t_))
                                    for d in before):
                            ok = True
            ctx.ob(f, ok, "the head already pulled from the iterator is yielded before the iterator is drained directly",
                   detail="drains %s" % norm.canon(it), loc=ctx.nodeloc(f, lp))
    if n < 1:
        ctx.note("C06-R7: _merge_terms has no direct drain of a sub-iterator (every term goes through the heap)")
        ctx.ob(f, True, "no shortcut that drains a sub-iterator directly")
